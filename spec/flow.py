"""RFC 8955 / 8956 FlowSpec reference (executable spec): NLRI length, component walk, encoder from abstract rules."""


def flow_split(data: bytes):
    """RFC 8955 4.1: -> (payload, leftover) or None when the NLRI is truncated"""
    if len(data) < 1:
        return None
    if data[0] < 0xF0:
        n, h = data[0], 1
    else:
        if len(data) < 2:
            return None
        n, h = ((data[0] & 0x0F) << 8) | data[1], 2
    if len(data) < h + n:
        return None
    return bytes(data[h : h + n]), bytes(data[h + n :])


def flow_length_prefix(n: int) -> bytes:
    if n < 240:
        return bytes([n])
    if n <= 4095:
        return bytes([0xF0 | (n >> 8), n & 0xFF])
    raise ValueError('FlowSpec NLRI longer than 4095 bytes cannot be encoded')


PREFIX_TYPES = (1, 2)
V4_TYPES = set(range(1, 13))
V6_TYPES = set(range(1, 14))


def flow_components(payload: bytes, ipv6: bool = False, vpn: bool = False):
    """walk the components of one FlowSpec NLRI payload -> (rd, [(type, item...)]); raises ValueError when malformed
    prefix component: (type, masklen, offset, prefix bytes); operator component: (type, [(op byte, value int, width)])"""
    rd = None
    if vpn:
        if len(payload) < 8:
            raise ValueError('truncated RD')
        rd, payload = payload[:8], payload[8:]
    out = []
    i, n = 0, len(payload)
    last = 0
    while i < n:
        t = payload[i]
        i += 1
        if t not in (V6_TYPES if ipv6 else V4_TYPES):
            raise ValueError(f'undefined component type {t}')
        if t in PREFIX_TYPES:
            if i >= n:
                raise ValueError('truncated prefix')
            bits = payload[i]
            i += 1
            off = 0
            if ipv6:
                if i >= n:
                    raise ValueError('truncated offset')
                off = payload[i]
                i += 1
            nb = (bits + 7) // 8
            if i + nb > n:
                raise ValueError('truncated prefix bytes')
            out.append((t, bits, off, bytes(payload[i : i + nb])))
            i += nb
        else:
            ops = []
            while True:
                if i >= n:
                    raise ValueError('component without end-of-list')
                op = payload[i]
                i += 1
                w = 1 << ((op >> 4) & 3)
                if i + w > n:
                    raise ValueError('truncated value')
                ops.append((op, int.from_bytes(payload[i : i + w], 'big'), w))
                i += w
                if op & 0x80:
                    break
            out.append((t, ops))
        last = t
    return rd, out


def shortest_width(value: int, allowed=(1, 2, 4, 8)) -> int:
    for w in allowed:
        if value < (1 << (8 * w)):
            return w
    raise ValueError('value too large')


def flow_encode(components, rd: bytes = None, ipv6: bool = False) -> bytes:
    """components: list of (type, ...) as returned by flow_components but operator items are (opbits, value) where opbits
    has AND/comparison bits only; encodes per RFC: ascending type, EOL on the last operator, shortest width"""
    body = b'' if rd is None else bytes(rd)
    for comp in sorted(components, key=lambda c: c[0]):
        t = comp[0]
        if t in PREFIX_TYPES:
            _, bits, off, pfx = comp
            body += bytes([t, bits]) + (bytes([off]) if ipv6 else b'') + bytes(pfx[: (bits + 7) // 8])
        else:
            body += bytes([t])
            ops = comp[1]
            for k, (opbits, value, allowed) in enumerate(ops):
                w = shortest_width(value, allowed)
                op = (opbits & 0x4F) | ({1: 0, 2: 1, 4: 2, 8: 3}[w] << 4) | (0x80 if k == len(ops) - 1 else 0)
                body += bytes([op]) + value.to_bytes(w, 'big')
    return flow_length_prefix(len(body)) + body
