"""RFC 8955 / 8956 FlowSpec reference (executable spec): NLRI length, component walk, encoder from abstract rules."""


def flow_split(data: bytes):
    """RFC 8955 4.1: -> (payload, leftover) or None when the NLRI is truncated"""
    if len(data) < 1:
        return None
    if data[0] < 0xF0:
        n, h = data[0], 1
    else:
        if len(data) < 2:
            return None
        n, h = ((data[0] & 0x0F) << 8) | data[1], 2
    if len(data) < h + n:
        return None
    return bytes(data[h : h + n]), bytes(data[h + n :])


def flow_length_prefix(n: int) -> bytes:
    if n < 240:
        return bytes([n])
    if n <= 4095:
        return bytes([0xF0 | (n >> 8), n & 0xFF])
    raise ValueError('FlowSpec NLRI longer than 4095 bytes cannot be encoded')


PREFIX_TYPES = (1, 2)
V4_TYPES = set(range(1, 13))
V6_TYPES = set(range(1, 14))


def flow_components(payload: bytes, ipv6: bool = False, vpn: bool = False):
    """walk the components of one FlowSpec NLRI payload -> (rd, [(type, item...)]); raises ValueError when malformed
    prefix component: (type, masklen, offset, prefix bytes); operator component: (type, [(op byte, value int, width)])"""
    rd = None
    if vpn:
        if len(payload) < 8:
            raise ValueError('truncated RD')
        rd, payload = payload[:8], payload[8:]
    out = []
    i, n = 0, len(payload)
    last = 0
    while i < n:
        t = payload[i]
        i += 1
        if t not in (V6_TYPES if ipv6 else V4_TYPES):
            raise ValueError(f'undefined component type {t}')
        if t in PREFIX_TYPES:
            if i >= n:
                raise ValueError('truncated prefix')
            bits = payload[i]
            i += 1
            off = 0
            if ipv6:
                if i >= n:
                    raise ValueError('truncated offset')
                off = payload[i]
                i += 1
            # RFC 8956 3.1: <length, offset, pattern, padding>, "the length of the pattern is defined by the number of bits
            # needed for the difference between the length and the offset values"; the component is malformed unless
            # offset < length < 129 or length = offset = 0.  (The first version of this function read ceil(length / 8)
            # octets whatever the offset: it was the code's reading, not the RFC's.)  The prefix handed back is the
            # ADDRESS prefix (the pattern put back at bit `offset`), so that both forms compare with the text.
            if ipv6 and (bits > 128 or (off >= bits and not (off == 0 and bits == 0))):
                raise ValueError(f'malformed ipv6 prefix component: length {bits} offset {off}')
            pbits = bits - off
            nb = (pbits + 7) // 8
            if i + nb > n:
                raise ValueError('truncated prefix bytes')
            raw = bytes(payload[i : i + nb])
            if off:
                pattern = int.from_bytes(raw, 'big') >> (nb * 8 - pbits)
                raw = (pattern << (128 - bits)).to_bytes(16, 'big')[: (bits + 7) // 8]
            out.append((t, bits, off, raw))
            i += nb
        else:
            ops = []
            while True:
                if i >= n:
                    raise ValueError('component without end-of-list')
                op = payload[i]
                i += 1
                w = 1 << ((op >> 4) & 3)
                if i + w > n:
                    raise ValueError('truncated value')
                ops.append((op, int.from_bytes(payload[i : i + w], 'big'), w))
                i += w
                if op & 0x80:
                    break
            out.append((t, ops))
        last = t
    return rd, out


def shortest_width(value: int, allowed=(1, 2, 4, 8)) -> int:
    for w in allowed:
        if value < (1 << (8 * w)):
            return w
    raise ValueError('value too large')


def flow_encode(components, rd: bytes = None, ipv6: bool = False) -> bytes:
    """components: list of (type, ...) as returned by flow_components but operator items are (opbits, value) where opbits
    has AND/comparison bits only; encodes per RFC: ascending type, EOL on the last operator, shortest width"""
    body = b'' if rd is None else bytes(rd)
    for comp in sorted(components, key=lambda c: c[0]):
        t = comp[0]
        if t in PREFIX_TYPES:
            _, bits, off, pfx = comp
            if ipv6 and off:
                # RFC 8956 3.1: the pattern is the (length - offset) bits after the skipped ones, padded to an octet
                pbits = max(bits - off, 0)
                nb = (pbits + 7) // 8
                address = int.from_bytes(bytes(pfx).ljust(16, b'\0')[:16], 'big')
                pattern = ((address << off) & ((1 << 128) - 1)) >> (128 - pbits) if pbits else 0
                body += bytes([t, bits, off]) + (pattern << (nb * 8 - pbits)).to_bytes(nb, 'big')
            else:
                body += bytes([t, bits]) + (bytes([off]) if ipv6 else b'') + bytes(pfx[: (bits + 7) // 8])
        else:
            body += bytes([t])
            ops = comp[1]
            for k, (opbits, value, allowed) in enumerate(ops):
                w = shortest_width(value, allowed)
                op = (opbits & 0x4F) | ({1: 0, 2: 1, 4: 2, 8: 3}[w] << 4) | (0x80 if k == len(ops) - 1 else 0)
                body += bytes([op]) + value.to_bytes(w, 'big')
    return flow_length_prefix(len(body)) + body
