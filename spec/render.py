"""RFC reference SEMANTIC decode of an UPDATE body into the shape ExaBGP documents for its JSON API
(message.update.{attribute,announce,withdraw}), for the attribute subset of the bounded corpus.
Written from the RFCs and the API documentation, not from the repository's decoders."""
import ipaddress
import socket
import struct

from .update import prefixes, tlvs

FAMILY = {(1, 1): 'ipv4 unicast', (2, 1): 'ipv6 unicast', (1, 2): 'ipv4 multicast', (2, 2): 'ipv6 multicast'}
ORIGIN = {0: 'igp', 1: 'egp', 2: 'incomplete'}
SEG = {1: 'as-set', 2: 'as-sequence', 3: 'as-confed-sequence', 4: 'as-confed-set'}


def _ip(b: bytes) -> str:
    return str(ipaddress.ip_address(bytes(b)))


def _pfx(afi, bits, body):
    size = 4 if afi == 1 else 16
    addr = bytes(body) + bytes(size - len(body))
    # mask the host bits: prefixes are reported normalised
    return f'{_ip(addr)}/{bits}'


def _nlri(afi, item):
    pid, lab, rd, bits, body = item
    d = {'nlri': _pfx(afi, bits, body)}
    if pid is not None:
        d['path-information'] = _ip(struct.pack('!L', pid))
    return d


def segments(val: bytes, width: int):
    out = []
    i = 0
    while i < len(val):
        t, n = val[i], val[i + 1]
        i += 2
        asns = [int.from_bytes(val[i + k * width : i + (k + 1) * width], 'big') for k in range(n)]
        if i + n * width > len(val):
            raise ValueError('truncated segment')
        i += n * width
        out.append((t, asns))
    return out


def merge_6793(path2, path4):
    """RFC 6793 4.2.3.  "the NEW BGP speaker ... determines the number of AS numbers in the AS_PATH and AS4_PATH using the
    method specified in Section 9.1.2.2 of [RFC4271] and in [RFC5065] for route selection": an AS_SET counts as one
    (RFC 4271 9.1.2.2 a), AS_CONFED_SEQUENCE / AS_CONFED_SET are not counted (RFC 5065 5.3).  With fewer in AS_PATH the
    AS4_PATH is ignored; otherwise "as many AS numbers and path segments as necessary from the leading part of the AS_PATH"
    are prepended to AS4_PATH, and "a valid AS_CONFED_SEQUENCE or AS_CONFED_SET path segment SHALL be prepended if it is
    either the leading path segment or is adjacent to a path segment that is prepended".  (The first version of this
    function counted the members of a confederation segment: the code's reading, not the RFC's.)"""

    def count(p):
        return sum(0 if t in (3, 4) else 1 if t == 1 else len(a) for t, a in p)

    n2, n4 = count(path2), count(path4)
    if n2 < n4:
        return path2
    keep = n2 - n4
    out = []
    for t, a in path2:
        if t in (3, 4):
            # leading, or adjacent to a segment which was prepended (whole): prepended, and it does not count
            if not out or out[-1][2]:
                out.append((t, a, True))
                continue
            break
        if keep <= 0:
            break
        if t == 1:
            out.append((t, a, True))
            keep -= 1
        else:
            out.append((t, a[:keep], len(a) <= keep))
            keep -= len(a[:keep])
    return [(t, a) for t, a, _whole in out] + list(path4)


def expected_update(body: bytes, asn4: bool, addpath=lambda afi, safi: False, discarded=frozenset()):
    """`discarded`: attribute types removed by RFC 7606 attribute discard -- the UPDATE is read as if they had not been sent
    (a malformed AGGREGATOR, once discarded, no longer says anything about AS4_PATH)"""
    wl = int.from_bytes(body[0:2], 'big')
    wd = body[2 : 2 + wl]
    al = int.from_bytes(body[2 + wl : 4 + wl], 'big')
    at = body[4 + wl : 4 + wl + al]
    nl = body[4 + wl + al :]
    announce, withdraw, attribute = {}, {}, {}
    nexthop = None
    path2 = path4 = None
    agg = agg4 = None
    seen = set()
    for flags, typ, val in tlvs(at):
        if typ in seen:
            continue  # RFC 7606 3.g: first occurrence wins
        seen.add(typ)
        if typ in discarded:
            continue
        if typ == 1:
            attribute['origin'] = ORIGIN[val[0]]
        elif typ == 2:
            path2 = segments(val, 4 if asn4 else 2)
        elif typ == 17:
            path4 = segments(val, 4)
        elif typ == 3:
            nexthop = _ip(val)
        elif typ == 4:
            attribute['med'] = int.from_bytes(val, 'big')
        elif typ == 5:
            attribute['local-preference'] = int.from_bytes(val, 'big')
        elif typ == 6:
            attribute['atomic-aggregate'] = True
        elif typ == 7:
            w = len(val) - 4
            agg = f'{int.from_bytes(val[:w], "big")}:{_ip(val[w:])}'
        elif typ == 18:
            agg4 = f'{int.from_bytes(val[:4], "big")}:{_ip(val[4:])}'
        elif typ == 8:
            attribute['community'] = [[int.from_bytes(val[i : i + 2], 'big'), int.from_bytes(val[i + 2 : i + 4], 'big')] for i in range(0, len(val), 4)]
        elif typ == 9:
            attribute['originator-id'] = _ip(val)
        elif typ == 10:
            attribute['cluster-list'] = [_ip(val[i : i + 4]) for i in range(0, len(val), 4)]
        elif typ == 32:
            attribute['large-community'] = [[int.from_bytes(val[i + k : i + k + 4], 'big') for k in (0, 4, 8)] for i in range(0, len(val), 12)]
        elif typ == 14:
            afi, safi, nhl = int.from_bytes(val[0:2], 'big'), val[2], val[3]
            nh = val[4 : 4 + nhl]
            nhs = _ip(nh[:4]) if nhl in (4,) else _ip(nh[:16]) if nhl in (16, 32) else None
            items = prefixes(val[5 + nhl :], addpath(afi, safi))
            fam = announce.setdefault(FAMILY[(afi, safi)], {})
            fam.setdefault(nhs, []).extend(_nlri(afi, it) for it in items)
        elif typ == 15:
            afi, safi = int.from_bytes(val[0:2], 'big'), val[2]
            items = prefixes(val[3:], addpath(afi, safi))
            withdraw.setdefault(FAMILY[(afi, safi)], []).extend(_nlri(afi, it) for it in items)
        elif typ == 16:
            pass  # extended communities: rendered by the bounded layer as raw values only
        elif flags & 0x40:
            # unknown transitive: relayed, PARTIAL set
            # (the four low bits of the flags are unused and ignored on receipt, RFC 4271 4.3)
            attribute[f'attribute-0x{typ:02X}-0x{((flags & 0xF0) | 0x20):02X}'] = '0x' + val.hex()
        # unknown optional non-transitive: left out (not relayed)
    # RFC 6793 4.2.3: "If the AS number [of AGGREGATOR] is not AS_TRANS, then ... the AS4_AGGREGATOR attribute and the AS4_PATH
    # attribute SHALL be ignored"
    old_aggregator = agg is not None and not agg.startswith('23456:')
    if path2 is not None:
        path = merge_6793(path2, path4) if (path4 is not None and not asn4 and not old_aggregator) else path2
        # adjacent AS_SEQUENCE segments are one sequence semantically (segment boundaries carry no meaning)
        norm = []
        for t, a in path:
            if norm and t == 2 and norm[-1][0] == 2:
                norm[-1] = (2, norm[-1][1] + list(a))
            elif a or t != 2:
                norm.append((t, list(a)))
        path = norm
        if path:  # an empty AS_PATH is not listed by the API
            attribute['as-path'] = {str(k): {'element': SEG[t], 'value': a} for k, (t, a) in enumerate(path)}
    if agg is not None:
        attribute['aggregator'] = agg4 if (agg4 is not None and not asn4 and agg.startswith('23456:')) else agg
    v4a = prefixes(nl, addpath(1, 1))
    if v4a:
        announce.setdefault('ipv4 unicast', {}).setdefault(nexthop, []).extend(_nlri(1, it) for it in v4a)
    v4w = prefixes(wd, addpath(1, 1))
    if v4w:
        withdraw.setdefault('ipv4 unicast', []).extend(_nlri(1, it) for it in v4w)
    if withdraw and nexthop is not None:
        attribute['next-hop'] = nexthop
    return {'attribute': attribute, 'announce': announce, 'withdraw': withdraw}


WELL_KNOWN = {1, 2, 3, 5, 6}
FIXED_LEN = {1: 1, 3: 4, 4: 4, 5: 4, 6: 0, 9: 4}
MULTIPLE = {8: 4, 10: 4, 32: 12, 16: 8}
DISCARD_CLASS = {6, 7, 18}  # RFC 7606 7.6, 7.7, and AS4_AGGREGATOR (RFC 6793 6): attribute discard


def malformed(body: bytes, asn4: bool, addpath=lambda afi, safi: False, families=((1, 1), (2, 1))):
    """RFC 7606 syntactic checks for the corpus attributes -> list of (type, reason); [] when well-formed.
    type None = the attribute block itself cannot be walked"""
    out = []
    wl = int.from_bytes(body[0:2], 'big')
    al = int.from_bytes(body[2 + wl : 4 + wl], 'big')
    at = body[4 + wl : 4 + wl + al]
    try:
        items = tlvs(at)
    except ValueError as e:
        return [(None, str(e))]
    seen = set()
    for flags, typ, val in items:
        if typ in seen:
            # RFC 7606 3.g: a repeated attribute is not malformed: occurrences after the first are discarded,
            # except MP_REACH / MP_UNREACH where the session is reset
            if typ in (14, 15):
                out.append((typ, 'duplicate MP attribute'))
            continue
        seen.add(typ)
        opt, trans = bool(flags & 0x80), bool(flags & 0x40)
        if typ in WELL_KNOWN and (opt or not trans):
            out.append((typ, 'flags'))
        if typ in (4, 9, 10, 14, 15) and (not opt or trans):
            out.append((typ, 'flags'))
        if typ in (7, 8, 16, 17, 18, 32) and not (opt and trans):
            out.append((typ, 'flags'))
        if typ in FIXED_LEN and len(val) != FIXED_LEN[typ]:
            out.append((typ, 'length'))
        if typ in MULTIPLE and (len(val) % MULTIPLE[typ] or not val):
            out.append((typ, 'length'))
        if typ == 1 and len(val) == 1 and val[0] > 2:
            out.append((typ, 'value'))
        if typ == 7 and len(val) != (8 if asn4 else 6):
            out.append((typ, 'length'))
        if typ == 18 and len(val) != 8:
            out.append((typ, 'length'))
        if typ in (2, 17):
            try:
                for t, a in segments(val, 4 if (asn4 or typ == 17) else 2):
                    if t not in (1, 2, 3, 4) or not a:
                        out.append((typ, 'segment'))
            except (ValueError, IndexError):
                out.append((typ, 'segment'))
        if typ == 14:
            try:
                nhl = val[3]
                fam = (int.from_bytes(val[0:2], 'big'), val[2])
                if fam not in families:
                    out.append((typ, 'family not negotiated'))
                    continue
                val[4 + nhl]  # the Reserved octet is there (IndexError: truncated); its VALUE "SHOULD be ignored upon receipt" (RFC 4760 3)
                if nhl not in (4, 16, 32):
                    out.append((typ, 'nexthop'))
                prefixes(val[5 + nhl :], addpath(*fam))
            except (ValueError, IndexError):
                out.append((typ, 'truncated'))
        if typ == 15:
            try:
                if len(val) < 3:
                    raise ValueError
                fam = (int.from_bytes(val[0:2], 'big'), val[2])
                if fam not in families:
                    out.append((typ, 'family not negotiated'))
                    continue
                prefixes(val[3:], addpath(*fam))
            except (ValueError, IndexError):
                out.append((typ, 'truncated'))
    # RFC 7606 section 3.d: routes announced (NLRI field or MP_REACH_NLRI) without a well-known mandatory attribute:
    # treat-as-withdraw.  ORIGIN and AS_PATH always; NEXT_HOP when the NLRI field is used.
    nlri_field = body[4 + wl + al :]
    if nlri_field or 14 in seen:
        for typ in (1, 2) + ((3,) if nlri_field else ()):
            if typ not in seen:
                out.append((typ, 'mandatory attribute missing'))
    return out
