"""RFC 4271 4.2 / RFC 5492 / RFC 9072 reference OPEN decoder (executable spec)"""
import struct


def decode_open(body: bytes):
    """-> dict(version, asn2, hold, router_id, caps=[(code, value bytes)])"""
    version, asn2, hold = body[0], int.from_bytes(body[1:3], 'big'), int.from_bytes(body[3:5], 'big')
    rid = bytes(body[5:9])
    optlen = body[9]
    params = body[10:]
    extended = False
    if optlen == 255 and len(params) >= 3 and params[0] == 255:
        # RFC 9072: non-ext length 255, type 255, then 2-byte extended length; parameters have 2-byte lengths
        optlen = int.from_bytes(params[1:3], 'big')
        params = params[3:]
        extended = True
    if len(params) != optlen:
        raise ValueError('optional parameter length mismatch')
    caps = []
    i = 0
    while i < len(params):
        ptype = params[i]
        if extended:
            plen = int.from_bytes(params[i + 1 : i + 3], 'big')
            i += 3
        else:
            plen = params[i + 1]
            i += 2
        pval = params[i : i + plen]
        if len(pval) != plen:
            raise ValueError('truncated parameter')
        i += plen
        if ptype != 2:
            continue
        j = 0
        while j < len(pval):
            code, ln = pval[j], pval[j + 1]
            val = pval[j + 2 : j + 2 + ln]
            if len(val) != ln:
                raise ValueError('truncated capability')
            caps.append((code, bytes(val)))
            j += 2 + ln
    return {'version': version, 'asn2': asn2, 'hold': hold, 'router_id': rid, 'caps': caps}


def cap_summary(caps):
    """capability list -> the dict spec.negotiate.negotiate consumes (asn filled by the caller)"""
    out = {'families': [], 'asn4': False, 'asn4_value': None, 'refresh': False, 'enhanced_refresh': False, 'extended': False, 'addpath': {}}
    for code, val in caps:
        if code == 1:
            out['families'].append((int.from_bytes(val[0:2], 'big'), val[3]))
        elif code == 2:
            out['refresh'] = True
        elif code == 70:
            out['enhanced_refresh'] = True
        elif code == 65:
            out['asn4'] = True
            out['asn4_value'] = int.from_bytes(val, 'big')
        elif code == 6:
            out['extended'] = True
        elif code == 69:
            for k in range(0, len(val), 4):
                out['addpath'][(int.from_bytes(val[k : k + 2], 'big'), val[k + 2])] = val[k + 3]
    return out
