"""RFC 4271 §4.1 / §6.1 framing reference (executable spec, used by replay and the bounded layer)"""

MARKER = b'\xff' * 16
MIN_LEN = {1: 29, 2: 23, 3: 21}
EXACT_LEN = {4: 19, 5: 23}
KNOWN_TYPES = (1, 2, 3, 4, 5, 6)


def frame_one(stream: bytes, msg_size: int):
    """-> (consumed, length, type, header, body, error) for the first message of `stream`
    error is None or (code, subcode); on error only the 19 header bytes are consumed"""
    header = stream[:19]
    if header[:16] != MARKER:
        return 19, 0, 0, header, b'', (1, 1)
    length = header[16] * 256 + header[17]
    typ = header[18]
    bad = length < 19 or length > msg_size
    if not bad:
        if typ in MIN_LEN:
            bad = length < MIN_LEN[typ]
        elif typ in EXACT_LEN:
            bad = length != EXACT_LEN[typ]
    if bad:
        return 19, length, 0, header, b'', (1, 2)
    return length, length, typ, header, stream[19:length], None


def frames(stream: bytes, msg_size: int):
    """successive messages of a stream until the first error or exhaustion"""
    out = []
    pos = 0
    while len(stream) - pos >= 19:
        c, l, t, h, b, e = frame_one(stream[pos:], msg_size)
        if e is None and len(stream) - pos < l:
            break
        out.append((l, t, h, b, e))
        pos += c
        if e is not None:
            break
    return out, pos
