"""reference hysteresis automaton for the healthcheck helper, written from the property statement:
UP only after `rise` consecutive successes, DOWN only after `fall` consecutive failures, nothing changes on a single
contrary result when rise, fall > 1; the disable file forces DISABLED."""


def announced_states(history, rise, fall, disabled=None):
    """history: list of bool check results; disabled: list of bool (disable file present at that round) or None
    -> list of the state announced after each round: 'UP' | 'DOWN' | 'DISABLED' | None (nothing new to say)"""
    out = []
    ok = ko = 0
    current = None  # what the peer has been told last
    for i, res in enumerate(history):
        dis = bool(disabled and disabled[i])
        if dis:
            ok = ko = 0
            current = 'DISABLED'
            out.append('DISABLED')
            continue
        if current == 'DISABLED':
            # leaving DISABLED restarts the automaton: this round only re-initialises
            current = None
            out.append(None)
            continue
        if res:
            ok, ko = ok + 1, 0
        else:
            ok, ko = 0, ko + 1
        if ok >= rise:
            current = 'UP'
        elif ko >= fall:
            current = 'DOWN'
        out.append(current if (ok >= rise or ko >= fall or (current in ('UP', 'DOWN') and ((current == 'UP' and ko == 0) or (current == 'DOWN' and ok == 0)))) else None)
    return out
