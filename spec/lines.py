"""reference for the API command framing (executable spec): the commands carried by a byte stream are its complete
lines, in order; what follows the last newline is kept for later.  Independent of how the stream is chunked."""


def complete_lines(stream: str):
    """-> (list of complete lines without their newline, remainder after the last newline)"""
    parts = stream.split('\n')
    return parts[:-1], parts[-1]


def selector_matches(terms, peer_name: str) -> bool:
    """reference for 'a selector matches a neighbor iff EVERY term matches': the peer name is a list of
    `key value` pairs (neighbor <ip> local-ip <ip> local-as <n> peer-as <n> router-id <id> family-allowed <f>);
    a term `key value` matches iff that exact pair is present; `neighbor *` / `peer *` matches any address"""
    words = peer_name.split()
    pairs = {(words[i], words[i + 1]) for i in range(0, len(words) - 1, 2)}
    for t in terms:
        t = t.strip()
        if t in ('neighbor *', 'peer *'):
            continue
        k, _, v = t.partition(' ')
        if (k, v) not in pairs:
            return False
    return True
