"""RFC reference negotiation: the session parameters as a function of the two capability sets
(RFC 4271 4.2 hold time, RFC 4760 families, RFC 6793 ASN4, RFC 7911 ADD-PATH, RFC 8654 extended message,
RFC 2918/7313 refresh)."""


def negotiate(ours: dict, theirs: dict) -> dict:
    """each side: {'asn': true AS number, 'hold': int, 'families': [(afi,safi)], 'asn4': bool, 'refresh': bool,
    'enhanced_refresh': bool, 'extended': bool, 'addpath': {(afi,safi): mode 1 receive 2 send 3 both}}"""
    both = lambda k: bool(ours.get(k)) and bool(theirs.get(k))  # noqa: E731
    fams = [f for f in theirs['families'] if f in ours['families']]
    if not theirs['families']:
        # no Multiprotocol capability: a plain BGP-4 session carries IPv4 unicast (RFC 4271; RFC 4760 section 8 makes
        # the capability the way to agree on anything ELSE)
        fams = [(1, 1)] if (1, 1) in ours['families'] else []
    send, recv = {}, {}
    for f in set(ours.get('addpath', {})) | set(theirs.get('addpath', {})):
        o = ours.get('addpath', {}).get(f, 0)
        t = theirs.get('addpath', {}).get(f, 0)
        if t not in (1, 2, 3):
            t = 0  # RFC 7911 section 4: any other Send/Receive value is not understood and ignored
        send[f] = bool(o & 2) and bool(t & 1)
        recv[f] = bool(o & 1) and bool(t & 2)
    return {
        'holdtime': min(ours['hold'], theirs['hold']),
        'families': fams,
        'asn4': both('asn4'),
        'local_as': ours['asn'],
        'peer_as': theirs['asn'] if (both('asn4') or theirs['asn'] < 65536) else 23456,
        'msg_size': 65535 if both('extended') else 4096,
        'refresh': 'enhanced' if both('enhanced_refresh') else 'normal' if both('refresh') else 'absent',
        'addpath_send': {f for f, v in send.items() if v},
        'addpath_receive': {f for f, v in recv.items() if v},
    }
