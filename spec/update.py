"""RFC 4271 / 4760 / 7911 reference UPDATE decoder (executable spec: replay oracle and bounded layer).
Written from the RFC text, independent of the repository's decoders."""


def prefixes(data: bytes, addpath: bool = False, labels: bool = False, rd: bool = False, withdraw: bool = False):
    """RFC 4271 4.3 <length, prefix> list; RFC 7911 path id; RFC 8277 labels; RFC 4364 RD -> list of tuples"""
    out = []
    i = 0
    n = len(data)
    while i < n:
        pid = None
        if addpath:
            if i + 4 > n:
                raise ValueError('truncated path id')
            pid = int.from_bytes(data[i : i + 4], 'big')
            i += 4
        bits = data[i]
        i += 1
        nbytes = (bits + 7) // 8
        if i + nbytes > n:
            raise ValueError('truncated prefix')
        body = data[i : i + nbytes]
        i += nbytes
        lab = []
        rdv = None
        if labels:
            while True:
                if len(body) < 3:
                    raise ValueError('truncated label')
                l = int.from_bytes(body[:3], 'big')
                body = body[3:]
                bits -= 24
                lab.append(l >> 4)
                # RFC 8277 2.4: in a withdrawal the label field may be 0x800000 or 0x000000 (no stack follows);
                # in an announcement only the bottom-of-stack bit ends the stack (label 0 is a real label)
                if l & 1 or (withdraw and (l == 0x800000 or l == 0)):
                    break
        if rd:
            rdv = bytes(body[:8])
            body = body[8:]
            bits -= 64
        if bits % 8 and body:
            # RFC 4271 4.3: "the value of trailing bits is irrelevant": the prefix is its first `bits` bits
            body = bytes(body[:-1]) + bytes([body[-1] & (0xFF00 >> (bits % 8)) & 0xFF])
        out.append((pid, tuple(lab), rdv, bits, bytes(body)))
    return out


def tlvs(data: bytes):
    """path attributes -> list of (flags, type, value)"""
    out = []
    i = 0
    n = len(data)
    while i < n:
        if i + 3 > n:
            raise ValueError('truncated attribute header')
        flags, typ = data[i], data[i + 1]
        if flags & 0x10:
            if i + 4 > n:
                raise ValueError('truncated extended length')
            ln = int.from_bytes(data[i + 2 : i + 4], 'big')
            i += 4
        else:
            ln = data[i + 2]
            i += 3
        if i + ln > n:
            raise ValueError('attribute overruns the block')
        out.append((flags, typ, bytes(data[i : i + ln])))
        i += ln
    return out


def decode_update(msg: bytes, addpath=lambda afi, safi: False):
    """full message (with 19-byte header) -> dict"""
    assert msg[:16] == b'\xff' * 16, 'marker'
    assert int.from_bytes(msg[16:18], 'big') == len(msg), 'length field'
    assert msg[18] == 2, 'type'
    body = msg[19:]
    wl = int.from_bytes(body[0:2], 'big')
    assert 2 + wl + 2 <= len(body), 'withdrawn length overruns'
    wd = body[2 : 2 + wl]
    al = int.from_bytes(body[2 + wl : 4 + wl], 'big')
    assert 4 + wl + al <= len(body), 'attribute length overruns'
    at = body[4 + wl : 4 + wl + al]
    nl = body[4 + wl + al :]
    res = {'withdrawn': prefixes(wd, addpath(1, 1)), 'nlri': prefixes(nl, addpath(1, 1)), 'attributes': tlvs(at), 'mp_reach': [], 'mp_unreach': []}
    for flags, typ, val in res['attributes']:
        if typ == 14:
            afi = int.from_bytes(val[0:2], 'big')
            safi = val[2]
            nhl = val[3]
            nh = val[4 : 4 + nhl]
            # RFC 4760 section 3: the Reserved octet "MUST be set to 0, and SHOULD be ignored upon receipt" (this line used to
            # assert that it is zero, as the code did)
            lab = safi in (4, 128)
            rest = val[5 + nhl :]
            # other NLRI formats (flow, vpls, evpn, ...) are not <length, prefix> lists: kept as one raw entry
            entries = prefixes(rest, addpath(afi, safi), lab, safi == 128) if safi in (1, 2, 4, 128) else [(None, (), None, None, bytes(rest))]
            res['mp_reach'].append((afi, safi, bytes(nh), entries))
        elif typ == 15:
            afi = int.from_bytes(val[0:2], 'big')
            safi = val[2]
            lab = safi in (4, 128)
            entries = prefixes(val[3:], addpath(afi, safi), lab, safi == 128, True) if safi in (1, 2, 4, 128) else [(None, (), None, None, bytes(val[3:]))]
            res['mp_unreach'].append((afi, safi, entries))
    return res
