"""RFC reference ENCODERS for building well-formed test messages (independent of the repository's encoders)."""
import socket
import struct


def attr(flags: int, typ: int, value: bytes, force_ext: bool = False) -> bytes:
    if len(value) > 255 or force_ext:
        return bytes([flags | 0x10, typ]) + struct.pack('!H', len(value)) + value
    return bytes([flags & ~0x10, typ, len(value)]) + value


def origin(v=0):
    return attr(0x40, 1, bytes([v]))


def as_path(asns, asn4=False, seg_type=2):
    if not asns:
        return attr(0x40, 2, b'')
    fmt = '!L' if asn4 else '!H'
    return attr(0x40, 2, bytes([seg_type, len(asns)]) + b''.join(struct.pack(fmt, a) for a in asns))


def as4_path(asns, seg_type=2):
    return attr(0xC0, 17, bytes([seg_type, len(asns)]) + b''.join(struct.pack('!L', a) for a in asns))


def next_hop(ip='192.0.2.1'):
    return attr(0x40, 3, socket.inet_aton(ip))


def med(v):
    return attr(0x80, 4, struct.pack('!L', v))


def local_pref(v):
    return attr(0x40, 5, struct.pack('!L', v))


def atomic_aggregate():
    return attr(0x40, 6, b'')


def aggregator(asn, ip='192.0.2.9', asn4=False):
    return attr(0xC0, 7, struct.pack('!L' if asn4 else '!H', asn) + socket.inet_aton(ip))


def communities(pairs):
    return attr(0xC0, 8, b''.join(struct.pack('!HH', a, b) for a, b in pairs))


def originator_id(ip='192.0.2.7'):
    return attr(0x80, 9, socket.inet_aton(ip))


def cluster_list(ips):
    return attr(0x80, 10, b''.join(socket.inet_aton(i) for i in ips))


def ext_communities(items):
    return attr(0xC0, 16, b''.join(items))


def large_communities(triples):
    return attr(0xC0, 32, b''.join(struct.pack('!LLL', *t) for t in triples))


def unknown(typ, value, transitive=True, optional=True):
    return attr((0x80 if optional else 0) | (0x40 if transitive else 0), typ, value)


def prefix4(ip, bits, path_id=None):
    b = socket.inet_aton(ip)[: (bits + 7) // 8]
    return (struct.pack('!L', path_id) if path_id is not None else b'') + bytes([bits]) + b


def prefix6(ip, bits, path_id=None):
    b = socket.inet_pton(socket.AF_INET6, ip)[: (bits + 7) // 8]
    return (struct.pack('!L', path_id) if path_id is not None else b'') + bytes([bits]) + b


def mp_reach(afi, safi, nh: bytes, nlri: bytes, reserved: int = 0):
    return attr(0x80, 14, struct.pack('!HB', afi, safi) + bytes([len(nh)]) + nh + bytes([reserved]) + nlri)


def mp_unreach(afi, safi, nlri: bytes):
    return attr(0x80, 15, struct.pack('!HB', afi, safi) + nlri)


def update_body(withdrawn: bytes, attributes: bytes, nlri: bytes) -> bytes:
    return struct.pack('!H', len(withdrawn)) + withdrawn + struct.pack('!H', len(attributes)) + attributes + nlri


def message(typ: int, body: bytes) -> bytes:
    return b'\xff' * 16 + struct.pack('!H', 19 + len(body)) + bytes([typ]) + body
