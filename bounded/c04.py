"""bounded stand-in for C04: every operation sequence up to a bound over 2 prefixes x 2 attribute sets with flush /
partial-consumption points; after the queue drains the peer table equals the reported Adj-RIB-Out"""
import itertools
import random

from .registry import bounded, replayer, region, harness_canary
from .ribharness import Session, route, reported

P = ['10.0.1.0/24', '10.0.2.0/24']
OPS = [('ann', 0, 10), ('ann', 0, 20), ('ann', 1, 10), ('wd', 0, None), ('wd', 0, 20), ('wd', 1, None), ('flush',), ('part', 1), ('clear',), ('resend',)]
# watchdog operations (a second, smaller alphabet explored on its own: the route of prefix 1 belongs to watchdog "w")
WOPS = [('wadd', 1, 10, False), ('wadd', 1, 10, True), ('wup',), ('wdown',), ('ann', 0, 10), ('wd', 1, None), ('flush',), ('part', 1)]


def apply(s, op):
    if op[0] == 'ann':
        s.rib.add_to_rib(route(P[op[1]], op[2]))
    elif op[0] == 'wd':
        s.rib.del_from_rib(route(P[op[1]], op[2]))
    elif op[0] == 'flush':
        s.drain()
    elif op[0] == 'part':
        s.send(op[1])
    elif op[0] == 'clear':
        s.rib.withdraw()
    elif op[0] == 'resend':
        s.rib.resend(False)
    elif op[0] == 'wadd':
        s.rib.add_to_rib_watchdog(route(P[op[1]], op[2], extra='watchdog w' + (' withdraw' if op[3] else '')))
    elif op[0] == 'wup':
        s.rib.announce_watchdog('w')
    elif op[0] == 'wdown':
        s.rib.withdraw_watchdog('w')


def run_sequence(seq):
    s = Session(families=((1, 1),))
    try:
        for op in seq:
            apply(s, op)
        s.drain()
    except Exception as e:  # noqa
        return {'what': f'RIB operation raised {type(e).__name__}: {str(e)[:200]}', 'input': {'ops': [list(o) for o in seq]}}
    want, got = reported(s.rib), s.peer.table
    if want != got:
        return {'what': 'after the queue drained the peer table differs from the reported Adj-RIB-Out', 'input': {'ops': [list(o) for o in seq]}, 'reported': str(sorted(want.items())), 'peer': str(sorted(got.items())), 'log': [str(x) for x in s.peer.log][-12:]}
    # and both equal the INTENDED table (fold of the operations, last write wins): a defect that corrupts the report
    # and the wire together would otherwise go unnoticed
    import socket

    model = {}
    dog = {}  # prefix -> [med, 'up' | 'down']: the routes watchdog "w" holds
    for op in seq:
        if op[0] == 'ann':
            model[op[1]] = op[2]
        elif op[0] == 'wd':
            model.pop(op[1], None)
        elif op[0] == 'clear':
            model = {}
        elif op[0] == 'wadd':
            dog[op[1]] = [op[2], 'down' if op[3] else 'up']
            if not op[3]:
                model[op[1]] = op[2]
        elif op[0] == 'wup':
            for k, v in dog.items():
                if v[1] == 'down':
                    v[1] = 'up'
                    model[k] = v[0]
        elif op[0] == 'wdown':
            for k, v in dog.items():
                if v[1] == 'up':
                    v[1] = 'down'
                    model.pop(k, None)
    intended = {(1, 24, socket.inet_aton(P[k].split('/')[0])[:3]): ('192.0.2.1', med) for k, med in model.items()}
    if got != intended:
        return {'what': 'after the queue drained the peer does not hold the intended table (announces not since withdrawn, last attributes)', 'input': {'ops': [list(o) for o in seq]}, 'intended': str(sorted(intended.items())), 'peer': str(sorted(got.items())), 'reported': str(sorted(want.items()))}
    return None


@bounded('C04', 'operation-sequences')
def operation_sequences(tier, seed):
    rnd = random.Random(seed)
    fails, evals, distinct, samples = [], 0, set(), []
    depth = 3 if tier == 'quick' else 4
    for n in range(1, depth + 1):
        for seq in itertools.product(OPS, repeat=n):
            evals += 1
            distinct.add(seq)
            f = run_sequence(seq)
            if f:
                fails.append(f)
    # the watchdog alphabet
    wdepth = 4 if tier == 'quick' else 5
    for n in range(1, wdepth + 1):
        for seq in itertools.product(WOPS, repeat=n):
            if not any(o[0] in ('wadd', 'wup', 'wdown') for o in seq):
                continue
            if sum(1 for o in seq if o[0] == 'wadd') > 1:
                continue  # a route is put under a watchdog once (configuration); re-adding it in another state has no defined meaning
            # from an empty peer, and from a peer which already holds an older announcement of the watchdog's prefix
            for init in ((), (('ann', 1, 20), ('flush',))):
                evals += 1
                distinct.add(init + seq)
                f = run_sequence(init + seq)
                if f:
                    fails.append(f)
    extra = 600 if tier == 'quick' else 6000
    for _ in range(extra):
        seq = tuple(rnd.choice(OPS) for _ in range(rnd.randint(depth + 1, depth + 3)))
        if seq in distinct:
            continue
        evals += 1
        distinct.add(seq)
        f = run_sequence(seq)
        if f:
            fails.append(f)
    samples = [{'ops': [list(o) for o in s_]} for s_ in list(distinct)[:3]]
    # keep the shortest failures first: they are the readable ones
    fails.sort(key=lambda f: len(f['input']['ops']))
    return {'evaluations': evals, 'distinct_nontrivial': len(distinct), 'exhaustive': True, 'bound': f'all sequences of length <= {depth} over 10 operations (announce x/y of 2 prefixes, withdraw with/without attributes, flush, consume-one-update, clear adj-rib-out, resend) + {extra} sampled longer ones; and all sequences of length <= {wdepth} over 8 watchdog operations (route added to watchdog w announced / withdrawn, announce watchdog, withdraw watchdog, plain announce / withdraw, flush, consume-one)', 'rule': 'one case = one operation sequence; distinct by value', 'samples': samples, 'failures': fails}


@replayer('C04', 'operation-sequences')
def _replay(f):
    return run_sequence([tuple(o) for o in f['input']['ops']]) is None


@region('C04-stale-attribute-bucket')
def stale_bucket_region(failure):
    """the recorded defect (DESIGN §8 row 12), by its root cause OBSERVED ON THE REAL OBJECT: the sequence is replayed on a
    fresh OutgoingRIB and, at every announce, the queue is inspected: the defect is in play iff the prefix is still
    queued (in _new_nlri, not yet snapshotted by an updates() generator) under an attribute set DIFFERENT from the one
    now being announced.  _update_rib then leaves the route in the bucket of the earlier set; buckets are emitted in
    first-insertion order, after the withdraws, and what the peer ends up with depends on what follows.
    (The first version of this predicate modelled "flush windows" from the operation names and took every `part` for
    the start of a new window; a `part` which only exhausts an earlier generator starts none -- a thorough-tier
    sequence showed the model wrong.  The condition is now read from the real queue, not modelled.)
    Every sequence in which no announce meets a queued entry of the same prefix with other attributes stays fully checked."""
    ops = failure.get('input', {}).get('ops')
    if not ops:
        return False
    s = Session(families=((1, 1),))
    try:
        for op in ops:
            op = tuple(op)
            if op[0] == 'ann':
                r = route(P[op[1]], op[2])
                queued = s.rib._new_nlri.get(r.index())
                if queued is not None and queued.attributes.index() != r.attributes.index():
                    return True
            apply(s, op)
    except Exception:  # noqa
        return False
    return False



# ------------------------------------------------------------------------------------------------ harness canaries


def _patched(obj, name, replacement, seq):
    real = getattr(obj, name)
    setattr(obj, name, replacement)
    try:
        return run_sequence(seq) is not None
    finally:
        setattr(obj, name, real)


@harness_canary('C04', 'withdraw does not reach the wire')
def _hc_lost_withdraw():
    from exabgp.rib.outgoing import OutgoingRIB

    real = OutgoingRIB._del_from_rib_impl

    def drop(self, nlri, attrs, route_index):
        self.update_cache_withdraw(nlri)  # the report forgets the route, nothing is queued for the peer

    seq = (('ann', 0, 10), ('flush',), ('wd', 0, None))
    return run_sequence(seq) is None and _patched(OutgoingRIB, '_del_from_rib_impl', drop, seq)


@harness_canary('C04', 'withdrawn route stays in the report and on the wire')
def _hc_consistent_corruption():
    from exabgp.rib.outgoing import OutgoingRIB

    seq = (('ann', 0, 10), ('flush',), ('wd', 0, None))
    return _patched(OutgoingRIB, '_del_from_rib_impl', lambda self, nlri, attrs, route_index: None, seq)


# ---------------------------------------------------------------------------------------------------------------------
# the peer side of "what the peer holds is the reported Adj-RIB-Out" also depends on the send loop of Peer._main, which
# decides WHEN withdraws may go out: the statements of that loop (extracted and executed unmodified by the C11 harness),
# a session in sync, then operations -- for both slice sizes of the loop
@bounded('C04', 'operations-after-first-window')
def operations_after_first_window(tier, seed):
    from . import c11

    work = []
    for after in ((('wd', 0, None),), (('ann', 1, 10), ('wd', 1, None)), (('ann', 2, 5),), (('wd', 0, None), ('ann', 0, 30)), (('ann', 0, 30), ('wd', 0, None))):
        for before in ((), (('ann', 1, 10),), (('ann', 1, 10), ('ann', 2, 5))):
            for per in (25, 1):
                work.append((before, len(before), (), per, after))
    fails = []
    for w in work:
        f = c11.one_case(*w)
        if f:
            fails.append(f)
    return {'evaluations': len(work), 'distinct_nontrivial': len(work), 'bound': f'{len(work)} histories: 0-2 API routes, a (re-)established session brought in sync by the real send statements of Peer._main, then 1-2 operations (withdraw of a configured / API route, announce, change), for 25 and 1 routes per loop iteration: the peer table equals the intended and the reported table', 'rule': 'one case = (history, operations after sync, slice size)', 'samples': [{'after_resync': [['wd', 0, None]], 'routes_per_iteration': 1}], 'failures': fails}


from .registry import replayer as _replayer  # noqa: E402


@_replayer('C04', 'operations-after-first-window')
def _replay_after(f):
    from . import c11

    i = f['input']
    return c11.one_case([tuple(o) for o in i['before']], i['cut_after_messages'], [tuple(o) for o in i['while_down']], i.get('routes_per_iteration', 25), [tuple(o) for o in i.get('after_resync', [])]) is None


# ---------------------------------------------------------------------------------------------------------------------
# labelled routes: the label stack is not part of the route's index, so "the same prefix announced again" is decided
# elsewhere (the duplicate test of the cache): a later announce with ANOTHER label must reach the wire, the same one
# need not; the peer's labels are compared with the labels ExaBGP reports
def _label_session():
    from . import harness as H
    from exabgp.protocol.family import AFI, SAFI
    from exabgp.rib.outgoing import OutgoingRIB

    nb = H.neighbor(local_as=65000, peer_as=65000, families='ipv4 unicast; ipv4 nlri-mpls; ipv4 mpls-vpn;')
    fams = ((1, 1), (1, 4), (1, 128))
    neg, _, _ = H.negotiated(nb, H.peer_open_bytes(65000, 180, '9.9.9.9', H.std_caps(65000, families=fams)))
    return OutgoingRIB(True, {(AFI.from_int(a), SAFI.from_int(s)) for a, s in fams}), neg


LOPS = [('ann', 'label 100'), ('ann', 'label 200'), ('ann', 'label [ 100 300 ]'), ('ann', 'label 100 rd 65000:1'), ('ann', 'label 200 rd 65000:1'), ('wd', 'label 100'), ('wd', 'label 100 rd 65000:1'), ('flush',)]


def label_case(seq):
    from spec.update import decode_update

    rib, neg = _label_session()
    table, inp = {}, {'ops': [list(o) for o in seq]}

    def flush():
        for u in rib.updates(True):
            if not hasattr(u, 'messages'):
                continue
            for m in u.messages(neg, True):
                d = decode_update(bytes(m))
                for afi, safi, pfx in d['mp_unreach']:
                    for pid, lab, rd, bits, body in pfx:
                        table.pop((safi, rd, bits, body), None)
                for afi, safi, nh, pfx in d['mp_reach']:
                    for pid, lab, rd, bits, body in pfx:
                        table[(safi, rd, bits, body)] = tuple(lab)

    try:
        for op in seq:
            if op[0] == 'flush':
                flush()
            elif op[0] == 'ann':
                rib.add_to_rib(route('10.0.1.0/24', 10, extra=op[1]))
            else:
                rib.del_from_rib(route('10.0.1.0/24', 10, extra=op[1]))
        flush()
    except Exception as e:  # noqa
        return {'what': f'RIB operation raised {type(e).__name__}: {str(e)[:200]}', 'input': inp}
    want = {}
    for r in rib.cached_routes():
        n = r.nlri
        rd = bytes(n.rd.pack_rd()) if int(n.safi) == 128 else None
        want[(int(n.safi), rd, n.cidr.mask, bytes(n.cidr.pack_ip())[:3])] = tuple(int(x) for x in n.labels.labels)
    if want != table:
        return {'what': 'labelled routes: after the queue drained the labels the peer holds differ from the labels of the reported Adj-RIB-Out', 'input': inp, 'reported': str(sorted(want.items(), key=str)), 'peer': str(sorted(table.items(), key=str))}
    # and the intended table: last announce not since withdrawn, per (family, rd)
    model = {}
    for op in seq:
        if op[0] == 'flush':
            continue
        key = 128 if ' rd ' in op[1] else 4
        if op[0] == 'ann':
            model[key] = tuple(int(x) for x in op[1].replace('label', '').split(' rd ')[0].replace('[', '').replace(']', '').split())
        else:
            model.pop(key, None)
    got = {k[0]: v for k, v in table.items()}
    if got != model:
        return {'what': 'labelled routes: the peer does not hold the intended labels (last announce not since withdrawn)', 'input': inp, 'intended': str(model), 'peer': str(got)}
    return None


@bounded('C04', 'label-changes')
def label_changes(tier, seed):
    depth = 3 if tier == 'quick' else 4
    fails, evals = [], 0
    for n in range(1, depth + 1):
        for seq in itertools.product(LOPS, repeat=n):
            evals += 1
            f = label_case(seq)
            if f:
                fails.append(f)
    fails.sort(key=lambda f: len(str(f['input'])))
    return {'evaluations': evals, 'distinct_nontrivial': evals, 'exhaustive': True, 'bound': f'every sequence of length 1..{depth} over {len(LOPS)} operations on one prefix (labelled unicast and mpls-vpn: announce with label 100 / 200 / a stack of two, withdraw, flush) on a session negotiating both families; the labels decoded from the wire by the reference decoder', 'rule': 'one case = one operation sequence', 'samples': [{'ops': [['ann', 'label 100'], ['flush'], ['ann', 'label 200']]}], 'failures': fails[:20]}


@_replayer('C04', 'label-changes')
def _replay_labels(f):
    return label_case([tuple(o) for o in f['input']['ops']]) is None
