"""bounded stand-in for C14 (chunking clause): the REAL Processes._async_reader_callback over a real os.pipe(), every
chunking of short command streams; the commands queued must be the complete lines of the stream, in order, whatever
the chunking, and the same as with the stream delivered in one piece"""
import itertools
import os
import random
from collections import deque

from .registry import bounded, replayer, harness_canary


class _Proc:
    def __init__(self, rfd):
        self.stdout = os.fdopen(rfd, 'rb', buffering=0)

    def poll(self):
        return None


def feed(stream: bytes, chunks):
    """deliver `stream` to the real reader callback in the given chunk sizes -> (queued commands, buffer left)"""
    from exabgp.reactor.api.processes import Processes

    rfd, wfd = os.pipe()
    os.set_blocking(rfd, False)
    pr = Processes.__new__(Processes)
    proc = _Proc(rfd)
    pr._process = {'p': proc}
    pr._buffer = {}
    pr._command_queue = deque()
    pr._async_mode = False
    pr._loop = None
    pr._get_stdout = lambda name: proc.stdout
    problems = []
    pr._handle_problem = lambda name: problems.append(name)
    try:
        pos, k = 0, 0
        while pos < len(stream):
            n = chunks[k % len(chunks)]
            k += 1
            os.write(wfd, stream[pos : pos + n])
            pos += n
            pr._async_reader_callback('p')
    finally:
        os.close(wfd)
        proc.stdout.close()
    return [c for _, c in pr._command_queue], pr._buffer.get('p', ''), problems


def expected(stream: bytes):
    from spec.lines import complete_lines
    from exabgp.reactor.api.processes import formated

    lines, rest = complete_lines(stream.decode('ascii'))
    cmds = [formated(l.rstrip()) for l in lines if not l.rstrip().startswith('debug ')]
    return cmds, rest


def one_case(stream: bytes, chunks):
    inp = {'stream': stream.decode('ascii'), 'chunks': list(chunks)[:12]}
    try:
        got, rest, problems = feed(stream, chunks)
    except Exception as e:  # noqa
        return {'what': f'reader callback raised {type(e).__name__}: {str(e)[:160]}', 'input': inp}
    want, want_rest = expected(stream)
    if problems:
        return {'what': 'the reader declared the process broken on a well-formed command stream', 'input': inp}
    if got != want:
        return {'what': 'the commands queued are not the complete lines of the stream in order', 'input': inp, 'expected': want, 'observed': got}
    if rest != want_rest:
        return {'what': 'the text kept for the next read is not what follows the last newline', 'input': inp, 'expected': want_rest, 'observed': rest}
    return None


STREAMS = [
    b'announce route 10.0.0.0/24 next-hop 1.1.1.1\nwithdraw route 10.0.0.0/24\n',
    b'a\nb\nc\n',
    b'announce route 10.1.0.0/24 next-hop self\nneighbor 10.0.0.2 announce route 10.2.0.0/24 next-hop self\npartial',
    b'\n\nx\n',
    b'debug hello\nshow neighbor\n  spaced  \n',
    b'one two\r\nthree\n',
]


def all_chunkings(n, limit):
    """every composition of n into parts (2^(n-1) of them) when small, else a sample"""
    if n <= limit:
        for mask in range(1 << (n - 1)):
            parts, run = [], 1
            for i in range(n - 1):
                if mask >> i & 1:
                    parts.append(run)
                    run = 1
                else:
                    run += 1
            parts.append(run)
            yield parts


@bounded('C14', 'pipe-chunkings')
def pipe_chunkings(tier, seed):
    rnd = random.Random(seed)
    fails, evals, distinct, samples = [], 0, set(), []
    short = 11 if tier == 'quick' else 15
    for stream in STREAMS:
        cuts = [[len(stream)], [1], [2], [3, 1], [7], [16384]]
        # cuts right at / around each newline: the read that ends exactly on a line's newline, then more
        for i, ch in enumerate(stream):
            if ch == 10:
                for a in (i, i + 1, i + 2):
                    if 0 < a < len(stream):
                        cuts.append([a, len(stream)])
                        for b in range(1, min(6, a)):
                            cuts.append([b, a - b, 1, len(stream)])
        for _ in range(20 if tier == 'quick' else 300):
            cuts.append([rnd.randint(1, 9) for _ in range(12)])
        for chunks in cuts:
            evals += 1
            distinct.add((stream, tuple(chunks)))
            f = one_case(stream, chunks)
            if f:
                fails.append(f)
    # exhaustive: EVERY chunking of a short stream
    small = b'ab\ncd\ne\n\nfg'[:short]
    for parts in all_chunkings(len(small), short):
        evals += 1
        distinct.add((small, tuple(parts)))
        f = one_case(small, parts)
        if f:
            fails.append(f)
    samples = [{'stream': STREAMS[2].decode()[:60], 'chunks': [5, 38, 1, 200]}, {'stream': small.decode(), 'chunks': [1]}]
    fails.sort(key=lambda f: (len(f['input']['stream']), len(f['input']['chunks'])))
    return {'evaluations': evals, 'distinct_nontrivial': len(distinct), 'bound': f'6 command streams x cuts at and around every newline x sampled chunkings, plus EVERY chunking (2^{short - 1}) of an {short}-byte stream with empty lines and a partial tail', 'rule': 'one case = (stream, chunk sizes); distinct by value', 'samples': samples, 'failures': fails}


@replayer('C14', 'pipe-chunkings')
def _replay(f):
    return one_case(f['input']['stream'].encode('ascii'), f['input']['chunks']) is None


@harness_canary('C14', 'stale partial line kept when a read ends on a newline')
def _hc_stale():
    import exabgp.reactor.api.processes as m

    real = m.Processes._async_reader_callback
    ok_before = one_case(STREAMS[0], [10, 34, 5]) is None

    def broken(self, name):
        before = dict(self._buffer)
        real(self, name)
        if self._buffer.get(name, None) == '' and before.get(name):
            self._buffer[name] = before[name]  # forget to clear the buffer when nothing is left over

    m.Processes._async_reader_callback = broken
    try:
        caught = any(one_case(STREAMS[0], [a, len(STREAMS[0])]) is not None or one_case(STREAMS[0], [3, a - 3, 50]) is not None for a in (44,))
    finally:
        m.Processes._async_reader_callback = real
    return ok_before and caught


# ------------------------------------------------------------------------------------------------ refused streams


def feed_until_refused(stream: bytes, chunks, cap=None):
    """as feed(), for streams the reader may refuse (a byte which is not ASCII, a line over MAX_COMMAND_SIZE): stops at the
    first _handle_problem, as the real one terminates the helper -> (queued commands, refused?)"""
    from exabgp.reactor.api.processes import Processes

    rfd, wfd = os.pipe()
    os.set_blocking(rfd, False)
    pr = Processes.__new__(Processes)
    proc = _Proc(rfd)
    pr._process = {'p': proc}
    pr._buffer = {}
    pr._command_queue = deque()
    pr._async_mode = False
    pr._loop = None
    pr._get_stdout = lambda name: proc.stdout
    if cap is not None:
        pr.MAX_COMMAND_SIZE = cap  # the constant of the class is 1 MiB: one case below keeps it
    problems = []
    pr._handle_problem = lambda name: problems.append(name)
    try:
        pos, k = 0, 0
        while pos < len(stream) and not problems:
            n = chunks[k % len(chunks)]
            k += 1
            while n > 0 and pos < len(stream):  # a pipe takes 64 KiB at a time
                m = min(n, 16384)
                os.write(wfd, stream[pos : pos + m])
                pos += m
                n -= m
                pr._async_reader_callback('p')
                if problems:
                    break
    finally:
        os.close(wfd)
        proc.stdout.close()
    return [c for _, c in pr._command_queue], bool(problems)


A, B = b'announce route 10.1.0.0/24 next-hop 1.2.3.4\n', b'withdraw route 10.1.0.0/24\n'
REFUSED = [
    # (stream, cap): a byte which is not ASCII after / between / inside / before commands; a line longer than the cap
    (A + b'\xff\n', None),
    (A + B + b'show \xc3\xa9\n' + A, None),
    (b'\xff\n' + A, None),
    (A + b'partial \x80', None),
    (A + b'#' + b'x' * 70 + b'\n' + B, 64),
    (A + B + b'#' + b'x' * 64 + b'\n', 64),
    (b'#' + b'x' * 65 + b'\n' + A, 64),
    (A + b'#' + b'x' * 63 + b'\n' + B, 64),
    (A + b'#' + b'x' * 64 + b'\n' + B, 64),
]


def refused_case(stream, cap, chunks, want):
    inp = {'stream': stream.decode('latin-1')[:200], 'length': len(stream), 'cap': cap, 'chunks': list(chunks)[:12]}
    try:
        got = feed_until_refused(stream, chunks, cap)
    except Exception as e:  # noqa
        return {'what': f'reader callback raised {type(e).__name__}: {str(e)[:160]}', 'input': inp}
    if got != want:
        return {'what': 'the same bytes delivered in other reads: other commands queued (or the helper refused in one delivery and not in the other)', 'input': inp, 'expected': {'one line per read': want}, 'observed': got}
    return None


def line_by_line(stream):
    out, run = [], 0
    for ch in stream:
        run += 1
        if ch == 10:
            out.append(run)
            run = 0
    return out + [run or 1]


@bounded('C14', 'streams-the-reader-refuses')
def refused_streams(tier, seed):
    """PROPERTY: however the pipe delivers the bytes the same commands are executed.  A stream the reader REFUSES (a byte
    which is not ASCII, a line over MAX_COMMAND_SIZE) is no exception: what was queued before the helper was declared
    broken must not depend on where the reads were cut.  Reference = the delivery one line per read."""
    from exabgp.reactor.api.processes import Processes

    rnd = random.Random(seed)
    fails, evals, distinct = [], 0, set()
    for stream, cap in REFUSED:
        want = feed_until_refused(stream, line_by_line(stream), cap)
        cuts = [[len(stream)], [1], [2], [3, 1], [7], [63], [64], [65], [66]]
        for i, ch in enumerate(stream):
            if ch == 10 or ch >= 128:
                for a in (i, i + 1, i + 2):
                    if 0 < a < len(stream):
                        cuts.append([a, len(stream)])
        for _ in range(20 if tier == 'quick' else 300):
            cuts.append([rnd.randint(1, 40) for _ in range(12)])
        for chunks in cuts:
            evals += 1
            distinct.add((stream, tuple(chunks)))
            f = refused_case(stream, cap, chunks, want)
            if f:
                fails.append(f)
    # the constant of the tree itself: a comment line of MAX_COMMAND_SIZE + 10 octets, the newline in the read which
    # crosses the cap or in a later one
    big = Processes.MAX_COMMAND_SIZE
    stream = A + b'#' + b'x' * (big + 9) + b'\n' + B
    want = feed_until_refused(stream, line_by_line(stream), None)
    for chunks in ([len(stream)], [len(A) + big - 5, 16384], [len(A) + big + 5, 16384], [len(A), big, 16384]):
        evals += 1
        distinct.add((b'big', tuple(chunks)))
        f = refused_case(stream, None, chunks, want)
        if f:
            f['input']['stream'] = 'announce route ...\\n#xxx (MAX_COMMAND_SIZE + 10 octets)\\nwithdraw route ...\\n'
            fails.append(f)
    fails.sort(key=lambda f: (f['input']['length'], len(f['input']['chunks'])))
    return {
        'evaluations': evals,
        'distinct_nontrivial': len(distinct),
        'bound': f'{len(REFUSED)} streams (a non-ASCII byte after, between, inside and before commands; a line of cap / cap+1 / cap+2 / cap+7 octets with the cap set to 64 on the instance) x whole / 1 / 2 / cuts at and around every newline and every non-ASCII byte / sampled chunkings, plus a line of MAX_COMMAND_SIZE + 10 with the real constant in 4 deliveries',
        'rule': 'one case = (stream, chunk sizes); reference = the same stream delivered one line per read',
        'samples': [{'stream': 'announce route 10.1.0.0/24 next-hop 1.2.3.4\\n\\xff\\n', 'chunks': [46]}],
        'failures': fails,
    }


@replayer('C14', 'streams-the-reader-refuses')
def _replay_refused(f):
    i = f['input']
    if i['length'] > 1000:
        from exabgp.reactor.api.processes import Processes

        stream, cap = A + b'#' + b'x' * (Processes.MAX_COMMAND_SIZE + 9) + b'\n' + B, None
    else:
        stream, cap = i['stream'].encode('latin-1'), i['cap']
    return refused_case(stream, cap, i['chunks'], feed_until_refused(stream, line_by_line(stream), cap)) is None


# ------------------------------------------------------------------------------------------------ selectors

PEERS = [
    'neighbor 10.0.0.1 local-ip 10.0.0.9 local-as 65001 peer-as 65002 router-id 1.1.1.1 family-allowed in-open',
    'neighbor 10.0.0.11 local-ip 10.0.0.9 local-as 65001 peer-as 65003 router-id 1.1.1.1 family-allowed in-open',
    'neighbor 2001:db8::1 local-ip 2001:db8::9 local-as 65001 peer-as 65002 router-id 1.1.1.2 family-allowed in-open',
    'neighbor 2001:db8::1:2 local-ip 2001:db8::9 local-as 65001 peer-as 65002 router-id 1.1.1.2 family-allowed in-open',
    'neighbor 10.0.0.2 local-ip 10.0.0.9 local-as 650 peer-as 65002 router-id 1.1.1.10 family-allowed ipv4-unicast/ipv6-unicast',
]
TERMS = ['neighbor *', 'neighbor 10.0.0.1', 'neighbor 2001:db8::1', 'neighbor 10.0.0', 'peer-as 65002', 'peer-as 6500', 'local-as 650', 'router-id 1.1.1.1', 'family-allowed ipv4-unicast', 'local-ip 10.0.0.9']


@bounded('C14', 'selectors')
def selectors(tier, seed):
    from exabgp.reactor.api.command.limit import match_neighbor, match_neighbors
    from spec.lines import selector_matches

    fails, evals, distinct = [], 0, set()
    for n in (1, 2, 3):
        for terms in itertools.permutations(TERMS, n) if n < 3 else itertools.combinations(TERMS, 3):
            terms = list(terms)
            for peer in PEERS:
                evals += 1
                distinct.add((tuple(terms), peer))
                got, want = match_neighbor(terms, peer), selector_matches(terms, peer)
                if got != want:
                    fails.append({'what': f'selector {terms} {"matches" if got else "does not match"} a neighbor it must {"not " if got else ""}match', 'input': {'terms': terms, 'peer': peer}})
            got = sorted(match_neighbors(PEERS, [terms]))
            want = sorted(p for p in PEERS if selector_matches(terms, p))
            evals += 1
            if got != want:
                fails.append({'what': 'the set of neighbors a selector selects differs from the reference', 'input': {'terms': terms, 'peer': 'ALL'}, 'expected': want, 'observed': got})
    fails.sort(key=lambda f: len(f['input']['terms']))
    return {'evaluations': evals, 'distinct_nontrivial': len(distinct), 'exhaustive': True, 'bound': 'every ordered selector of 1-2 terms and every 3-term combination out of 10 terms (wildcard, exact / prefix addresses IPv4 and IPv6, AS numbers that are prefixes of others, router-id, family) x 5 neighbors (one IPv6 address a textual prefix of another)', 'rule': 'one case = (terms, neighbor); all distinct', 'samples': [{'terms': ['neighbor *', 'peer-as 65003'], 'peer': PEERS[0]}], 'failures': fails}


@replayer('C14', 'selectors')
def _replay_sel(f):
    from exabgp.reactor.api.command.limit import match_neighbor
    from spec.lines import selector_matches

    if f['input']['peer'] == 'ALL':
        return True
    return match_neighbor(f['input']['terms'], f['input']['peer']) == selector_matches(f['input']['terms'], f['input']['peer'])


@harness_canary('C14', 'wildcard term switches off the other terms')
def _hc_wildcard():
    import exabgp.reactor.api.command.limit as m
    import re

    real = m.match_neighbor

    def old_behaviour(description, name):
        for string in description:
            if string.strip() in ('neighbor *', 'peer *'):
                return True
            if re.search(rf'(^|\s){re.escape(string)}($|\s|,)', name) is None:
                return False
        return True

    m.match_neighbor = old_behaviour
    try:
        r = selectors('quick', 0)
    finally:
        m.match_neighbor = real
    return bool(r['failures'])


# ---------------------------------------------------------------------------------------------------------------------
# acknowledgement order and "a failing command changes no RIB": the command-processing statements of the reactor's main
# loop (for ... in received_async(): api.process(...) / asynchronous._run_async() / flush_write_queue()) are EXTRACTED
# from Reactor._async_main_loop at run time and executed unmodified on a real Reactor object holding real Peers, a real
# Processes (commands arrive through a real pipe and the real reader callback, replies leave through a real pipe), the
# real API dispatcher and the real ASYNC scheduler.
TWO_NEIGHBORS = """
process p {
    run /bin/true;
    encoder json;
}
neighbor 127.0.0.1 {
    router-id 1.2.3.4; local-address 127.0.0.1; local-as 65000; peer-as 65001;
    family { ipv4 unicast; }
    api { processes [ p ]; }
}
neighbor 127.0.0.2 {
    router-id 1.2.3.4; local-address 127.0.0.1; local-as 65000; peer-as 65002;
    family { ipv4 unicast; }
    api { processes [ p ]; }
}
"""


class _Api:
    def __init__(self):
        import asyncio
        from exabgp.configuration.configuration import Configuration
        from exabgp.reactor.api import API
        from exabgp.reactor.api.processes import Processes
        from exabgp.reactor.asynchronous import ASYNC
        from exabgp.reactor.loop import Reactor
        from exabgp.rib import RIB
        from .extract import async_runner

        RIB._cache.clear()
        self.loop_body = async_runner('reactor/loop.py', 'Reactor._async_main_loop', 'for service, command in self.processes.received_async()', 'await self.processes.flush_write_queue()')
        r = Reactor.__new__(Reactor)
        r.configuration = Configuration([TWO_NEIGHBORS], text=True)
        r._peers = {}
        r._ips = []
        r.listener = None
        # what Reactor.__init__ sets and the status / ping commands read (no listener, signal handling or daemon object here)
        import time as _t
        import uuid as _u

        r.daemon_uuid, r.daemon_start_time, r.active_clients = str(_u.uuid4()), _t.time(), {}
        r._dynamic_peers, r.exit_code, r._stopping = set(), Reactor.Exit.unknown, False
        if not r.reload():
            raise RuntimeError(f'harness configuration refused: {r.configuration.error}')
        pr = Processes()
        self.cmd_r, self.cmd_w = os.pipe()  # the helper's stdout: commands
        self.ans_r, self.ans_w = os.pipe()  # the helper's stdin: replies
        os.set_blocking(self.cmd_r, False)
        os.set_blocking(self.ans_r, False)

        class Proc:
            stdout = os.fdopen(self.cmd_r, 'rb', buffering=0)
            stdin = os.fdopen(self.ans_w, 'wb', buffering=0)

            def poll(self_inner):
                return None

        pr._process['p'] = Proc()
        pr._async_mode = True
        pr._ack['p'] = True
        pr._ackjson['p'] = False
        pr._sync = getattr(pr, '_sync', {})
        try:
            pr._sync['p'] = False
        except Exception:  # noqa
            pass
        r.processes = pr
        r.asynchronous = ASYNC()
        r.asynchronous.set_error_handler(pr.answer_error_sync)
        r.api = API(r)
        self.reactor, self.processes = r, pr

    def deliver(self, data: bytes):
        os.write(self.cmd_w, data)
        self.processes._async_reader_callback('p')

    async def iterate(self, n=1):
        for _ in range(n):
            await self.loop_body(self=self.reactor)

    def idle(self):
        return not self.processes._command_queue and not self.reactor.asynchronous._async and not any(self.processes._write_queue.values())

    def replies(self):
        out = b''
        try:
            while True:
                d = os.read(self.ans_r, 65536)
                if not d:
                    break
                out += d
        except BlockingIOError:
            pass
        return [l for l in out.decode('ascii', 'replace').split('\n') if l.strip()]

    def ribs(self):
        res = {}
        for name, peer in self.reactor._peers.items():
            rib = peer.neighbor.rib.outgoing
            routes = set()
            for u in rib.updates(False):
                for r in getattr(u, 'announces', []):
                    routes.add(('+', str(r.nlri)))
                for n in getattr(u, 'withdraws', []):
                    routes.add(('-', str(n)))
            res[str(peer.neighbor.session.peer_address)] = routes
        return res

    def close(self):
        for fd in (self.cmd_w, self.ans_r):
            try:
                os.close(fd)
            except OSError:
                pass


def terminal(line):
    """'done' / 'error' for a terminal reply line (text or JSON form), None for anything else"""
    l = line.strip()
    if l in ('done', 'error'):
        return l
    if l.startswith('{') and '"answer"' in l:
        return 'done' if '"done"' in l else 'error' if '"error"' in l else None
    return None


# (command, expected terminal reply, effect: set of (neighbor, sign, prefix))
N1, N2 = '127.0.0.1', '127.0.0.2'
COMMANDS = [
    ('peer * announce route 10.0.1.0/24 next-hop 192.0.2.1', 'done', {(N1, '+', '10.0.1.0/24'), (N2, '+', '10.0.1.0/24')}),
    ('peer 127.0.0.1 announce route 10.0.2.0/24 next-hop 192.0.2.1', 'done', {(N1, '+', '10.0.2.0/24')}),
    ('peer 127.0.0.2 announce route 10.0.3.0/24 next-hop 192.0.2.1 med 5', 'done', {(N2, '+', '10.0.3.0/24')}),
    ('bogus command', 'error', set()),
    ('peer * announce route 10.0.4.0/24 next-hop 192.0.2.1 med 4294967296', 'error', set()),
    ('peer 127.0.0.9 announce route 10.0.5.0/24 next-hop 192.0.2.1', 'error', set()),
    ('peer * announce route 10.0.6.0/24', 'error', set()),
    ('peer * announce frobnicate 10.0.7.0/24', 'error', set()),
]


async def burst_case(indices, lines_per_read):
    w = _Api()
    cmds = [COMMANDS[i] for i in indices]
    inp = {'commands': [c for c, _e, _x in cmds], 'lines_per_read': lines_per_read}
    try:
        for k in range(0, len(cmds), lines_per_read):
            w.deliver(''.join(c + '\n' for c, _e, _x in cmds[k : k + lines_per_read]).encode())
            # the reactor keeps turning while the helper is silent
            for _ in range(2 * lines_per_read + 2):
                await w.iterate()
        for _ in range(40):
            if w.idle():
                break
            await w.iterate()
        got = [t for t in (terminal(l) for l in w.replies()) if t]
        want = [e for _c, e, _x in cmds]
        if len(got) != len(want):
            return {'what': f'{len(got)} terminal replies for {len(want)} commands: {got}', 'input': inp}
        if got != want:
            return {'what': f'the replies are not in command order: {got} instead of {want}', 'input': inp}
        ribs = w.ribs()
        want_rib = {N1: set(), N2: set()}
        for _c, _e, eff in cmds:
            for nb, sign, pfx in eff:
                want_rib[nb].add((sign, pfx))
        for nb in (N1, N2):
            extra = ribs.get(nb, set()) - want_rib[nb]
            missing = want_rib[nb] - ribs.get(nb, set())
            if extra:
                return {'what': f'neighbor {nb} has routes no accepted command asked for (a refused command or a selector leak): {sorted(extra)}', 'input': inp}
            if missing:
                return {'what': f'neighbor {nb} lacks routes of accepted commands: {sorted(missing)}', 'input': inp}
        return None
    finally:
        w.close()


def _run(coro):
    import asyncio

    loop = asyncio.new_event_loop()
    asyncio.set_event_loop(loop)
    try:
        return loop.run_until_complete(asyncio.wait_for(coro, 60))
    finally:
        loop.close()


def burst_cases(tier, rnd):
    n = len(COMMANDS)
    cases = []
    # every ordered pair, delivered in one read and in two reads
    for a in range(n):
        for b in range(n):
            if a != b:
                cases.append(((a, b), 2))
                if tier == 'thorough':
                    cases.append(((a, b), 1))
    for _ in range(12 if tier == 'quick' else 60):
        k = rnd.randint(3, 7)
        idx = tuple(rnd.randrange(n) for _ in range(k))
        cases.append((idx, rnd.choice([1, 2, 3, k])))
    return cases


@bounded('C14', 'command-bursts')
def command_bursts(tier, seed):
    rnd = random.Random(seed)
    fails, evals = [], 0
    for idx, per in burst_cases(tier, rnd):
        evals += 1
        f = _run(burst_case(idx, per))
        if f:
            fails.append(f)
    return {'evaluations': evals, 'distinct_nontrivial': evals, 'bound': f'every ordered pair of {len(COMMANDS)} commands (accepted for all / one neighbor, unknown, unparsable, value out of range, selector matching nobody, incomplete route) coalesced in one read, plus sampled sequences of 3-7 commands at 1, 2, 3 or all lines per read; two neighbors', 'rule': 'one case = (command sequence, lines per read)', 'samples': [{'commands': [COMMANDS[0][0], COMMANDS[3][0]], 'lines_per_read': 2}], 'failures': fails}


@replayer('C14', 'command-bursts')
def _replay_bursts(f):
    idx = tuple([c for c, _e, _x in COMMANDS].index(c) for c in f['input']['commands'])
    return _run(burst_case(idx, f['input']['lines_per_read'])) is None


@harness_canary('C14', 'the whole command queue handed over in one loop iteration (immediate answers overtake scheduled ones)')
def _hc_order():
    from exabgp.reactor.api.processes import Processes

    real = Processes.received_async

    def drain(self):
        while self._command_queue:
            yield self._command_queue.popleft()

    case = ((0, 3), 2)  # accepted (answered by a scheduled callback), then unknown (answered at once)
    ok = _run(burst_case(*case)) is None
    Processes.received_async = drain
    try:
        return ok and _run(burst_case(*case)) is not None
    finally:
        Processes.received_async = real


# ---------------------------------------------------------------------------------------------------------------------
# the same for the legacy (API version 4) syntax, which has its own dispatcher: `neighbor <selector> <command>`, commands
# without selector for every neighbor; and the commands which change something other than the RIB (OPERATIONAL messages
# queued on the neighbor): a command answered done HAS been executed, on the neighbors the selector names and only there
OP = 'operational asm afi ipv4 safi unicast advisory "hello"'
COMMANDS_V4 = [
    ('announce route 10.1.1.0/24 next-hop 192.0.2.1', 'done', {(N1, '+', '10.1.1.0/24'), (N2, '+', '10.1.1.0/24')}),
    ('neighbor 127.0.0.1 announce route 10.1.2.0/24 next-hop 192.0.2.1', 'done', {(N1, '+', '10.1.2.0/24')}),
    ('neighbor 127.0.0.2 announce route 10.1.3.0/24 next-hop 192.0.2.1 med 5', 'done', {(N2, '+', '10.1.3.0/24')}),
    ('bogus command', 'error', set()),
    ('neighbor 127.0.0.9 announce route 10.1.5.0/24 next-hop 192.0.2.1', 'error', set()),
    ('announce route 10.1.6.0/24', 'error', set()),
    (f'announce {OP}', 'done', {(N1, 'op', 'ASM'), (N2, 'op', 'ASM')}),
    (f'neighbor 127.0.0.1 announce {OP}', 'done', {(N1, 'op', 'ASM')}),
    (f'neighbor 127.0.0.2 announce {OP}', 'done', {(N2, 'op', 'ASM')}),
]
TWO_NEIGHBORS_OP = TWO_NEIGHBORS.replace('family { ipv4 unicast; }', 'family { ipv4 unicast; }\n    capability { operational enable; }')


async def burst_case_v4(indices, lines_per_read):
    from exabgp.environment import getenv

    global TWO_NEIGHBORS
    saved_conf, saved_version = TWO_NEIGHBORS, getenv().api.version
    TWO_NEIGHBORS = TWO_NEIGHBORS_OP
    getenv().api.version = 4
    try:
        w = _Api()
    finally:
        TWO_NEIGHBORS = saved_conf
    cmds = [COMMANDS_V4[i] for i in indices]
    inp = {'api_version': 4, 'commands': [c for c, _e, _x in cmds], 'lines_per_read': lines_per_read}
    try:
        for k in range(0, len(cmds), lines_per_read):
            w.deliver(''.join(c + '\n' for c, _e, _x in cmds[k : k + lines_per_read]).encode())
            for _ in range(2 * lines_per_read + 2):
                await w.iterate()
        for _ in range(40):
            if w.idle():
                break
            await w.iterate()
        got = [t for t in (terminal(l) for l in w.replies()) if t]
        want = [e for _c, e, _x in cmds]
        if got != want:
            return {'what': f'API version 4: replies {got} for commands expecting {want}', 'input': inp}
        have = w.ribs()
        for name, peer in w.reactor._peers.items():
            addr = str(peer.neighbor.session.peer_address)
            for m in peer.neighbor.messages:
                have.setdefault(addr, set()).add(('op', m.name))
        want_eff = {N1: set(), N2: set()}
        for _c, _e, eff in cmds:
            for nb, sign, what in eff:
                want_eff[nb].add((sign, what))
        for nb in (N1, N2):
            extra = have.get(nb, set()) - want_eff[nb]
            missing = want_eff[nb] - have.get(nb, set())
            if extra:
                return {'what': f'API version 4: neighbor {nb} was changed by a command which did not select it or was refused: {sorted(extra)}', 'input': inp}
            if missing:
                return {'what': f'API version 4: a command was answered done and not executed on neighbor {nb}: missing {sorted(missing)}', 'input': inp}
        return None
    finally:
        getenv().api.version = saved_version
        w.close()


@bounded('C14', 'command-bursts-v4-syntax')
def command_bursts_v4(tier, seed):
    rnd = random.Random(seed + 4)
    n = len(COMMANDS_V4)
    cases = [((a,), 1) for a in range(n)]
    pairs = [(a, b) for a in range(n) for b in range(n) if a != b]
    if tier == 'quick':
        rnd.shuffle(pairs)
        pairs = pairs[:24]
    cases += [(p, 2) for p in pairs]
    fails, evals = [], 0
    for idx, per in cases:
        evals += 1
        f = _run(burst_case_v4(idx, per))
        if f:
            fails.append(f)
    return {'evaluations': evals, 'distinct_nontrivial': evals, 'bound': f'API version 4 syntax: each of {n} commands alone and {"24 sampled" if tier == "quick" else "all"} ordered pairs coalesced in one read (route commands without selector / with `neighbor <ip>`, unknown, selector matching nobody, incomplete route, OPERATIONAL advisory without selector and per neighbor); two neighbors; replies in order and effects (Adj-RIB-Out, queued OPERATIONAL messages) exactly those of the accepted commands', 'rule': 'one case = (command sequence, lines per read)', 'samples': [{'commands': [COMMANDS_V4[7][0]]}], 'failures': fails}


@replayer('C14', 'command-bursts-v4-syntax')
def _replay_bursts_v4(f):
    idx = tuple([c for c, _e, _x in COMMANDS_V4].index(c) for c in f['input']['commands'])
    return _run(burst_case_v4(idx, f['input']['lines_per_read'])) is None


# ---------------------------------------------------------------------------------------------------------------------
# every command the dispatcher of the tree registers (read from its dispatch tree, not a list of mine), each followed by a
# fixed list of arguments, then a sentinel command: exactly one terminal reply per command, in order, whatever the command
# and its arguments are; a command answered `error` has changed no Adj-RIB-Out
ARGS = ['list', 'ipv4 unicast list', 'add 10.9.3.0/24 next-hop 192.0.2.1', 'remove 10.9.3.0/24 next-hop 192.0.2.1', 'remove index 00', 'out', 'in', '', 'x', '-1', '*', '127.0.0.1', '127.0.0.9', 'in', 'out', 'extensive', 'json', 'summary', 'configuration', 'ipv4 unicast', 'adj-rib out', 'adj-rib in', '[', '{ }', '"', '\\', '%s', '99999999999999999999999', 'route', 'route 10.9.0.0/24', 'route 10.9.0.0/24 next-hop 192.0.2.1', 'eor', 'eor ipv4 unicast', 'route-refresh ipv4 unicast', 'watchdog w', 'operational asm afi ipv4 safi unicast advisory "x"', 'flow route { match { destination 10.0.0.0/24; } then { discard; } }', 'vpls rd 1:1 endpoint 1 base 100 offset 1 size 8 next-hop 192.0.2.1', 'attributes next-hop 192.0.2.1 nlri 10.9.1.0/24', 'ipv4 unicast 10.9.2.0/24 next-hop 192.0.2.1', 'ipv6 unicast 2001:db8::/32 next-hop 2001:db8::1']
# commands which end or restart the daemon, or change how (whether) commands are acknowledged: one reply per command is not
# what they promise
NOT_DRIVEN = {'daemon shutdown', 'daemon reload', 'daemon restart', 'system crash', 'session ack disable', 'session ack silence', 'session bye', 'session reset', 'session sync enable'}
SENTINEL = 'bogus sentinel command'


import contextlib


@contextlib.contextmanager
def _quiet():
    """the handlers print the traceback of what they refuse (peer create with a bad address ...): not part of the verdict"""
    import io
    import sys

    saved = sys.stderr, sys.stdout
    sys.stderr = sys.stdout = io.StringIO()
    try:
        yield
    finally:
        sys.stderr, sys.stdout = saved


def registered_commands():
    from exabgp.reactor.api.dispatch.v6 import _get_v6_tree

    def walk(t, pre=()):
        for k, v in t.items():
            k = '*' if str(k) == '__selector__' else str(k)
            if isinstance(v, dict):
                yield from walk(v, pre + (k,))
            else:
                yield ' '.join(pre + (k,))

    return sorted(set(walk(_get_v6_tree())))


async def registered_case(line):
    w = _Api()
    inp = {'commands': [line, SENTINEL]}
    try:
        try:
            w.deliver((line + '\n' + SENTINEL + '\n').encode())
            for _ in range(60):
                await w.iterate()
                if w.idle():
                    break
        except Exception as e:  # noqa
            return {'what': f'an exception left the command-processing statements of the main loop: {type(e).__name__}: {str(e)[:160]}', 'input': inp}
        got = [t for t in (terminal(l) for l in w.replies()) if t]
        if len(got) != 2:
            return {'what': f'{len(got)} terminal replies for 2 commands: {got}', 'input': inp}
        if got[1] != 'error':
            return {'what': f'the unknown command after it was answered {got[1]}', 'input': inp}
        if got[0] == 'error':
            changed = {nb: sorted(v) for nb, v in w.ribs().items() if v}
            if changed:
                return {'what': f'a command answered error changed an Adj-RIB-Out: {changed}', 'input': inp}
        return None
    finally:
        w.close()


@bounded('C14', 'every-registered-command')
def every_registered_command(tier, seed):
    cmds = [c for c in registered_commands() if c not in NOT_DRIVEN and c != '#']
    args = ARGS if tier == 'thorough' else ARGS[::2]
    fails, evals = [], 0
    for c in cmds:
        for a in args:
            line = f'{c} {a}'.strip()
            evals += 1
            try:
                with _quiet():
                    f = _run(registered_case(line))
            except Exception as e:  # noqa
                f = {'what': f'the harness itself failed: {type(e).__name__}: {str(e)[:160]}', 'input': {'commands': [line, SENTINEL]}}
            if f:
                fails.append(f)
    return {'evaluations': evals, 'distinct_nontrivial': evals, 'bound': f'{len(cmds)} of the {len(registered_commands())} commands in the v6 dispatch tree of the tree (not driven: {sorted(NOT_DRIVEN)} -- they end the daemon or change acknowledgement itself) x {len(args)} argument strings, each followed by an unknown command in the same read; two neighbors; a partially constructed Reactor (no listener, no signal handling)', 'rule': 'one case = one command line', 'samples': [{'commands': [cmds[0], SENTINEL]}], 'failures': fails}


@replayer('C14', 'every-registered-command')
def _replay_registered(f):
    return _run(registered_case(f['input']['commands'][0])) is None


@harness_canary('C14', 'an unknown command is dropped without a reply')
def _hc_dropped():
    from exabgp.reactor.api import API

    real = API.process
    line = 'system version'

    def silent(self, reactor, service, command):
        if command.strip() == SENTINEL:
            return True
        return real(self, reactor, service, command)

    ok = _run(registered_case(line)) is None
    API.process = silent
    try:
        return ok and _run(registered_case(line)) is not None
    finally:
        API.process = real


# ---------------------------------------------------------------------------------------------------------------------
# a command which parses and cannot be applied to EVERY selected neighbor (next-hop self of a family one of the sessions
# has no address for): whatever it is answered, `error` means no Adj-RIB-Out was changed -- whichever neighbor comes first
MIXED = """
process p {
    run /bin/true;
    encoder json;
}
neighbor %s {
    router-id 1.2.3.4; local-address %s; local-as 65000; peer-as 65001;
    family { ipv4 unicast; ipv6 unicast; }
    api { processes [ p ]; }
}
neighbor %s {
    router-id 1.2.3.4; local-address %s; local-as 65000; peer-as 65002;
    family { ipv4 unicast; ipv6 unicast; }
    api { processes [ p ]; }
}
"""
V4N, V6N = ('127.0.0.1', '127.0.0.1'), ('::1', '::1')
PARTIAL_LINES = [
    'peer * announce route 2001:db8::5/128 next-hop self med 101',
    'peer * withdraw route 2001:db8::5/128 next-hop self',
    'peer * announce route 10.0.0.1/32 next-hop self med 100',
    'peer * announce route 2001:db8::6/128 next-hop 2001:db8::1',
    'peer * announce ipv6 unicast 2001:db8::7/128 next-hop self',
]


async def _partial_case(order, line):
    global TWO_NEIGHBORS
    saved = TWO_NEIGHBORS
    a, b = (V4N, V6N) if order == 'ipv4-session first' else (V6N, V4N)
    TWO_NEIGHBORS = MIXED % (a[0], a[1], b[0], b[1])
    try:
        f = await registered_case(line)
    finally:
        TWO_NEIGHBORS = saved
    if f:
        f['input']['neighbors'] = order
    return f


@bounded('C14', 'partly-applicable-commands')
def partly_applicable(tier, seed):
    fails, evals = [], 0
    for order in ('ipv4-session first', 'ipv6-session first'):
        for line in PARTIAL_LINES:
            evals += 1
            with _quiet():
                f = _run(_partial_case(order, line))
            if f:
                fails.append(f)
    return {'evaluations': evals, 'distinct_nontrivial': evals, 'exhaustive': True, 'bound': f'{len(PARTIAL_LINES)} route commands with next-hop self / an explicit next hop to `peer *` of two neighbors speaking both families, one over an IPv4 and one over an IPv6 session, in both configuration orders, each followed by an unknown command: one terminal reply each, and a command answered error has changed no Adj-RIB-Out', 'rule': 'one case = (neighbor order, command)', 'samples': [{'commands': [PARTIAL_LINES[0]], 'neighbors': 'ipv6-session first'}], 'failures': fails}


@replayer('C14', 'partly-applicable-commands')
def _replay_partial(f):
    return _run(_partial_case(f['input']['neighbors'], f['input']['commands'][0])) is None


# ---------------------------------------------------------------------------------------------------------------------
# "a command carrying a neighbor selector affects only the selected neighbors": the watchdog commands, whose effect is on
# routes the configuration holds back
WATCHDOG_CONF = TWO_NEIGHBORS.replace('api { processes [ p ]; }', 'api { processes [ p ]; }\n    static { route 10.5.0.0/24 next-hop 192.0.2.1 watchdog w withdraw; }')


async def _watchdog_case(line, want):
    global TWO_NEIGHBORS
    saved = TWO_NEIGHBORS
    TWO_NEIGHBORS = WATCHDOG_CONF
    try:
        w = _Api()
    finally:
        TWO_NEIGHBORS = saved
    inp = {'commands': [line], 'configuration': 'both neighbors hold 10.5.0.0/24 back under watchdog w'}
    try:
        w.deliver((line + '\n').encode())
        for _ in range(40):
            await w.iterate()
            if w.idle():
                break
        got = [t for t in (terminal(l) for l in w.replies()) if t]
        if got != ['done']:
            return {'what': f'replies {got} to a watchdog command', 'input': inp}
        have = {nb: {p for s, p in v if s == '+'} for nb, v in w.ribs().items()}
        for nb in (N1, N2):
            if have.get(nb, set()) != want.get(nb, set()):
                return {'what': f'neighbor {nb} announces {sorted(have.get(nb, set()))} after `{line}`, expected {sorted(want.get(nb, set()))}: the selector was not honoured', 'input': inp}
        return None
    finally:
        w.close()


WATCHDOG_LINES = [
    ('peer 127.0.0.1 announce watchdog w', {N1: {'10.5.0.0/24'}}),
    ('peer 127.0.0.2 announce watchdog w', {N2: {'10.5.0.0/24'}}),
    ('peer * announce watchdog w', {N1: {'10.5.0.0/24'}, N2: {'10.5.0.0/24'}}),
    ('peer * announce watchdog other', {}),
]


@bounded('C14', 'watchdog-selector')
def watchdog_selector(tier, seed):
    fails = []
    for line, want in WATCHDOG_LINES:
        with _quiet():
            f = _run(_watchdog_case(line, want))
        if f:
            fails.append(f)
    return {'evaluations': len(WATCHDOG_LINES), 'distinct_nontrivial': len(WATCHDOG_LINES), 'exhaustive': True, 'bound': 'announce watchdog with a selector naming one neighbor, the other, both, and an unknown watchdog name; two neighbors each holding one route back under the watchdog', 'rule': 'one case = one command', 'samples': [{'commands': [WATCHDOG_LINES[0][0]]}], 'failures': fails}


@replayer('C14', 'watchdog-selector')
def _replay_watchdog_sel(f):
    line = f['input']['commands'][0]
    return _run(_watchdog_case(line, dict(WATCHDOG_LINES)[line])) is None


# ---------------------------------------------------------------------------------------------------------------------
# the helper reads slowly: its stdin pipe is nearly full when a reply longer than PIPE_BUF is written, so the write is
# PARTIAL and the rest goes out later -- the byte stream the helper finally reads is the one it reads when the pipe is empty
def _raw(fd):
    out = b''
    try:
        while True:
            d = os.read(fd, 65536)
            if not d:
                break
            out += d
    except BlockingIOError:
        pass
    return out


async def _slow_reader_case(line, free):
    inp = {'commands': [line, SENTINEL], 'free_octets_in_the_pipe': free}

    async def run(prefill):
        w = _Api()
        try:
            os.set_blocking(w.ans_w, False)
            filler = 0
            if prefill:
                try:
                    while True:
                        filler += os.write(w.ans_w, b'x' * 4096)
                except BlockingIOError:
                    pass
                filler -= len(os.read(w.ans_r, free))
            w.deliver((line + '\n' + SENTINEL + '\n').encode())
            got = b''
            for _ in range(200):
                await w.iterate()
                got += _raw(w.ans_r)
                if w.idle():
                    got += _raw(w.ans_r)
                    break
            return got[filler:] if got[:filler] == b'x' * filler else None
        finally:
            w.close()

    with _quiet():
        want = await run(False)
        got = await run(True)
    if got is None:
        return {'what': 'harness: the filler did not come back first', 'input': inp, 'harness': True}
    if got != want:
        k = next((i for i in range(min(len(got), len(want))) if got[i] != want[i]), min(len(got), len(want)))
        return {'what': f'with the pipe nearly full the helper reads another byte stream than with an empty pipe (first difference at octet {k} of {len(want)}): a reply written in two parts is not put back where it was', 'input': inp, 'around': got[max(0, k - 30) : k + 60].decode('ascii', 'replace')}
    return None


@bounded('C14', 'slow-reader')
def slow_reader(tier, seed):
    cases = [(line, free) for line in ('system help json', 'system help') for free in (1, 100, 2000, 4000, 4331)]
    fails = []
    for c in cases:
        f = _run(_slow_reader_case(*c))
        if f:
            fails.append(f)
    return {'evaluations': len(cases), 'distinct_nontrivial': len(cases), 'bound': 'the two longest replies (`system help`, `system help json`: more than PIPE_BUF octets) followed by an unknown command, written to a helper whose stdin pipe has 1 .. 4331 octets of room left: the stream read is the stream read from an empty pipe', 'rule': 'one case = (command, room left)', 'samples': [{'commands': ['system help json'], 'free_octets_in_the_pipe': 2000}], 'failures': fails}


@replayer('C14', 'slow-reader')
def _replay_slow(f):
    return _run(_slow_reader_case(f['input']['commands'][0], f['input']['free_octets_in_the_pipe'])) is None


# ---------------------------------------------------------------------------------------------------------------------
# commands between `group start` and `group end` are buffered and acknowledged at once: whatever is acknowledged `done`
# is executed when the group ends (a command the group cannot carry is answered `error`, not dropped after a `done`)
async def _group_case(inner, effect):
    global TWO_NEIGHBORS
    saved = TWO_NEIGHBORS
    TWO_NEIGHBORS = WATCHDOG_CONF
    try:
        w = _Api()
    finally:
        TWO_NEIGHBORS = saved
    lines = ['group start', inner, 'announce route 10.9.5.0/24 next-hop 192.0.2.1', 'group end']
    inp = {'commands': lines}
    try:
        for ln in lines:
            w.deliver((ln + '\n').encode())
            for _ in range(6):
                await w.iterate()
        for _ in range(40):
            if w.idle():
                break
            await w.iterate()
        got = [t for t in (terminal(l) for l in w.replies()) if t]
        if len(got) != 4 or got[0] != 'done' or got[2] != 'done' or got[3] != 'done':
            return {'what': f'replies {got} to a group of 4 lines', 'input': inp}
        have = {nb: {p for s, p in v if s == '+'} for nb, v in w.ribs().items()}
        for nb in (N1, N2):
            if '10.9.5.0/24' not in have.get(nb, set()):
                return {'what': f'the route of the group did not reach neighbor {nb}', 'input': inp}
            if got[1] == 'done' and effect is not None and effect not in have.get(nb, set()):
                return {'what': f'`{inner}` was acknowledged done inside the group and was not executed when the group ended (neighbor {nb} announces {sorted(have.get(nb, set()))})', 'input': inp}
        return None
    finally:
        w.close()


GROUP_INNER = [('announce watchdog w', '10.5.0.0/24'), ('announce route 10.9.6.0/24 next-hop 192.0.2.1', '10.9.6.0/24'), ('announce ipv4 unicast 10.9.7.0/24 next-hop 192.0.2.1', '10.9.7.0/24'), ('announce eor ipv4 unicast', None), ('announce frobnicate', None)]


@bounded('C14', 'commands-inside-a-group')
def commands_inside_a_group(tier, seed):
    fails = []
    for inner, effect in GROUP_INNER:
        with _quiet():
            f = _run(_group_case(inner, effect))
        if f:
            fails.append(f)
    return {'evaluations': len(GROUP_INNER), 'distinct_nontrivial': len(GROUP_INNER), 'exhaustive': True, 'bound': 'group start / one command / a route / group end, the one command being a watchdog announce, two route forms, an End-of-RIB request and an unknown sub-command: one terminal reply per line, and what is acknowledged done is executed when the group ends', 'rule': 'one case = the command inside the group', 'samples': [{'commands': ['group start', GROUP_INNER[0][0], 'group end']}], 'failures': fails}


@replayer('C14', 'commands-inside-a-group')
def _replay_group(f):
    inner = f['input']['commands'][1]
    return _run(_group_case(inner, dict(GROUP_INNER)[inner])) is None


# ---------------------------------------------------------------------------------------------------------------------
# `sync` commands are acknowledged once their routes are on the wire: the acknowledgement hangs on an event the send step
# of the peer loop sets.  Whatever the command changed for that peer -- nothing at all included -- the event is set after a
# bounded number of turns (a command never answered also blocks every command behind it)
def sync_case(what):
    from . import c11, c17

    inp = {'sync_command': what}
    w = c17.World(dict(routes={'A': 10}, hold=180))
    key = list(w.peers())[0]
    s = c11.Sess(w, key)
    if not s.settle():
        raise RuntimeError('harness: the session never settles')
    rib = s.peer.neighbor.rib.outgoing
    event = rib.register_flush_callback()  # what register_flush_callbacks() of the API handlers does per connected peer
    if what == 'a new route':
        c11.apply(rib, ('ann', 1, 10))
    elif what == 'a route the peer already has':
        c11.apply(rib, ('ann', 0, 10))
    elif what == 'the withdraw of a route the peer does not have':
        c11.apply(rib, ('wd', 2, None))
    for _ in range(6):
        s.step(25)
    if not event.is_set():
        return {'what': f'a sync command ({what}) is never acknowledged: the flush event is not set after 6 turns of the send loop', 'input': inp}
    return None


@bounded('C14', 'sync-acknowledgement')
def sync_acknowledgement(tier, seed):
    cases = ['a new route', 'a route the peer already has', 'the withdraw of a route the peer does not have', 'nothing']
    fails = [f for f in (sync_case(c) for c in cases) if f]
    return {'evaluations': len(cases), 'distinct_nontrivial': len(cases), 'exhaustive': True, 'bound': 'the flush event a sync command waits for, registered on the Adj-RIB-Out of an established peer (real send statements of Peer._main), for a command which queues a new route, a duplicate, a withdraw of nothing, or nothing: set within 6 turns', 'rule': 'one case = what the command changed', 'samples': [{'sync_command': 'a route the peer already has'}], 'failures': fails}


@replayer('C14', 'sync-acknowledgement')
def _replay_sync(f):
    return sync_case(f['input']['sync_command']) is None
