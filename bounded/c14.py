"""bounded stand-in for C14 (chunking clause): the REAL Processes._async_reader_callback over a real os.pipe(), every
chunking of short command streams; the commands queued must be the complete lines of the stream, in order, whatever
the chunking, and the same as with the stream delivered in one piece"""
import itertools
import os
import random
from collections import deque

from .registry import bounded, replayer, harness_canary


class _Proc:
    def __init__(self, rfd):
        self.stdout = os.fdopen(rfd, 'rb', buffering=0)

    def poll(self):
        return None


def feed(stream: bytes, chunks):
    """deliver `stream` to the real reader callback in the given chunk sizes -> (queued commands, buffer left)"""
    from exabgp.reactor.api.processes import Processes

    rfd, wfd = os.pipe()
    os.set_blocking(rfd, False)
    pr = Processes.__new__(Processes)
    proc = _Proc(rfd)
    pr._process = {'p': proc}
    pr._buffer = {}
    pr._command_queue = deque()
    pr._async_mode = False
    pr._loop = None
    pr._get_stdout = lambda name: proc.stdout
    problems = []
    pr._handle_problem = lambda name: problems.append(name)
    try:
        pos, k = 0, 0
        while pos < len(stream):
            n = chunks[k % len(chunks)]
            k += 1
            os.write(wfd, stream[pos : pos + n])
            pos += n
            pr._async_reader_callback('p')
    finally:
        os.close(wfd)
        proc.stdout.close()
    return [c for _, c in pr._command_queue], pr._buffer.get('p', ''), problems


def expected(stream: bytes):
    from spec.lines import complete_lines
    from exabgp.reactor.api.processes import formated

    lines, rest = complete_lines(stream.decode('ascii'))
    cmds = [formated(l.rstrip()) for l in lines if not l.rstrip().startswith('debug ')]
    return cmds, rest


def one_case(stream: bytes, chunks):
    inp = {'stream': stream.decode('ascii'), 'chunks': list(chunks)[:12]}
    try:
        got, rest, problems = feed(stream, chunks)
    except Exception as e:  # noqa
        return {'what': f'reader callback raised {type(e).__name__}: {str(e)[:160]}', 'input': inp}
    want, want_rest = expected(stream)
    if problems:
        return {'what': 'the reader declared the process broken on a well-formed command stream', 'input': inp}
    if got != want:
        return {'what': 'the commands queued are not the complete lines of the stream in order', 'input': inp, 'expected': want, 'observed': got}
    if rest != want_rest:
        return {'what': 'the text kept for the next read is not what follows the last newline', 'input': inp, 'expected': want_rest, 'observed': rest}
    return None


STREAMS = [
    b'announce route 10.0.0.0/24 next-hop 1.1.1.1\nwithdraw route 10.0.0.0/24\n',
    b'a\nb\nc\n',
    b'announce route 10.1.0.0/24 next-hop self\nneighbor 10.0.0.2 announce route 10.2.0.0/24 next-hop self\npartial',
    b'\n\nx\n',
    b'debug hello\nshow neighbor\n  spaced  \n',
    b'one two\r\nthree\n',
]


def all_chunkings(n, limit):
    """every composition of n into parts (2^(n-1) of them) when small, else a sample"""
    if n <= limit:
        for mask in range(1 << (n - 1)):
            parts, run = [], 1
            for i in range(n - 1):
                if mask >> i & 1:
                    parts.append(run)
                    run = 1
                else:
                    run += 1
            parts.append(run)
            yield parts


@bounded('C14', 'pipe-chunkings')
def pipe_chunkings(tier, seed):
    rnd = random.Random(seed)
    fails, evals, distinct, samples = [], 0, set(), []
    short = 11 if tier == 'quick' else 15
    for stream in STREAMS:
        cuts = [[len(stream)], [1], [2], [3, 1], [7], [16384]]
        # cuts right at / around each newline: the read that ends exactly on a line's newline, then more
        for i, ch in enumerate(stream):
            if ch == 10:
                for a in (i, i + 1, i + 2):
                    if 0 < a < len(stream):
                        cuts.append([a, len(stream)])
                        for b in range(1, min(6, a)):
                            cuts.append([b, a - b, 1, len(stream)])
        for _ in range(20 if tier == 'quick' else 300):
            cuts.append([rnd.randint(1, 9) for _ in range(12)])
        for chunks in cuts:
            evals += 1
            distinct.add((stream, tuple(chunks)))
            f = one_case(stream, chunks)
            if f:
                fails.append(f)
    # exhaustive: EVERY chunking of a short stream
    small = b'ab\ncd\ne\n\nfg'[:short]
    for parts in all_chunkings(len(small), short):
        evals += 1
        distinct.add((small, tuple(parts)))
        f = one_case(small, parts)
        if f:
            fails.append(f)
    samples = [{'stream': STREAMS[2].decode()[:60], 'chunks': [5, 38, 1, 200]}, {'stream': small.decode(), 'chunks': [1]}]
    fails.sort(key=lambda f: (len(f['input']['stream']), len(f['input']['chunks'])))
    return {'evaluations': evals, 'distinct_nontrivial': len(distinct), 'bound': f'6 command streams x cuts at and around every newline x sampled chunkings, plus EVERY chunking (2^{short - 1}) of an {short}-byte stream with empty lines and a partial tail', 'rule': 'one case = (stream, chunk sizes); distinct by value', 'samples': samples, 'failures': fails}


@replayer('C14', 'pipe-chunkings')
def _replay(f):
    return one_case(f['input']['stream'].encode('ascii'), f['input']['chunks']) is None


@harness_canary('C14', 'stale partial line kept when a read ends on a newline')
def _hc_stale():
    import exabgp.reactor.api.processes as m

    real = m.Processes._async_reader_callback
    ok_before = one_case(STREAMS[0], [10, 34, 5]) is None

    def broken(self, name):
        before = dict(self._buffer)
        real(self, name)
        if self._buffer.get(name, None) == '' and before.get(name):
            self._buffer[name] = before[name]  # forget to clear the buffer when nothing is left over

    m.Processes._async_reader_callback = broken
    try:
        caught = any(one_case(STREAMS[0], [a, len(STREAMS[0])]) is not None or one_case(STREAMS[0], [3, a - 3, 50]) is not None for a in (44,))
    finally:
        m.Processes._async_reader_callback = real
    return ok_before and caught


# ------------------------------------------------------------------------------------------------ selectors

PEERS = [
    'neighbor 10.0.0.1 local-ip 10.0.0.9 local-as 65001 peer-as 65002 router-id 1.1.1.1 family-allowed in-open',
    'neighbor 10.0.0.11 local-ip 10.0.0.9 local-as 65001 peer-as 65003 router-id 1.1.1.1 family-allowed in-open',
    'neighbor 2001:db8::1 local-ip 2001:db8::9 local-as 65001 peer-as 65002 router-id 1.1.1.2 family-allowed in-open',
    'neighbor 2001:db8::1:2 local-ip 2001:db8::9 local-as 65001 peer-as 65002 router-id 1.1.1.2 family-allowed in-open',
    'neighbor 10.0.0.2 local-ip 10.0.0.9 local-as 650 peer-as 65002 router-id 1.1.1.10 family-allowed ipv4-unicast/ipv6-unicast',
]
TERMS = ['neighbor *', 'neighbor 10.0.0.1', 'neighbor 2001:db8::1', 'neighbor 10.0.0', 'peer-as 65002', 'peer-as 6500', 'local-as 650', 'router-id 1.1.1.1', 'family-allowed ipv4-unicast', 'local-ip 10.0.0.9']


@bounded('C14', 'selectors')
def selectors(tier, seed):
    from exabgp.reactor.api.command.limit import match_neighbor, match_neighbors
    from spec.lines import selector_matches

    fails, evals, distinct = [], 0, set()
    for n in (1, 2, 3):
        for terms in itertools.permutations(TERMS, n) if n < 3 else itertools.combinations(TERMS, 3):
            terms = list(terms)
            for peer in PEERS:
                evals += 1
                distinct.add((tuple(terms), peer))
                got, want = match_neighbor(terms, peer), selector_matches(terms, peer)
                if got != want:
                    fails.append({'what': f'selector {terms} {"matches" if got else "does not match"} a neighbor it must {"not " if got else ""}match', 'input': {'terms': terms, 'peer': peer}})
            got = sorted(match_neighbors(PEERS, [terms]))
            want = sorted(p for p in PEERS if selector_matches(terms, p))
            evals += 1
            if got != want:
                fails.append({'what': 'the set of neighbors a selector selects differs from the reference', 'input': {'terms': terms, 'peer': 'ALL'}, 'expected': want, 'observed': got})
    fails.sort(key=lambda f: len(f['input']['terms']))
    return {'evaluations': evals, 'distinct_nontrivial': len(distinct), 'exhaustive': True, 'bound': 'every ordered selector of 1-2 terms and every 3-term combination out of 10 terms (wildcard, exact / prefix addresses IPv4 and IPv6, AS numbers that are prefixes of others, router-id, family) x 5 neighbors (one IPv6 address a textual prefix of another)', 'rule': 'one case = (terms, neighbor); all distinct', 'samples': [{'terms': ['neighbor *', 'peer-as 65003'], 'peer': PEERS[0]}], 'failures': fails}


@replayer('C14', 'selectors')
def _replay_sel(f):
    from exabgp.reactor.api.command.limit import match_neighbor
    from spec.lines import selector_matches

    if f['input']['peer'] == 'ALL':
        return True
    return match_neighbor(f['input']['terms'], f['input']['peer']) == selector_matches(f['input']['terms'], f['input']['peer'])


@harness_canary('C14', 'wildcard term switches off the other terms')
def _hc_wildcard():
    import exabgp.reactor.api.command.limit as m
    import re

    real = m.match_neighbor

    def old_behaviour(description, name):
        for string in description:
            if string.strip() in ('neighbor *', 'peer *'):
                return True
            if re.search(rf'(^|\s){re.escape(string)}($|\s|,)', name) is None:
                return False
        return True

    m.match_neighbor = old_behaviour
    try:
        r = selectors('quick', 0)
    finally:
        m.match_neighbor = real
    return bool(r['failures'])
