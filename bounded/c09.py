"""bounded stand-in for C09: the real UpdateCollection.messages() at sizes straddling both limits, decoded by the RFC
reference decoder (spec/update.py)"""
import copy
import random

from .registry import bounded, replayer, region


def _neg(msg_size, families, addpath=False):
    from exabgp.bgp.message.open.capability.negotiated import Negotiated, RequirePath
    from exabgp.bgp.message.open.asn import ASN

    neg = copy.copy(Negotiated.UNSET)
    neg.families = list(families)
    if addpath:
        # ADD-PATH negotiated for sending: every NLRI is 4 bytes longer on the wire than it is stored
        neg.addpath = RequirePath()
        neg.addpath._send = {f: True for f in families}
        neg.addpath._receive = {f: True for f in families}
    neg.local_as = ASN(65000)
    neg.peer_as = ASN(65000)
    neg.msg_size = msg_size
    return neg


def _collection(padlen, v4, v6, w4, w6, v4nh6=(), w6m=()):
    from exabgp.bgp.message.update.collection import UpdateCollection, RoutedNLRI
    from exabgp.bgp.message.update.attribute import AttributeCollection
    from exabgp.bgp.message.update.attribute.generic import GenericAttribute
    from exabgp.bgp.message.update.attribute.nexthop import NextHop
    from exabgp.bgp.message.update.nlri.inet import INET
    from exabgp.protocol.family import AFI, SAFI
    from exabgp.protocol.ip import IP, IPv4, IPv6

    attrs = AttributeCollection()
    attrs.add(GenericAttribute.make_generic(99, 0xC0, bytes(padlen)))
    nh4 = IPv4.from_string('1.2.3.4')
    nh6 = IPv6.from_string('2001:db8::1')
    attrs.add(NextHop(nh4.pack_ip()))
    ann = [RoutedNLRI(INET.make_route(AFI.ipv4, SAFI.unicast, IP.pton(a), m), nh4) for a, m in v4]
    ann += [RoutedNLRI(INET.make_route(AFI.ipv6, SAFI.unicast, IP.pton(a), m), nh6) for a, m in v6]
    wd = [INET.make_route(AFI.ipv4, SAFI.unicast, IP.pton(a), m) for a, m in w4]
    wd += [INET.make_route(AFI.ipv6, SAFI.unicast, IP.pton(a), m) for a, m in w6]
    # RFC 8950: IPv4 prefixes with an IPv6 next hop travel in MP_REACH_NLRI with that next hop
    ann += [RoutedNLRI(INET.make_route(AFI.ipv4, SAFI.unicast, IP.pton(a), m), nh6) for a, m in v4nh6]
    # a withdraw-only MP family next to a different announce family
    wd += [INET.make_route(AFI.ipv6, SAFI.multicast, IP.pton(a), m) for a, m in w6m]
    return UpdateCollection(ann, wd, attrs)


def _case(msg_size, padlen, v4, v6, w4, w6, v4nh6=(), w6m=(), addpath=False):
    """returns None or a failure dict"""
    from spec.update import decode_update
    from exabgp.protocol.family import AFI, SAFI
    import socket

    neg = _neg(msg_size, [(AFI.ipv4, SAFI.unicast), (AFI.ipv6, SAFI.unicast), (AFI.ipv6, SAFI.multicast)], addpath)
    u = _collection(padlen, v4, v6, w4, w6, v4nh6, w6m)
    inp = {'msg_size': msg_size, 'padlen': padlen, 'v4': v4, 'v6': v6, 'w4': w4, 'w6': w6, 'v4nh6': list(v4nh6), 'w6m': list(w6m), 'addpath': addpath}
    try:
        msgs = [bytes(m) for m in u.messages(neg)]
    except Exception as e:  # noqa
        return {'what': f'messages() raised {type(e).__name__}: {e}', 'input': inp}
    got_a, got_w = set(), set()
    count_a, count_w = {}, {}
    for m in msgs:
        if len(m) > msg_size:
            return {'what': f'UPDATE of {len(m)} bytes on a {msg_size} session', 'input': inp, 'sizes': [len(x) for x in msgs]}
        try:
            d = decode_update(m, (lambda a, s_: True)) if addpath else decode_update(m)
        except (AssertionError, ValueError, IndexError) as e:
            return {'what': f'generated UPDATE does not parse on its own: {e}', 'input': inp}
        has_attrs = any(t != 14 and t != 15 for _, t, _ in d['attributes'])
        if not d['nlri'] and not d['withdrawn'] and not any(p for _a, _s, _n, p in d['mp_reach']) and not any(p for _a, _s, p in d['mp_unreach']):
            return {'what': 'a generated UPDATE carries no route at all (attributes only, or the End-of-RIB nobody asked for)', 'input': inp, 'message': m.hex()[:120]}
        for pid, lab, rd, bits, body in d['nlri']:
            if not has_attrs:
                return {'what': 'IPv4 NLRI announced without its attributes', 'input': inp}
            got_a.add((4, bits, body))
            count_a[(4, bits, body)] = count_a.get((4, bits, body), 0) + 1
        for pid, lab, rd, bits, body in d['withdrawn']:
            got_w.add((4, bits, body))
            count_w[(4, bits, body)] = count_w.get((4, bits, body), 0) + 1
        for afi, safi, nh, pfx in d['mp_reach']:
            if nh[:16] != socket.inet_pton(socket.AF_INET6, '2001:db8::1'):
                return {'what': f'MP_REACH next hop {nh.hex()}', 'input': inp}
            for pid, lab, rd, bits, body in pfx:
                got_a.add((6 if afi == 2 else 46, bits, body))
        for afi, safi, pfx in d['mp_unreach']:
            for pid, lab, rd, bits, body in pfx:
                got_w.add((6 if safi == 1 else 62, bits, body))

    def want(lst, fam):
        af = socket.AF_INET if fam in (4, 46) else socket.AF_INET6
        return {(fam, m, socket.inet_pton(af, a)[: (m + 7) // 8]) for a, m in lst}

    # 46 = IPv4 prefix carried in MP_REACH with an IPv6 next hop; 62 = IPv6 multicast
    exp_a = want(v4, 4) | want(v6, 6) | want(v4nh6, 46)
    exp_w = want(w4, 4) | want(w6, 6) | want(w6m, 62)
    room = msg_size - 23 - (padlen + (4 if padlen > 255 else 3)) - 7 - 4  # pad attribute, NEXT_HOP (7), ORIGIN (4)
    twice = [k for k, n in list(count_a.items()) + list(count_w.items()) if n > 1]
    if twice:
        return {'what': f'the generated messages carry the same IPv4 route {max(count_a.get(twice[0], 0), count_w.get(twice[0], 0))} times (each requested route once, nothing else)', 'input': inp, 'twice': str(twice[:3])}
    if got_a - exp_a or got_w - exp_w:
        return {'what': 'messages carry something that was not requested', 'input': inp, 'extra': str((got_a - exp_a, got_w - exp_w))[:300]}
    if (exp_a - got_a or exp_w - got_w) and room >= 60:
        return {'what': 'requested routes missing from the generated messages', 'input': inp, 'missing': str((exp_a - got_a, exp_w - got_w))[:300]}
    if exp_w - got_w:
        # "when the attributes leave no room for even one prefix no message is produced for THOSE routes": a withdrawal
        # carries no attribute, it always fits
        return {'what': 'a requested withdrawal is missing from the generated messages (the attributes leave no room for the announces, which a withdrawal does not need)', 'input': inp, 'missing': str(exp_w - got_w)[:300], 'room_for_nlri': room}
    return None


@region('C09-withdrawal-lost-behind-oversized-attributes')
def withdrawal_lost_region(failure):
    """recorded defect: UpdateCollection.messages() computes the room for NLRI from the attributes before it looks at what is
    left to send, and gives up (`return`) when an announce does not fit: the IPv4 withdrawals of the same collection, which
    need no attribute, are never generated.  Only a missing withdrawal, only when the attributes leave less than 60 octets
    (with 60 or more the older clause 'requested routes missing' applies and stays enforced)."""
    return failure.get('what', '').startswith('a requested withdrawal is missing') and failure.get('room_for_nlri', 99) < 60


@bounded('C09', 'sizes-straddling-limits')
def sizes(tier, seed):
    rnd = random.Random(seed)
    fails, evals, distinct, samples = [], 0, set(), []
    v4 = [(f'10.{i}.{j}.0', 24) for i in range(3) for j in range(4)] + [('11.0.0.0', 8), ('12.1.0.0', 16)]
    v6 = [(f'2001:db8:{i:x}::', 64) for i in range(6)] + [('2001:db8::', 32)]
    for msg_size in (4096, 65535):
        # overhead without padding: header 19 + 2 + 2 + attributes; scan the room left from -4 to +70 bytes
        base = msg_size - 23 - 3 - 7 - 4 - 4  # generous: pad attr header (ext length) + NEXT_HOP + ORIGIN + ...
        rooms = list(range(-6, 72)) if tier == 'thorough' else list(range(-4, 20)) + [30, 45, 60, 71]
        for room in rooms:
            padlen = base - room
            shapes = [
                (v4[:2], [], [], []),
                (v4, [], v4[:3], []),
                ([], v6[:2], [], []),
                (v4[:3], v6[:3], [], []),
                ([], [], v4[:4], v6[:2]),
                (v4[:1], v6[:1], [('13.0.0.0', 8)], [('2001:db9::', 32)]),
                ([], v6[:2], [], [], (), [('ff3e::', 32)]),
                (v4[:1], [], [], [], [('14.0.0.0', 8), ('14.1.0.0', 16)], ()),
                ([], v6[:1], v4[:1], [], [('15.0.0.0', 8)], [('ff3e:1::', 48)]),
                # IPv4 announces next to MP withdraws only (no MP announce): the announces keep their attributes
                (v4[:2], [], [], v6[:2]),
                (v4[:3], [], v4[3:4], v6[:1], (), [('ff3e::', 32)]),
                # an IPv4 section which nearly fills the message, then MP announces and MP withdraws (these two shapes are
                # where MP routes used to be dropped for lack of room beside what had been sent already)
                (v4[:6], v6[:1], v4[6:9], []),
                (v4[:2], v6[:4], v4[2:3], v6[4:6]),
            ]
            if tier == 'thorough':
                for _ in range(4):
                    shapes.append((rnd.sample(v4, rnd.randint(0, 6)), rnd.sample(v6, rnd.randint(0, 4)), rnd.sample(v4, rnd.randint(0, 3)), rnd.sample(v6, rnd.randint(0, 2))))
            for sh in shapes:
                evals += 1
                distinct.add((msg_size, room, str(sh)))
                f = _case(msg_size, padlen, *sh)
                if f:
                    fails.append(f)
                # the same with ADD-PATH negotiated for sending (wire form 4 bytes longer per NLRI than the stored form)
                sh2 = tuple(sh) + ((),) * (6 - len(sh))
                evals += 1
                distinct.add((msg_size, room, str(sh), 'addpath'))
                f = _case(msg_size, padlen, *sh2, addpath=True)
                if f:
                    fails.append(f)
                if len(samples) < 3 and room == 5:
                    samples.append({'msg_size': msg_size, 'padlen': padlen, 'v4': sh[0][:2], 'v6': sh[1][:2]})
    return {'evaluations': evals, 'distinct_nontrivial': len(distinct), 'bound': 'room left after the attributes from -4..71 bytes x 2 maximum sizes x 6 (quick) / 10 (thorough) route-set shapes, IPv4 + IPv6 unicast', 'rule': 'one case = (max size, room, announce/withdraw sets); distinct by construction', 'samples': samples, 'failures': fails}


@replayer('C09', 'sizes-straddling-limits')
def _replay(f):
    i = f['input']
    conv = lambda l: [tuple(x) for x in l]
    return _case(i['msg_size'], i['padlen'], conv(i['v4']), conv(i['v6']), conv(i['w4']), conv(i['w6']), conv(i.get('v4nh6', [])), conv(i.get('w6m', [])), i.get('addpath', False)) is None


# ---------------------------------------------------------------------------------------------------------------------
# ONE attribute collection encoded for several sessions, one after the other (a route announced to all the neighbors of a
# group): each session gets the encoding of ITS parameters -- AS width, iBGP / eBGP defaults -- whatever was packed before
def _shared_case(order):
    from exabgp.bgp.message.update.collection import UpdateCollection, RoutedNLRI
    from exabgp.bgp.message.update.attribute import AttributeCollection
    from exabgp.bgp.message.update.attribute.aspath import ASPath, SEQUENCE
    from exabgp.bgp.message.update.attribute.nexthop import NextHop
    from exabgp.bgp.message.update.attribute.origin import Origin
    from exabgp.bgp.message.update.nlri.inet import INET
    from exabgp.bgp.message.open.asn import ASN
    from exabgp.protocol.family import AFI, SAFI
    from exabgp.protocol.ip import IP, IPv4
    from spec.update import decode_update

    inp = {'session_order': list(order)}
    attrs = AttributeCollection()
    attrs.add(Origin.from_int(0) if hasattr(Origin, 'from_int') else Origin(bytes([0])))
    attrs.add(ASPath.make_aspath([SEQUENCE([ASN(65010), ASN(4200000001)])], asn4=True))
    nh4 = IPv4.from_string('1.2.3.4')
    attrs.add(NextHop(nh4.pack_ip()))
    routes = [RoutedNLRI(INET.make_route(AFI.ipv4, SAFI.unicast, IP.pton(f'10.{i}.0.0'), 16), nh4) for i in range(3)]
    u = UpdateCollection(routes, [], attrs)
    for kind in order:
        neg = _neg(4096, [(AFI.ipv4, SAFI.unicast)])
        neg.asn4 = kind.endswith('4')
        neg.local_as = ASN(65000)
        neg.peer_as = ASN(65000) if kind.startswith('ibgp') else ASN(65001)
        try:
            msgs = [bytes(m) for m in u.messages(neg)]
        except Exception as e:  # noqa
            return {'what': f'messages() raised {type(e).__name__}: {e} for the {kind} session', 'input': inp}
        width = 4 if neg.asn4 else 2
        seen = set()
        for m in msgs:
            d = decode_update(m)
            by = {t: v for _f, t, v in d['attributes']}
            path = by.get(2, b'')
            # every segment must parse at THIS session's AS width, and end exactly at the end of the attribute
            i, asns = 0, []
            ok = True
            while i < len(path):
                if i + 2 > len(path) or i + 2 + path[i + 1] * width > len(path):
                    ok = False
                    break
                asns += [int.from_bytes(path[i + 2 + k * width : i + 2 + (k + 1) * width], 'big') for k in range(path[i + 1])]
                i += 2 + path[i + 1] * width
            # the operator gave the path: it is sent as written (nothing is prepended), at this session's AS width
            want = [65010, 4200000001] if neg.asn4 else [65010, 23456]
            if not ok or asns != want:
                return {'what': f'one attribute set sent on several sessions: the {kind} session (packed after {list(order)[: list(order).index(kind)]}) gets AS_PATH {path.hex()} -- read at {width} octets per AS: {asns if ok else "does not parse"}, expected {want}', 'input': inp}
            has_lp = 5 in by
            if has_lp != kind.startswith('ibgp'):
                return {'what': f'one attribute set sent on several sessions: the {kind} session {"lacks" if not has_lp else "carries"} LOCAL_PREF', 'input': inp}
            for pid, lab, rd, bits, body in d['nlri']:
                seen.add(body)
        if len(seen) != 3:
            return {'what': f'the {kind} session does not announce the three routes ({len(seen)})', 'input': inp}
    return None


@bounded('C09', 'one-collection-several-sessions')
def one_collection_several_sessions(tier, seed):
    import itertools

    kinds = ['ebgp4', 'ebgp2', 'ibgp4', 'ibgp2']
    fails, evals = [], 0
    for order in itertools.permutations(kinds, 2 if tier == 'quick' else 3):
        evals += 1
        f = _shared_case(order)
        if f:
            fails.append(f)
    return {'evaluations': evals, 'distinct_nontrivial': evals, 'bound': 'one attribute collection (ORIGIN, AS_PATH with a 4-byte AS, NEXT_HOP) and three routes, packed by the real UpdateCollection.messages() for every ordered pair (thorough: triple) of eBGP / iBGP x 2- / 4-byte AS sessions: AS width, defaults and routes of each', 'rule': 'one case = one order of sessions', 'samples': [{'session_order': ['ebgp4', 'ebgp2']}], 'failures': fails}


@replayer('C09', 'one-collection-several-sessions')
def _replay_shared(f):
    return _shared_case(tuple(f['input']['session_order'])) is None
