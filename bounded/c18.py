"""bounded stand-in for C18: route text with values at and beyond every numeric boundary through the REAL route parser;
accepted text is encoded by the real UpdateCollection.messages() for several session kinds and decoded by the RFC
reference decoder: the values must be the ones written.  Refused text must be refused cleanly (no exception escapes
the parsing entry point)."""
import random
import socket
import struct

from .registry import bounded, replayer
from . import harness as H
from spec.update import decode_update

_cfg = []


def parse(text):
    """-> list of Route (empty = refused with a recorded error); any exception escaping is a failure of the property"""
    from exabgp.configuration.configuration import Configuration

    if not _cfg:
        _cfg.append(Configuration([], text=True))
    return _cfg[0].parse_route_text(text, 'announce')


# keyword, value text, (accepted?, checker(decoded attributes dict) -> bool)
def _be(n, w):
    return n.to_bytes(w, 'big')


def cases():
    out = []
    for v in (0, 1, 4294967295, 4294967296, 18446744073709551616):
        out.append((f'med {v}', v <= 0xFFFFFFFF, lambda a, v=v: a.get(4) == _be(v, 4)))
        out.append((f'local-preference {v}', v <= 0xFFFFFFFF, ('local-preference', v)))
        out.append((f'path-information {v}', v <= 0xFFFFFFFF, None))
    out.append(('med -1', False, None))
    out.append(('med abc', False, None))
    for hi, lo in ((0, 0), (65535, 65535), (65536, 1), (1, 65536), (70000, 70000)):
        ok = hi <= 65535 and lo <= 65535
        out.append((f'community {hi}:{lo}', ok, lambda a, hi=hi, lo=lo: a.get(8) == _be(hi, 2) + _be(lo, 2)))
    out.append(('community [ 65000:1 65000:2 ]', True, lambda a: a.get(8) == _be(65000, 2) + _be(1, 2) + _be(65000, 2) + _be(2, 2)))
    out.append(('community no-export', True, lambda a: a.get(8) == bytes.fromhex('ffffff01')))
    out.append(('community 0x100000000', False, None))
    for a, b, c in ((1, 2, 3), (4294967295, 4294967295, 4294967295), (4294967296, 1, 1), (1, 1, 4294967296)):
        ok = max(a, b, c) <= 0xFFFFFFFF
        out.append((f'large-community {a}:{b}:{c}', ok, lambda at, a=a, b=b, c=c: at.get(32) == _be(a, 4) + _be(b, 4) + _be(c, 4)))
    for asn in (1, 65535, 65536, 4200000001, 4294967295, 4294967296):
        out.append((f'as-path [ {asn} ]', asn <= 0xFFFFFFFF, ('as-path', asn)))
    # segments: sequence [ ], set ( ); RFC 6793 4.2.2: towards a 2-byte peer every AS above 65535 becomes AS_TRANS in
    # AS_PATH and AS4_PATH carries the path as written whenever there is one, in whatever segment it sits
    big, big2 = 4200000002, 4200000003
    for segs in (
        [(2, [64500, 64501])],
        [(2, [64500, big])],
        [(2, [64500, 64501]), (1, [big, big2])],
        [(1, [65536])],
        [(1, [64500, 64501])],
        [(2, [big]), (1, [64500])],
        [(2, [64500]), (1, [64501, big]), (2, [big2])],
    ):
        text = ' '.join(('[ %s ]' if t == 2 else '( %s )') % ' '.join(str(a) for a in asns) for t, asns in segs)
        out.append((f'as-path {text}', True, ('as-path-segments', segs)))
    out.append(('origin igp', True, lambda a: a.get(1) == b'\x00'))
    out.append(('origin bogus', False, None))
    out.append(('originator-id 1.2.3.4', True, lambda a: a.get(9) == socket.inet_aton('1.2.3.4')))
    out.append(('aggregator ( 65000:1.2.3.4 )', True, None))
    out.append(('aggregator ( 4200000001:1.2.3.4 )', True, None))
    return out


SESSIONS = ('ebgp4', 'ibgp4', 'ebgp2', 'ibgp2')


def one_case(fragment, should_accept, checker):
    text = f'route 10.0.0.0/24 next-hop 192.0.2.1 {fragment}'
    inp = {'text': text}
    try:
        routes = parse(text)
    except Exception as e:  # noqa
        return {'what': f'route text answered with an unhandled {type(e).__name__}: {str(e)[:120]} (must be refused with an error message or accepted)', 'input': inp}
    if not routes:
        if should_accept:
            return {'what': 'a value the wire format can hold was refused', 'input': inp}
        return None
    if not should_accept:
        # accepted although the wire format cannot hold the value: it must not be wrapped / truncated -- check what goes out
        pass
    from exabgp.bgp.message.update.collection import UpdateCollection, RoutedNLRI

    r = routes[0]
    for kind in SESSIONS:
        nb, neg = H.session(kind)
        try:
            u = UpdateCollection([RoutedNLRI(r.nlri, r.nexthop)], [], r.attributes)
            msgs = [bytes(m) for m in u.messages(neg)]
        except Exception as e:  # noqa
            return {'what': f'accepted text cannot be encoded for a {kind} session: {type(e).__name__}: {str(e)[:120]}', 'input': inp, 'session': kind}
        if not msgs:
            return {'what': f'accepted text produces no UPDATE on a {kind} session', 'input': inp}
        try:
            d = decode_update(msgs[0], (lambda a, s: neg.addpath.send(a, s)))
        except Exception as e:  # noqa
            return {'what': f'the UPDATE sent for accepted text does not parse: {e}', 'input': inp, 'session': kind}
        attrs = {t: v for _, t, v in d['attributes']}
        if not should_accept:
            return {'what': 'a value the wire format cannot hold was accepted (and is sent wrapped or truncated)', 'input': inp, 'sent_attributes': {str(k): v.hex() for k, v in attrs.items()}, 'nlri': str(d['nlri'])}
        if isinstance(checker, tuple) and checker[0] == 'local-preference':
            # RFC 4271 5.1.5: LOCAL_PREF travels on iBGP only; on eBGP it is not sent at all, even when configured
            if kind.startswith('ibgp'):
                if attrs.get(5) != _be(checker[1], 4):
                    return {'what': f'local-preference {checker[1]} is not carried as written on a {kind} session', 'input': inp}
            elif 5 in attrs:
                return {'what': f'LOCAL_PREF sent on an eBGP session ({kind})', 'input': inp}
        elif isinstance(checker, tuple) and checker[0] == 'as-path':
            asn = checker[1]
            asn4 = kind.endswith('4')
            own = []  # the operator gave the path: it is sent as written, nothing is prepended
            width = 4 if asn4 else 2
            seg = attrs.get(2, b'')
            got = [int.from_bytes(seg[2 + i * width : 2 + (i + 1) * width], 'big') for i in range(seg[1])] if seg else []
            want = own + [asn if (asn4 or asn < 65536) else 23456]
            if got != want:
                return {'what': f'as-path written {asn} is sent as {got} on a {kind} session (expected {want})', 'input': inp}
            if not asn4 and asn >= 65536:
                seg4 = attrs.get(17, b'')
                got4 = [int.from_bytes(seg4[2 + i * 4 : 6 + i * 4], 'big') for i in range(seg4[1])] if seg4 else []
                if asn not in got4:
                    return {'what': f'a 4-byte AS number sent to a 2-byte peer without AS4_PATH carrying {asn} (got {got4})', 'input': inp}
        elif isinstance(checker, tuple) and checker[0] == 'as-path-segments':
            segs = checker[1]
            asn4 = kind.endswith('4')

            def read(raw, width):
                got, i = [], 0
                while i + 2 <= len(raw):
                    t, n = raw[i], raw[i + 1]
                    got.append((t, [int.from_bytes(raw[i + 2 + k * width : i + 2 + (k + 1) * width], 'big') for k in range(n)]))
                    i += 2 + n * width
                return got

            got = read(attrs.get(2, b''), 4 if asn4 else 2)
            want = [(t, [a if (asn4 or a < 65536) else 23456 for a in asns]) for t, asns in segs]
            if got != want:
                return {'what': f'as-path written {segs} is sent as AS_PATH {got} on a {kind} session (expected {want})', 'input': inp}
            if not asn4 and any(a >= 65536 for _, asns in segs for a in asns):
                got4 = read(attrs.get(17, b''), 4)
                if got4 != [(t, list(asns)) for t, asns in segs]:
                    return {'what': f'4-byte AS numbers sent to a 2-byte peer as AS_TRANS, and AS4_PATH carries {got4} instead of the path as written {segs} (RFC 6793 4.2.2): the numbers are lost', 'input': inp}
        elif checker is not None and not checker(attrs):
            return {'what': f'the value sent on a {kind} session is not the value written', 'input': inp, 'sent_attributes': {str(k): v.hex() for k, v in attrs.items()}}
    return None


@bounded('C18', 'boundary-values')
def boundary_values(tier, seed):
    fails, evals, distinct, samples = [], 0, set(), []
    for fragment, ok, checker in cases():
        evals += 1
        distinct.add(fragment)
        f = one_case(fragment, ok, checker)
        if f:
            fails.append(f)
        if len(samples) < 3:
            samples.append({'text': f'route 10.0.0.0/24 next-hop 192.0.2.1 {fragment}', 'must_be_accepted': ok})
    return {'evaluations': evals, 'distinct_nontrivial': len(distinct), 'bound': 'attribute keywords med / local-preference / path-information / community / large-community / as-path / origin / originator-id / aggregator with values at and beyond each numeric boundary (2^16, 2^32, 2^64), each accepted text encoded for 4 session kinds (iBGP/eBGP x 2-/4-byte AS)', 'rule': 'one case = one route text; distinct by text', 'samples': samples, 'failures': fails}


@replayer('C18', 'boundary-values')
def _replay(f):
    frag = f['input']['text'].split(' next-hop 192.0.2.1 ', 1)[1]
    for fragment, ok, checker in cases():
        if fragment == frag:
            return one_case(fragment, ok, checker) is None
    return True


# ---------------------------------------------------------------------------------------------------------------------
# api-and-file: the same definitions through the REAL API command handlers (real ASYNC scheduler, recording reactor stub)
# and through a configuration file; accepted => encodable for every session kind and message size, values as written;
# refused => exactly one error reply and nothing announced / a located error; and the outcome of a command does not
# depend on the command parsed before it by the same API object.
# ---------------------------------------------------------------------------------------------------------------------
import asyncio
import re


class _Processes:
    def __init__(self):
        self.replies = []

    def get_sync(self, service):
        return False

    async def answer_error(self, service, message=''):
        self.replies.append('error')

    async def answer_done(self, service):
        self.replies.append('done')

    def answer_error_sync(self, service, message=''):
        # what Reactor wires as ASYNC error handler: an exception escaping the callback is answered with an error
        self.replies.append('error')


class _Store:
    def __init__(self):
        self.routes = []

    def announce_route(self, peers, route):
        self.routes.append(route)
        return True


class _Reactor:
    def __init__(self):
        from exabgp.reactor.asynchronous import ASYNC

        self.processes = _Processes()
        self.asynchronous = ASYNC()
        self.asynchronous.set_error_handler(self.processes.answer_error_sync)
        self.configuration = _Store()
        self._peers = {}


_api = []


def api_object(fresh=False):
    from exabgp.reactor.api import API

    if fresh or not _api:
        _api[:] = [API(None)]
    return _api[0]


HANDLER = {'route': 'announce_route', 'flow': 'announce_flow', 'vpls': 'announce_vpls', 'attributes': 'announce_attributes', 'ipv4': 'announce_ipv4', 'ipv6': 'announce_ipv6'}


def run_api(api, text):
    """-> (replies, routes); an exception escaping the handler or the scheduler is returned as ('EXC', ...)"""
    from exabgp.reactor.api.command import announce as A

    kind = text.split()[1]
    re_ = _Reactor()
    try:
        getattr(A, HANDLER[kind])(api, re_, 'svc', [], text, False)
        for _ in range(20):
            if not re_.asynchronous.run():
                break
    except Exception as e:  # noqa
        return ['EXC %s: %s' % (type(e).__name__, str(e)[:100])], []
    finally:
        try:
            asyncio.set_event_loop(asyncio.new_event_loop())
        except Exception:  # noqa
            pass
    return re_.processes.replies, re_.configuration.routes


_sessions = {}


def sessions():
    if not _sessions:
        for kind in SESSIONS:
            _sessions[kind] = H.session(kind)
    return _sessions


def encode_everywhere(route, text, own_decoder=False):
    """-> (failure or None, {session: [decoded updates]})"""
    from exabgp.bgp.message.update.collection import UpdateCollection, RoutedNLRI

    out = {}
    for kind, (nb, neg) in sessions().items():
        fam = (route.nlri.afi, route.nlri.safi)
        saved_f, saved_s = neg.families, neg.msg_size
        r = route
        try:
            if own_decoder:
                # what Configuration.announce_route does before the route reaches a RIB
                try:
                    r = nb.resolve_self(route)
                except Exception as e:  # noqa
                    return {'what': f'accepted definition cannot be resolved for a {kind} session: {type(e).__name__}: {str(e)[:140]}', 'input': {'text': text}, 'session': kind}, out
            if fam not in neg.families:
                neg.families = list(neg.families) + [fam]
            for size in (4096, 65535):
                neg.msg_size = size
                try:
                    msgs = [bytes(m) for m in UpdateCollection([RoutedNLRI(r.nlri, r.nexthop)], [], r.attributes).messages(neg)]
                except Exception as e:  # noqa
                    return {'what': f'accepted definition cannot be encoded for a {kind} session (message size {size}): {type(e).__name__}: {str(e)[:120]}', 'input': {'text': text}, 'session': kind}, out
                if not msgs:
                    return {'what': f'accepted definition produces no UPDATE on a {kind} session', 'input': {'text': text}}, out
                try:
                    out[kind] = [decode_update(m, (lambda a, s: False)) for m in msgs]
                except Exception as e:  # noqa
                    return {'what': f'the UPDATE sent for an accepted definition does not parse: {type(e).__name__} {e}', 'input': {'text': text}, 'session': kind}, out
                if own_decoder:
                    # "can be sent": what ExaBGP sends for an accepted definition is not something ExaBGP itself
                    # would answer with a NOTIFICATION
                    from exabgp.bgp.message.update import Update

                    for m in msgs:
                        try:
                            Update.unpack_message(m[19:], neg).parse(neg)
                        except Exception as e:  # noqa
                            return {'what': f'the UPDATE sent for an accepted definition on a {kind} session is refused by the decoder of this very code: {type(e).__name__}: {str(e)[:140]}', 'input': {'text': text}, 'session': kind}, out
        finally:
            neg.families, neg.msg_size = saved_f, saved_s
    return None, out


def _labels_on_wire(written):
    def chk(dec):
        for kind, ups in dec.items():
            got = [e[1] for u in ups for (_a, _s, _nh, entries) in u['mp_reach'] for e in entries]
            if got != [tuple(written)]:
                return f'label stack written {written} is sent as {got} on a {kind} session'
        return None

    return chk


def _attr_on_wire(code, value):
    def chk(dec):
        for kind, ups in dec.items():
            got = [v for u in ups for (_f, t, v) in u['attributes'] if t == code]
            if not got or any(g != value for g in got):
                return f'attribute {code} written as {value.hex()} is sent as {[g.hex() for g in got]} on a {kind} session'
        return None

    return chk


def _vpls_on_wire(endpoint, base, offset, size):
    want = _be(endpoint, 2) + _be(offset, 2) + _be(size, 2) + _be((base << 4) | 1, 3)

    def chk(dec):
        for kind, ups in dec.items():
            vals = [v for u in ups for (_f, t, v) in u['attributes'] if t == 14]
            if not vals or not all(v.endswith(want) for v in vals):
                return f'vpls endpoint/offset/size/base written {endpoint}/{offset}/{size}/{base} not on the wire of a {kind} session ({[v.hex() for v in vals]})'
        return None

    return chk


def _flow_on_wire(component_bytes):
    def chk(dec):
        for kind, ups in dec.items():
            vals = [v for u in ups for (_f, t, v) in u['attributes'] if t == 14]
            if not vals or not all(component_bytes in v for v in vals):
                return f'flow component {component_bytes.hex()} not on the wire of a {kind} session ({[v.hex() for v in vals]})'
        return None

    return chk


R4 = 'announce route 10.0.0.0/24 next-hop 192.0.2.1'


def api_cases():
    """(api text, must be accepted? (None: either, but consistently), wire checker or None)"""
    c = []
    # completeness of the definition: next-hop / label / rd
    c.append((R4, True, None))
    c.append(('announce route 10.0.0.0/24 med 3', False, None))
    c.append(('announce route 224.1.0.0/24 next-hop 192.0.2.1 med 3', True, None))
    c.append(('announce route 224.1.0.0/24 med 3', False, None))
    c.append(('announce route 239.1.2.0/24 community 65000:1', False, None))
    c.append(('announce route 2001:db8::/32 next-hop 2001:db8::1', True, None))
    c.append(('announce route 2001:db8::/32', False, None))
    c.append(('announce route 10.0.0.0/24 label 5', False, None))
    c.append((R4 + ' rd 65000:1', False, None))
    c.append(('announce attributes next-hop 192.0.2.1 med 4294967295 nlri 10.0.0.0/24 10.0.1.0/24', True, _attr_on_wire(4, _be(4294967295, 4))))
    c.append(('announce attributes next-hop 192.0.2.1 med 4294967296 nlri 10.0.0.0/24', False, None))
    c.append(('announce attributes med 5 nlri 10.0.0.0/24', False, None))
    c.append(('announce attributes next-hop 192.0.2.1 nlri 10.0.0.0/24 10.0.1.0/33', False, None))
    c.append(('announce ipv4 unicast 10.0.0.0/24 next-hop 192.0.2.1', True, None))
    c.append(('announce ipv4 unicast 10.0.0.0/24', False, None))
    c.append(('announce ipv4 nlri-mpls 10.0.0.0/24 next-hop 192.0.2.1', False, None))
    c.append(('announce ipv4 nlri-mpls 10.0.0.0/24 label 7', False, None))
    c.append(('announce ipv4 mpls-vpn 10.0.0.0/24 next-hop 192.0.2.1 label 5', False, None))
    c.append(('announce ipv4 mpls-vpn 10.0.0.0/24 next-hop 192.0.2.1 rd 65000:1 label 5', True, _labels_on_wire([5])))
    c.append(('announce ipv6 unicast 2001:db8::/32 next-hop 2001:db8::1', True, None))
    c.append(('announce ipv6 unicast 2001:db8::/32', False, None))
    c.append(('announce ipv6 mpls-vpn 2001:db8::/32 next-hop 2001:db8::1 rd 1.2.3.4:5 label 1048575', True, _labels_on_wire([1048575])))
    # labels: 20 bits
    for v in (0, 16, 1048575, 1048576, 1048577, 16777216):
        c.append((f'{R4} label {v}', v < (1 << 20), _labels_on_wire([v])))
        c.append((f'announce ipv4 nlri-mpls 10.0.0.0/24 next-hop 192.0.2.1 label {v}', v < (1 << 20), _labels_on_wire([v])))
    c.append((f'{R4} label [ 100 1048575 ]', True, _labels_on_wire([100, 1048575])))
    c.append((f'{R4} label [ 100 1048576 ]', False, None))
    c.append((f'{R4} label -1', False, None))
    c.append((f'{R4} label abc', False, None))
    # route distinguishers
    for rd, ok in (('65000:1', True), ('65535:4294967295', True), ('65536:65535', True), ('65536:65536', False), ('65535:4294967296', False), ('4294967296:1', False), ('1.2.3.4:65535', True), ('1.2.3.4:65536', False)):
        c.append((f'{R4} label 100 rd {rd}', ok, None))
    # prefixes
    for p, ok in (('10.0.0.0/32', True), ('10.0.0.0/33', False), ('10.0.0.0/-1', False), ('10.0.0.256/24', False)):
        c.append((f'announce route {p} next-hop 192.0.2.1', ok, None))
    c.append(('announce route 2001:db8::/128 next-hop 2001:db8::1', True, None))
    c.append(('announce route 2001:db8::/129 next-hop 2001:db8::1', False, None))
    c.append((f'{R4} split /33', False, None))
    # generic attribute, extended communities, prefix-sid, aigp, aggregator
    c.append((f'{R4} attribute [ 0xff 0xc0 0x0102 ]', True, _attr_on_wire(255, b'\x01\x02')))
    c.append((f'{R4} attribute [ 0x100 0xc0 0x0102 ]', False, None))
    c.append((f'{R4} attribute [ 0x99 0x1c0 0x0102 ]', False, None))
    c.append((f'{R4} attribute [ 0x99 0xc0 0x010 ]', False, None))
    c.append((f'{R4} extended-community [ 0x0002FDE800000001 ]', True, _attr_on_wire(16, bytes.fromhex('0002FDE800000001'))))
    c.append((f'{R4} extended-community [ 0x0002FDE80000000100 ]', False, None))
    c.append((f'{R4} extended-community [ 0x0002FDE8000001 ]', False, None))
    c.append((f'{R4} extended-community [ target:65000:4294967295 ]', True, _attr_on_wire(16, bytes.fromhex('0002fde8ffffffff'))))
    c.append((f'{R4} extended-community [ target:65000:4294967296 ]', False, None))
    # the last 2-octet AS: still the two-octet-AS-specific type, with its 4 octets of local administrator
    c.append((f'{R4} extended-community [ target:65535:4294967295 ]', True, _attr_on_wire(16, bytes.fromhex('0002ffffffffffff'))))
    c.append((f'{R4} extended-community [ target:65535:1 ]', True, _attr_on_wire(16, bytes.fromhex('0002ffff00000001'))))
    c.append((f'{R4} extended-community [ origin:65535:100000 ]', True, _attr_on_wire(16, bytes.fromhex('0003ffff000186a0'))))
    c.append((f'{R4} extended-community [ target:65536:65535 ]', True, _attr_on_wire(16, bytes.fromhex('020200010000ffff'))))
    c.append((f'{R4} extended-community [ target:65536:65536 ]', False, None))
    c.append((f'{R4} extended-community [ target:4294967296:1 ]', False, None))
    c.append((f'{R4} extended-community [ origin:1.2.3.4:65535 ]', True, _attr_on_wire(16, bytes.fromhex('010301020304ffff'))))
    c.append((f'{R4} extended-community [ origin:1.2.3.4:65536 ]', False, None))
    c.append((f'{R4} bgp-prefix-sid [ 4294967295, [ ( 800000,4096 ) ] ]', True, _attr_on_wire(40, bytes.fromhex('010007000000ffffffff03000800000c3500001000'))))
    c.append((f'{R4} bgp-prefix-sid [ 4294967296, [ ( 800000,4096 ) ] ]', False, None))
    c.append((f'{R4} bgp-prefix-sid [ 1, [ ( 16777216,4096 ) ] ]', False, None))
    c.append((f'{R4} bgp-prefix-sid [ 1, [ ( 800000,16777216 ) ] ]', False, None))
    c.append((f'{R4} aigp 18446744073709551616', False, None))
    c.append((f'{R4} aggregator ( 4294967296:1.2.3.4 )', False, None))
    c.append((f'{R4} cluster-list 1.2.3.400', False, None))
    c.append((f'{R4} originator-id 1.2.3.400', False, None))
    c.append(('announce route 10.9.0.0/24 { next-hop 192.0.2.1 ; med 4294967296 ; }', False, None))
    c.append(('announce route 10.9.0.0/24 { next-hop 192.0.2.1 ; med 7 ; }', True, _attr_on_wire(4, _be(7, 4))))
    # flow components: the widest value each can encode
    F = 'announce flow route { match { destination 10.0.0.0/24; %s; } then { discard; } }'
    F6 = 'announce flow route { match { source 2001:db8::/32; %s; } then { discard; } }'
    for comp, typ, width in (('protocol', 3, 1), ('icmp-type', 7, 1), ('icmp-code', 8, 1), ('destination-port', 5, 2), ('source-port', 6, 2), ('port', 4, 2), ('packet-length', 10, 2)):
        top = (1 << (8 * width)) - 1
        c.append((F % f'{comp} ={top}', True, _flow_on_wire(bytes([typ, 0x81 | (0x10 if width == 2 else 0)]) + _be(top, width))))
        c.append((F % f'{comp} ={top + 1}', False, None))
    c.append((F % 'dscp =63', True, _flow_on_wire(bytes([11, 0x81, 63]))))
    c.append((F % 'dscp =64', False, None))
    c.append((F6 % 'next-header =255', True, _flow_on_wire(bytes([3, 0x81, 255]))))
    c.append((F6 % 'next-header =256', False, None))
    c.append((F6 % 'flow-label =1048575', True, _flow_on_wire(bytes([13, 0xA1]) + _be(1048575, 4))))
    c.append((F6 % 'flow-label =1048576', False, None))
    c.append(('announce flow route { match { destination 10.0.0.0/33; } then { discard; } }', False, None))
    c.append(('announce flow route { match { destination 10.0.0.0/24; } then { redirect 65000:4294967295; } }', True, _attr_on_wire(16, bytes.fromhex('8008fde8ffffffff'))))
    c.append(('announce flow route { match { destination 10.0.0.0/24; } then { redirect 65000:4294967296; } }', False, None))
    c.append(('announce flow route { match { destination 10.0.0.0/24; } then { redirect 65536:65536; } }', False, None))
    c.append(('announce flow route { match { destination 10.0.0.0/24; } then { mark 63; } }', True, _attr_on_wire(16, bytes.fromhex('800900000000003f'))))
    c.append(('announce flow route { match { destination 10.0.0.0/24; } then { mark 64; } }', False, None))
    c.append(('announce flow route { rd 65536:65536; match { destination 10.0.0.0/24; } then { discard; } }', False, None))
    # vpls: endpoint / offset / size 16 bits, label base 20 bits and base + size within 20 bits
    V = 'announce vpls rd 65000:1 endpoint %d base %d offset %d size %d next-hop 192.0.2.1'
    for e, b, o, s, ok in ((5, 10702, 1, 8, True), (65535, 1000, 65535, 65535, True), (65536, 100, 1, 8, False), (1, 100, 65536, 8, False), (1, 100, 1, 65536, False), (5, 65536, 1, 8, True), (5, 1048567, 1, 8, True), (5, 1048576, 1, 8, False)):
        c.append((V % (e, b, o, s), ok, _vpls_on_wire(e, b, o, s) if ok else None))
    c.append(('announce vpls rd 65000:1 endpoint 1 base 100 offset 1 size 8', False, None))
    c.append(('announce vpls endpoint 1 base 100 offset 1 size 8 next-hop 192.0.2.1', False, None))
    return c


def outcome(api, text):
    """-> (failure or None, summary) for one command on the given API object"""
    replies, routes = run_api(api, text)
    if replies not in (['done'], ['error']):
        return {'what': f'the command is not answered with exactly one done / error reply: {replies}', 'input': {'text': text}}, ('?', ())
    if replies == ['error']:
        if routes:
            return {'what': f'error reply but {len(routes)} route(s) were handed to the RIB', 'input': {'text': text}}, ('error', ())
        return None, ('error', ())
    if not routes:
        return {'what': 'done reply but no route was handed to the RIB', 'input': {'text': text}}, ('done', ())
    return None, ('done', tuple(sorted(r.extensive() for r in routes))), routes


DIRECT = {'route': 'api_route', 'flow': 'api_flow', 'vpls': 'api_vpls', 'ipv4': 'api_announce_v4', 'ipv6': 'api_announce_v6'}


def direct_entry(text):
    """the entry points the property names (API.api_route / api_flow / api_vpls, Configuration.parse_route_text) called
    directly: refusal is an empty list with configuration.error set, never an exception (the handlers above only look
    clean because the scheduler's error handler answers for whatever escapes)"""
    from exabgp.reactor.api import API

    kind = text.split()[1]
    body = text.split(' ', 1)[1]
    name = DIRECT.get(kind)
    if name is None:
        return None
    calls = [(f'API.{name}', lambda: getattr(API(None), name)(body, 'announce'))]
    if kind == 'route':
        calls.append(('Configuration.parse_route_text', lambda: API(None).configuration.parse_route_text(body, 'announce')))
    for label, fn in calls:
        try:
            fn()
        except Exception as e:  # noqa
            return {'what': f'{label} answered the text with an unhandled {type(e).__name__}: {str(e)[:120]} (must be refused with an error message or accepted)', 'input': {'text': text}}
    return None


def api_case(text, must, checker, api=None):
    f0 = direct_entry(text)
    if f0:
        return f0
    res = outcome(api or api_object(), text)
    fail, summ = res[0], res[1]
    if fail:
        return fail
    if summ[0] == 'error':
        if must is True:
            return {'what': 'a definition whose values the wire format can hold was refused', 'input': {'text': text}}
        return None
    routes = res[2]
    decs = {}
    for r in routes:
        f, dec = encode_everywhere(r, text, own_decoder=True)
        if f:
            return f
        for k, v in dec.items():
            decs.setdefault(k, []).extend(v)
    if must is False:
        return {'what': 'a definition the wire format cannot hold (or which lacks a mandatory part) was accepted', 'input': {'text': text}, 'routes': list(summ[1])}
    if checker is not None:
        # one route per checker case (the checker sees all UPDATEs of all the routes of the command)
        msg = checker(decs)
        if msg:
            return {'what': 'accepted, but the value sent is not the value written: ' + msg, 'input': {'text': text}}
    return None


def to_conf(text):
    """the same definition as a configuration-file fragment, None when the form has no file equivalent handled here"""
    kind = text.split()[1]
    body = text.split(' ', 1)[1]
    if kind == 'route':
        return 'static { %s; }' % body if not body.rstrip().endswith('}') else 'static { %s }' % body
    if kind == 'flow':
        m = re.match(r'flow route \{(.*)\}\s*$', body)
        return 'flow { route probe {%s} }' % m.group(1) if m else None
    if kind == 'vpls':
        toks = body.split()[1:]
        return 'l2vpn { vpls probe { %s } }' % ' '.join(f'{toks[i]} {toks[i + 1]};' for i in range(0, len(toks) - 1, 2))
    return None


CONF = """neighbor 127.0.0.1 {
 router-id 192.0.2.9; local-address 127.0.0.1; local-as 65000; peer-as 65001;
 family { ipv4 unicast; ipv4 multicast; ipv4 nlri-mpls; ipv4 mpls-vpn; ipv4 flow; ipv4 flow-vpn; ipv6 unicast; ipv6 flow; ipv6 mpls-vpn; l2vpn vpls; }
 %s
}
"""


def file_case(text, must, checker):
    from exabgp.configuration.configuration import Configuration

    frag = to_conf(text)
    if frag is None:
        return None
    conf = CONF % frag
    inp = {'text': text, 'configuration': frag}
    c = Configuration([conf], text=True)
    try:
        ok = c.reload()
    except Exception as e:  # noqa
        return {'what': f'configuration answered with an unhandled {type(e).__name__}: {str(e)[:120]}', 'input': inp}
    if not ok:
        if must is True:
            return {'what': 'a configuration whose values the wire format can hold was refused: ' + str(c.error).replace('\n', ' | ')[:160], 'input': inp}
        if not str(c.error).strip():
            return {'what': 'configuration refused without an error message', 'input': inp}
        return None
    routes = [r for nb in c.neighbors.values() for r in nb.routes]
    if not routes:
        return {'what': 'configuration accepted but the definition produced no route', 'input': inp}
    decs, seen = {}, set()
    for r in routes:
        if r.extensive() in seen:
            continue  # the flow / vpls sections list their route twice in neighbor.routes: look at one of each
        seen.add(r.extensive())
        f, dec = encode_everywhere(r, text, own_decoder=True)
        if f:
            f['input'] = inp
            return f
        for k, v in dec.items():
            decs.setdefault(k, []).extend(v)
    if must is False:
        return {'what': 'a configuration the wire format cannot hold (or which lacks a mandatory part) was accepted', 'input': inp}
    if checker is not None:
        msg = checker(decs)
        if msg:
            return {'what': 'accepted, but the value sent is not the value written: ' + msg, 'input': inp}
    return None


def history_case(first, second):
    """the outcome of `second` after `first` on one API object == the outcome of `second` on a fresh API object"""
    alone = outcome(api_object(fresh=True), second)
    api = api_object(fresh=True)
    outcome(api, first)
    after = outcome(api, second)
    api_object(fresh=True)
    if alone[1] != after[1] or (alone[0] is None) != (after[0] is None):
        return {'what': f'the outcome of a command depends on the command before it: alone {alone[1]}, after the other {after[1]}', 'input': {'first': first, 'text': second}}
    return None


def history_pairs(tier):
    cs = [t for t, _m, _c in api_cases()]
    firsts = [t for t in cs if '{' in t or 'attribute' in t or 'label' in t][:: (1 if tier == 'thorough' else 3)]
    firsts += ['announce route 10.9.0.0/24 { next-hop 192.0.2.1 ; med 4294967296 ; }', 'announce route 10.9.0.0/24 { next-hop 192.0.2.1 ; med 7 ; }']
    # a rule whose first action is followed by others: an action object shared between rules would carry them over
    firsts += ['announce flow route { match { destination 10.1.0.0/24; } then { discard; mark 5; extended-community [ target:65000:9 ]; } }', 'announce flow route { match { destination 10.1.0.0/24; } then { redirect 65000:1; mark 5; } }', 'announce flow route { match { destination 10.1.0.0/24; } then { rate-limit 9600; community [ 65000:9 ]; } }']
    seconds = ['announce flow route { match { destination 10.2.0.0/24; } then { redirect 65000:1; } }', 'announce flow route { match { destination 10.2.0.0/24; } then { rate-limit 9600; } }', R4, 'announce route 10.1.0.0/24 next-hop 192.0.2.1 med 5', 'announce attributes next-hop 192.0.2.1 med 9 nlri 10.0.0.0/24', 'announce flow route { match { destination 10.0.0.0/24; } then { discard; } }', 'announce vpls rd 65000:1 endpoint 5 base 10702 offset 1 size 8 next-hop 192.0.2.1', 'announce route 10.0.0.0/24 med 3']
    if tier == 'thorough':
        firsts = cs
    seen = set()
    for a in firsts:
        for b in seconds:
            if (a, b) not in seen:
                seen.add((a, b))
                yield a, b


def extra_cases():
    """signs, brackets, families and sizes: (api text, must be accepted? (None: either), wire checker or None).  Every
    numeric field also below zero, every bracketed list also left open, a prefix of the other family than the command /
    the next hop / the other prefixes names, attribute and NLRI sizes beyond what their length fields hold"""
    c = []
    # below zero / beyond the field, in the value parsers which pack with struct
    for lc in ('-1:1:1', '1:-1:1', '1:1:-1', '4294967296:1:1'):
        c.append((f'{R4} large-community [ {lc} ]', False, None))
        c.append(('announce flow route { match { destination 10.0.0.0/24; } then { large-community [ %s ]; } }' % lc, False, None))
    c.append((f'{R4} large-community [ 4294967295:0:4294967295 ]', True, _attr_on_wire(32, bytes.fromhex('ffffffff00000000ffffffff'))))
    c.append((f'{R4} community [ -1:1 ]', False, None))
    c.append((f'{R4} community [ 1:-1 ]', False, None))
    c.append((f'{R4} med -1', False, None))
    c.append((f'{R4} local-preference -1', False, None))
    c.append((f'{R4} aigp -1', False, None))
    c.append((f'{R4} path-information -1', False, None))
    c.append((f'{R4} as-path [ -1 ]', False, None))
    c.append((f'{R4} aggregator ( -1:1.2.3.4 )', False, None))
    c.append((f'{R4} bgp-prefix-sid 300', None, None))
    c.append((f'{R4} bgp-prefix-sid [ 300 ]', None, None))
    for srgb in ('( -1,100 )', '( 100,-1 )', '( 16777215,16777215 )'):
        c.append((f'{R4} bgp-prefix-sid [ 300, [ {srgb} ] ]', False if '-' in srgb else True, None))
    c.append((f'{R4} bgp-prefix-sid [ -1, [ ( 800000,4096 ) ] ]', False, None))
    # an SRGB is ( base,range ): one number is not a value the TLV can hold, after a complete one either
    for srgbs in ('( 300 )', '( 100,200 ), ( 300 )', '( 100,200 ), ( ,300 )', '( 100,200 ), ( )', '( 100,200 ), ( 300, )'):
        c.append((f'{R4} bgp-prefix-sid [ 5, [ {srgbs} ] ]', False, None))
    c.append((f'{R4} bgp-prefix-sid [ 5, [ ( 100,200 ), ( 300,400 ) ] ]', True, _attr_on_wire(40, bytes.fromhex('01000700000000000005' '03000e0000' '0000640000c8' '00012c000190'))))
    S6 = 'announce route 2001:db8::/32 next-hop 2001:db8::1 bgp-prefix-sid-srv6 ( l3-service 2001::1 %s )'
    for beh, ok in (('0x48', True), ('65535', True), ('70000', False), ('-1', False), ('0x48 [ 300,0,0,0,0,0 ]', False), ('0x48 [ 40,24,16,0,255,0 ]', True), ('0x48 [ 40,24,16,0,256,0 ]', False), ('0x48 [ 40,24,16,0,-1,0 ]', False)):
        c.append((S6 % beh, ok, None))
    c.append((f'{R4} extended-community [ redirect-to-nexthop:1:1 ]', None, None))
    c.append((f'{R4} extended-community [ target:-1:1 ]', False, None))
    c.append((f'{R4} extended-community [ target:65000:-1 ]', False, None))
    c.append((f'{R4} extended-community [ origin:1.2.3.4:-1 ]', False, None))
    FT = 'announce flow route { match { destination 10.0.0.0/24; } then { %s; } }'
    for act in ('redirect 65000:-1', 'redirect 65536:-1', 'redirect -1:1', 'mark -1', 'rate-limit -1', 'rate-limit ' + '1' + '0' * 40 + ' packets', 'rate-limit ' + '1' + '0' * 40):
        c.append((FT % act, False, None))
    c.append((FT % 'rate-limit 2000000000000', None, _attr_on_wire(16, bytes.fromhex('80060000') + struct.pack('!f', 2000000000000))))
    c.append((FT % 'rate-limit 1000000000000', True, _attr_on_wire(16, bytes.fromhex('80060000') + struct.pack('!f', 1000000000000))))
    c.append((FT % 'rate-limit 9600', True, _attr_on_wire(16, bytes.fromhex('80060000') + struct.pack('!f', 9600))))
    FM = 'announce flow route { match { destination 10.0.0.0/24; %s; } then { discard; } }'
    for comp in ('port =-1', 'protocol =-1', 'packet-length =-1', 'dscp =-1', 'icmp-type =-1'):
        c.append((FM % comp, False, None))
    V = 'announce vpls rd 65000:1 endpoint %d base %d offset %d size %d next-hop 192.0.2.1'
    for args in ((-1, 100, 1, 8), (1, -100, 1, 8), (1, 100, -1, 8), (1, 100, 1, -8)):
        c.append((V % args, False, None))
    # a list left open: refused, and answered at all
    for tail in ('bgp-prefix-sid [ 300', 'bgp-prefix-sid [ 300, [ ( 1,2', 'community [ 1:1', 'large-community [ 1:1:1', 'extended-community [ target:1:1', 'as-path [ 1 2', 'as-path [ 1 ( 2', 'label [ 100', 'attribute [ 0x99 0xc0 0x01', 'aggregator ( 65000:1.2.3.4', 'cluster-list [ 1.2.3.4', 'bgp-prefix-sid-srv6 ( l3-service 2001::1 0x48 [ 40,24', 'bgp-prefix-sid-srv6 ( l3-service 2001::1'):
        c.append((f'{R4} {tail}', False, None))
    c.append(('announce flow route { match { destination 10.0.0.0/24; port [ =1 =2; } then { discard; } }', False, None))
    # the family the command names, the family of the prefix, the family of the next hop
    c.append(('announce ipv4 unicast 2001:db8::/64 next-hop 192.0.2.1', False, None))
    c.append(('announce ipv6 unicast 10.0.0.0/24 next-hop 192.0.2.1', False, None))
    c.append(('announce ipv6 unicast 10.0.0.0/24 next-hop 2001:db8::1', False, None))
    c.append(('announce ipv4 mpls-vpn 2001:db8::/64 next-hop 192.0.2.1 rd 65000:1 label 5', False, None))
    c.append(('announce ipv6 mpls-vpn 10.0.0.0/24 next-hop 2001:db8::1 rd 65000:1 label 5', False, None))
    # (an IPv6 prefix with an IPv4 next hop is not in the list: `nexthop { ipv6 unicast ipv4; }` makes it a session matter)
    c.append(('announce attributes next-hop 192.0.2.1 nlri 2001:db8::/64 10.2.0.0/24', None, _prefixes_on_wire(['2001:db8::/64', '10.2.0.0/24'])))
    c.append(('announce attributes next-hop 192.0.2.1 nlri 10.2.0.0/24 2001:db8::/64', None, _prefixes_on_wire(['10.2.0.0/24', '2001:db8::/64'])))
    c.append(('announce attributes next-hop 192.0.2.1 nlri 10.2.0.0/24 10.3.0.0/16', True, _prefixes_on_wire(['10.2.0.0/24', '10.3.0.0/16'])))
    c.append(('announce ipv4 mup mup-isd 10.0.1.0/32 rd 100:100 next-hop 2001::1', None, None))
    c.append(('announce ipv4 mup mup-isd 10.0.1.0/33 rd 100:100 next-hop 2001::1', False, None))
    c.append(('announce ipv6 mup mup-isd 2001::/129 rd 100:100 next-hop 2001::2', False, None))
    c.append(('announce flow route { match { source 10.4.4.4/32; destination 2001:db8::/64; } then { discard; } }', False, None))
    c.append(('announce flow route { match { destination 2001:db8::/64; source 10.4.4.4/32; } then { discard; } }', False, None))
    # flow: the family of the command, of the prefixes and of the components agree, whatever the order of the words;
    # flow-vpn has a route distinguisher and plain flow has none; RFC 8956 3.1: offset < length
    FB = 'announce flow route { match { %s } then { discard; } }'
    for words in ('flow-label 5; destination 10.0.0.0/8;', 'destination 10.0.0.0/8; flow-label 5;', 'next-header tcp; destination 10.0.0.0/8;', 'destination 10.0.0.0/8; next-header tcp;', 'protocol tcp; destination 2001:db8::/32;', 'destination 2001:db8::/32; protocol tcp;', 'flow-label 5;', 'destination 2001:db8::/32/64;', 'source 2001:db8::/32/32;'):
        c.append((FB % words, False, None))
    for words in ('destination 2001:db8::/32; flow-label 5;', 'flow-label 5; destination 2001:db8::/32;', 'protocol tcp; destination 10.0.0.0/8;', 'destination 2001:db8::/64/32;', 'destination ::/0/0;'):
        c.append((FB % words, True, None))
    for text, ok in (('announce ipv4 flow-vpn destination 10.0.0.0/8 discard', False), ('announce ipv4 flow rd 65000:1 destination 10.0.0.0/8 discard', False), ('announce ipv4 flow-vpn rd 65000:1 destination 10.0.0.0/8 discard', True), ('announce ipv4 flow destination 10.0.0.0/8 discard', True), ('announce ipv4 flow destination 2001:db8::/32 discard', False), ('announce ipv6 flow destination 10.0.0.0/8 discard', False), ('announce ipv6 flow next-header tcp destination 10.0.0.0/8 discard', False), ('announce ipv6 flow next-header tcp destination 2001:db8::/32 discard', True), ('announce ipv4 flow protocol tcp destination 10.0.0.0/8 discard', True), ('announce ipv4 flow flow-label 5 destination 10.0.0.0/8 discard', False)):
        c.append((text, ok, None))
    # RFC 8956 section 6: redirect to a VRF named by an IPv6-address-specific route target: community 0x000d in attribute 25
    RT6 = bytes.fromhex('000d20010db8000000000000000000000001')
    c.append((FB.replace('discard', 'redirect "[2001:db8::1]:100"') % 'destination 10.0.0.0/8;', True, _attr_on_wire(25, RT6 + _be(100, 2))))
    c.append((FB.replace('discard', 'redirect "[2001:db8::1]:65535"') % 'destination 2001:db8::/32;', True, _attr_on_wire(25, RT6 + _be(65535, 2))))
    c.append((FB.replace('discard', 'redirect "[2001:db8::1]:65536"') % 'destination 2001:db8::/32;', False, None))
    c.append((FB.replace('discard', 'redirect "[2001:db8::g]:1"') % 'destination 2001:db8::/32;', False, None))
    # the block form parses its prefix outside the try of Section.parse; a prefix length which is not a number; a split
    # which would create millions of routes (the definition must be ANSWERED); split of nothing; mup prefixes of the other
    # family; a flow with no component at all
    for text, ok in (('announce route 1.2.3.256/32 { next-hop 192.0.2.1 ; }', False), ('announce route 10.0.0.1/24 { next-hop 192.0.2.1 ; }', False), ('announce route 10.0.0.0/24x next-hop 192.0.2.1', False), ('announce route 10.0.0.0/ next-hop 192.0.2.1', False), ('announce route 10.0.0.0/24/1 next-hop 192.0.2.1', False), ('announce route 0.0.0.0/0 next-hop 192.0.2.1 split /32', False), ('announce route ::/0 next-hop 2001:db8::1 split /128', False), ('announce route 10.0.0.0/8 { next-hop 192.0.2.1 ; split /30 ; }', False), ('announce route 10.0.0.0/16 next-hop 192.0.2.1 split /24', True), ('announce route 10.0.0.0/24 { next-hop 192.0.2.1 ; split /26 ; }', True), ('announce attributes med 5 split /24', None), ('announce attributes next-hop 192.0.2.1 med 5 split /25 nlri 10.0.0.0/24', None), ('announce ipv4 mup mup-isd 2001:db8::/64 rd 100:100 next-hop 2001::1', False), ('announce ipv6 mup mup-isd 10.0.1.0/24 rd 100:100 next-hop 2001::1', False), ('announce ipv4 mup mup-t1st 2001::/16 rd 100:100 teid 12345 qfi 9 endpoint 10.0.0.1 next-hop 10.0.0.2', False), ('announce ipv6 mup mup-t1st 192.168.0.2/32 rd 100:100 teid 12345 qfi 9 endpoint 2001::1 next-hop 10.0.0.2', False), ('announce flow route', False), ('announce flow route { then { discard; } }', False)):
        c.append((text, ok, None))
    c.append(('announce ipv4 multicast 224.0.0.0/24 next-hop 192.0.2.1', True, None))
    c.append(('announce ipv6 multicast ff0e::/64 next-hop 2001:db8::1', True, None))
    c.append(('announce vpls rd 65000:1 endpoint 5 base 10702 offset 1 size 8 next-hop self', None, None))
    c.append((f'announce route 10.0.0.0/24 next-hop self', True, None))
    # next-hop written twice: two values are written and one can be carried (the route kept the last, the attribute the first)
    for twice in ('next-hop 192.0.2.1 next-hop 192.0.2.2', 'next-hop self next-hop 192.0.2.1', 'next-hop 192.0.2.1 next-hop self'):
        c.append((f'announce route 10.0.0.0/24 {twice}', False, None))
        c.append((f'announce ipv4 unicast 10.0.0.0/24 {twice}', False, None))
        c.append(('announce route 10.0.0.0/24 { %s; }' % twice.replace(' next-hop', '; next-hop'), False, None))
    c.append(('announce ipv6 unicast 2001:db8::/32 next-hop 2001:db8::1 next-hop 2001:db8::2', False, None))
    c.append(('announce route 10.0.0.0/24 next-hop 192.0.2.1 next-hop 192.0.2.1', None, None))
    # every attribute keyword with a valid value, on the `announce <afi> <safi>` forms too (they share one schema)
    for head in ('announce ipv4 unicast 10.0.0.0/24 next-hop 192.0.2.1', 'announce ipv4 nlri-mpls 10.0.0.0/24 next-hop 192.0.2.1 label 5', 'announce ipv6 unicast 2001:db8::/32 next-hop 2001:db8::1', R4):
        c.append((f'{head} aigp 5', True, None))  # AIGP leaves only towards a neighbor configured for it
        c.append((f'{head} atomic-aggregate', True, _attr_on_wire(6, b'')))
        c.append((f'{head} originator-id 1.2.3.4', True, None))
        c.append((f'{head} cluster-list [ 1.2.3.4 5.6.7.8 ]', True, None))
        c.append((f'{head} attribute [ 0x99 0xc0 0x0102 ]', True, _attr_on_wire(0x99, b'\x01\x02')))
        c.append((f'{head} med 7', True, _attr_on_wire(4, _be(7, 4))))
        c.append((f'{head} community [ 65000:1 ]', True, _attr_on_wire(8, bytes.fromhex('fde80001'))))
        c.append((f'{head} large-community [ 1:2:3 ]', True, _attr_on_wire(32, _be(1, 4) + _be(2, 4) + _be(3, 4))))
        c.append((f'{head} extended-community [ target:65000:1 ]', True, _attr_on_wire(16, bytes.fromhex('0002fde800000001'))))
        c.append((f'{head} aggregator ( 65000:1.2.3.4 )', True, None))
        c.append((f'{head} origin egp', True, _attr_on_wire(1, b'\x01')))
        c.append((f'{head} as-path [ 64500 64501 ]', True, None))
        c.append((f'{head} path-information 1.2.3.4', True, None))
        c.append((f'{head} name probe', True, None))
        c.append((f'{head} watchdog probe', True, None))
        # the prefix of `head` cut in two: the value written is carried (it was accepted and the /24 -- the /32 -- announced)
        two = ['2001:db8::/33', '2001:db8:8000::/33'] if '2001' in head else ['10.0.0.0/25', '10.0.0.128/25']
        c.append((f'{head} split /{33 if "2001" in head else 25}', True, _prefixes_on_wire(two)))
    # sizes: the two-octet attribute length, the 4095 octet flow NLRI
    c.append((f'{R4} attribute [ 0x99 0xc0 0x{"ab" * 65535} ]', None, None))
    c.append((f'{R4} attribute [ 0x99 0xc0 0x{"ab" * 65536} ]', False, None))
    c.append((f'{R4} attribute [ 0x99 0xc0 0x{"ab" * 4000} ]', True, _attr_on_wire(0x99, b'\xab' * 4000)))
    c.append((f'{R4} attribute [ 0x99 0xc0 0x{"ab" * 4090} ]', None, _attr_on_wire(0x99, b'\xab' * 4090)))
    c.append((f'{R4} community [ {" ".join("0:%d" % i for i in range(1020))} ]', None, None))
    c.append((f'{R4} community [ {" ".join("0:%d" % i for i in range(1000))} ]', True, None))
    c.append((f'{R4} attribute [ 0x99 0xc0 0x{"ab" * 70000} ]', False, None))
    c.append((f'{R4} community [ {" ".join("0:%d" % i for i in range(16384))} ]', False, None))
    c.append((f'{R4} large-community [ {" ".join("0:0:%d" % i for i in range(5462))} ]', False, None))
    c.append((f'{R4} as-path [ {" ".join(str(64000 + i % 500) for i in range(20000))} ]', False, None))
    c.append(('announce flow route { match { destination 10.0.0.0/24; port [ %s ]; } then { discard; } }' % ' '.join('=%d' % (1000 + i) for i in range(1500)), False, None))
    c.append(('announce flow route { match { destination 10.0.0.0/24; port [ %s ]; } then { discard; } }' % ' '.join('=%d' % (1000 + i) for i in range(1000)), None, None))
    return c


def _prefixes_on_wire(written):
    import ipaddress

    def chk(dec):
        want = sorted(str(ipaddress.ip_network(p)) for p in written)
        for kind, ups in dec.items():
            got = []
            for u in ups:
                got += [_net(1, e) for e in u['nlri']]
                for a, _s, _nh, entries in u['mp_reach']:
                    got += [_net(a, e) for e in entries]
            if sorted(got) != want:
                return f'prefixes written {want} are sent as {sorted(got)} on a {kind} session'
        return None

    return chk


def _net(afi, entry):
    """reference decoder entry (path id, labels, rd, bits, prefix bytes) -> text"""
    import ipaddress

    _pid, _lab, _rd, bits, raw = entry
    size = 4 if afi == 1 else 16
    if bits is None or bits > size * 8:
        return f'<afi {afi} length {bits} {bytes(raw).hex()}>'
    addr = (bytes(raw) + bytes(size))[:size]
    return str(ipaddress.ip_network((addr, bits), strict=False))


class _Slow(BaseException):
    pass


def guarded(fn, *args, seconds=20):
    """one case under a CPU-independent guard: a definition which is never answered is a failure of the property, not a
    hang of the check"""
    import signal

    def _alarm(*_a):
        raise _Slow()

    old = signal.signal(signal.SIGALRM, _alarm)
    signal.alarm(seconds)
    try:
        return fn(*args)
    except _Slow:
        return {'what': f'the definition was not answered within {seconds} s (neither refused nor accepted)', 'input': {'text': args[0]}}
    finally:
        signal.alarm(0)
        signal.signal(signal.SIGALRM, old)


from .registry import region


@region('C18-rate-limit-clamped')
def rate_limit_region(failure):
    """recorded defect: `rate-limit N` (bytes) with N above 10^12 is accepted and sent as 10^12 (flow/parser.py rate_limit,
    MAX_RATE_LIMIT_BPS, a warning in the log): clamped, not refused.  Only that keyword, only above that value, only the
    two ways this shows (accepted although it must not be / sent with another value)."""
    m = re.search(r'then \{ rate-limit (\d+); \}', failure.get('input', {}).get('text', ''))
    w = failure.get('what', '')
    return bool(m) and int(m.group(1)) > 10**12 and (w.startswith('accepted, but the value sent is not the value written: attribute 16') or 'the wire format cannot hold' in w)


@region('C18-attributes-larger-than-the-message')
def too_large_region(failure):
    """recorded defect: a definition whose attributes fit the two-octet attribute length but not the message size of the
    session (4096 without extended messages) is accepted and UpdateCollection.messages() yields nothing for it
    (update.pack.error reason=attributes_too_large in the log): never sent, nothing reported.  Only 'produces no UPDATE',
    only definitions whose text is longer than 4000 characters (nothing shorter can fill a message)."""
    return 'produces no UPDATE on a' in failure.get('what', '') and len(failure.get('input', {}).get('text', '')) > 4000


@bounded('C18', 'signs-brackets-families-sizes')
def signs_brackets(tier, seed):
    fails, evals, distinct, samples = [], 0, set(), []
    for text, must, checker in extra_cases():
        for fn, tag in ((api_case, 'api'), (file_case, 'file')):
            if tag == 'file' and to_conf(text) is None:
                continue
            evals += 1
            distinct.add((tag, text))
            f = guarded(fn, text, must, checker)
            if f:
                f['path'] = tag
                if len(f['input'].get('text', '')) > 400:
                    f['input']['text_digest'] = f['input']['text'][:120] + ' ... (%d characters)' % len(f['input']['text'])
                fails.append(f)
        if len(samples) < 3:
            samples.append({'text': text[:200], 'must_be_accepted': must})
    api_object(fresh=True)
    return {'evaluations': evals, 'distinct_nontrivial': len(distinct), 'bound': 'route / attributes / ipv4 / ipv6 / flow / vpls definitions with each numeric field below zero, each bracketed list left open, prefixes of another family than the command, the next hop or the other prefixes, next-hop self for every family, attribute bodies around 65535 octets and flow NLRI around 4095 octets; through the real API entry points and handlers and, where a file form exists, a configuration file; accepted ones resolved (next-hop self), encoded for 4 session kinds x 2 message sizes and read back by the reference decoder and by the decoder of the code itself; 20 s per case', 'rule': 'one case = (path, text); distinct by that tuple', 'samples': samples, 'failures': fails}


@replayer('C18', 'signs-brackets-families-sizes')
def _replay_signs(f):
    text = f['input']['text']
    for t, must, checker in extra_cases():
        if t == text:
            return guarded(file_case if f.get('path') == 'file' else api_case, t, must, checker) is None
    return True


TAILS = ['', '[', '(', '[ [', '( (', '[ ]', '( )', '-1', '[ -1 ]', '( -1 )', '99999999999999999999999', '[ 99999999999999999999999 ]', 'x', '[ x', '0x', '0xZZ', '1:', ':1', '1:2:3:4', '-1:-1', '1.2.3.4:', '/', '1.2.3.4/', '1.2.3.4/-1', '::/', '[ 1 2', '( 1 2', '[ 1 , 2 ] ]', '\u00e9', '%s']


def keyword_cases():
    """every keyword of the route, flow and vpls grammars (read from the parsers of the tree, not a list of mine) followed by
    each of a fixed list of malformed or unfinished values: nothing is known about the outcome except that there is one"""
    from exabgp.configuration.flow.match import ParseFlowMatch
    from exabgp.configuration.flow.scope import ParseFlowScope
    from exabgp.configuration.flow.then import ParseFlowThen
    from exabgp.configuration.l2vpn.vpls import ParseVPLS
    from exabgp.configuration.static.route import ParseStaticRoute

    def keys(cls):
        return sorted(k for k in cls.known if isinstance(k, str))

    out = []
    for kw in keys(ParseStaticRoute):
        for t in TAILS:
            out.append(f'{R4} {kw} {t}'.rstrip())
            out.append(f'announce ipv4 unicast 10.0.0.0/24 next-hop 192.0.2.1 {kw} {t}'.rstrip())
    for kw in keys(ParseFlowMatch):
        for t in TAILS:
            out.append('announce flow route { match { %s %s; } then { discard; } }' % (kw, t))
    for kw in keys(ParseFlowThen) + keys(ParseFlowScope):
        for t in TAILS:
            out.append('announce flow route { match { destination 10.0.0.0/24; } then { %s %s; } }' % (kw, t))
    for kw in keys(ParseVPLS):
        for t in TAILS:
            out.append(f'announce vpls rd 65000:1 endpoint 5 base 10702 offset 1 size 8 next-hop 192.0.2.1 {kw} {t}'.rstrip())
    return out


@bounded('C18', 'every-keyword-malformed-values')
def keyword_values(tier, seed):
    fails, evals, distinct, samples = [], 0, set(), []
    cases = keyword_cases()
    for text in cases:
        for fn, tag in ((api_case, 'api'), (file_case, 'file')):
            if tag == 'file' and (tier != 'thorough' or to_conf(text) is None):
                continue
            evals += 1
            distinct.add((tag, text))
            try:
                f = guarded(fn, text, None, None, seconds=10)
            except Exception as e:  # noqa
                f = {'what': f'the harness itself failed on this text: {type(e).__name__}: {str(e)[:120]}', 'input': {'text': text}}
            if f:
                f['path'] = tag
                fails.append(f)
    api_object(fresh=True)
    samples = [{'text': t} for t in cases[:: max(1, len(cases) // 3)][:3]]
    return {'evaluations': evals, 'distinct_nontrivial': len(distinct), 'bound': f'every keyword the route ({"+ announce ipv4 unicast form"}), flow match / then / scope and vpls parsers of the tree know x {len(TAILS)} malformed or unfinished values (nothing, an opening bracket only, negative, 23 digits, stray separators, unbalanced lists, a non-ASCII letter, a format directive); through the real API entry points and handlers (thorough: also a configuration file); whatever is accepted is resolved, encoded for 4 session kinds x 2 message sizes and read back by both decoders; 10 s per case', 'rule': 'one case = (path, text); distinct by that tuple', 'samples': samples, 'failures': fails}


@replayer('C18', 'every-keyword-malformed-values')
def _replay_keywords(f):
    return guarded(file_case if f.get('path') == 'file' else api_case, f['input']['text'], None, None, seconds=10) is None


HEADS = [
    'announce ipv4 unicast 10.0.0.0/24 next-hop 192.0.2.1 med 5 community [ 65000:1 ]',
    'announce ipv4 multicast 224.0.0.0/24 next-hop 192.0.2.1 origin igp',
    'announce ipv6 unicast 2001:db8::/32 next-hop 2001:db8::1 local-preference 5',
    'announce ipv4 nlri-mpls 10.0.0.0/24 next-hop 192.0.2.1 label 5',
    'announce ipv6 nlri-mpls 2001:db8::/32 next-hop 2001:db8::1 label [ 5 6 ]',
    'announce ipv4 mpls-vpn 10.0.0.0/24 next-hop 192.0.2.1 rd 65000:1 label 5',
    'announce ipv6 mpls-vpn 2001:db8::/32 next-hop 2001:db8::1 rd 1.2.3.4:5 label 5',
    'announce ipv4 mcast-vpn shared-join rp 10.99.199.1 group 239.251.255.228 rd 65000:99999 source-as 65000 next-hop 10.10.6.3 extended-community [ target:192.168.94.12:5 ]',
    'announce ipv4 mcast-vpn source-ad source 10.99.12.4 group 239.251.255.228 rd 65000:99999 next-hop 10.10.6.4 extended-community [ target:65000:99999 ]',
    'announce ipv4 mcast-vpn source-join source 10.99.12.2 group 239.251.255.228 rd 65000:99999 source-as 65000 next-hop 10.10.6.3',
    'announce ipv6 mcast-vpn shared-join rp fd00::1 group ff0e::1 rd 65000:99999 source-as 65000 next-hop 10.10.6.3',
    'announce ipv6 mcast-vpn source-ad source fd12::4 group ff0e::1 rd 65000:99999 next-hop 10.10.6.4',
    'announce ipv6 mcast-vpn source-join source fd12::2 group ff0e::1 rd 65000:99999 source-as 65000 next-hop 10.10.6.3',
    'announce ipv4 mup mup-isd 10.0.1.0/24 rd 100:100 next-hop 2001::1 extended-community [ target:10:10 ] bgp-prefix-sid-srv6 ( l3-service 2001:db8:1:1:: 0x48 [64,24,16,0,0,0] )',
    'announce ipv6 mup mup-isd 2001::/64 rd 100:100 next-hop 2001::2 extended-community [ target:10:10 ]',
    'announce ipv4 mup mup-dsd 10.0.0.1 rd 100:100 next-hop 2001::2 extended-community [ target:10:10 mup:10:10 ]',
    'announce ipv6 mup mup-dsd 2001::1 rd 100:100 next-hop 2001::2 extended-community [ target:10:10 mup:10:10 ]',
    'announce ipv4 mup mup-t1st 192.168.0.2/32 rd 100:100 teid 12345 qfi 9 endpoint 10.0.0.1 source 10.0.1.1 next-hop 10.0.0.2 extended-community [ target:10:10 ]',
    'announce ipv6 mup mup-t1st 2001:db8:1:1::2/128 rd 100:100 teid 12345 qfi 9 endpoint 2001::1 source 2002::2 next-hop 10.0.0.2',
    'announce ipv4 mup mup-t2st 10.0.0.1 rd 100:100 teid 12345/32 next-hop 10.0.0.2 extended-community [ target:10:10 mup:10:10 ]',
    'announce ipv6 mup mup-t2st 2001::1 rd 100:100 teid 12345/32 next-hop 10.0.0.2',
    'announce ipv4 sr-policy distinguisher 0 color 100 endpoint 10.10.10.10 next-hop 192.168.100.2 preference 100 segment-list weight 1 segment type-c ipv4 10.0.0.1 algorithm 0 sid 16001',
    'announce ipv4 flow source-ipv4 10.0.0.1/32 destination-ipv4 10.0.0.2/32 protocol =tcp destination-port =80 rate-limit 9600',
    'announce vpls rd 65000:1 endpoint 5 base 10702 offset 1 size 8 next-hop 192.0.2.1',
    'announce attributes next-hop 192.0.2.1 med 5 nlri 10.0.0.0/24 10.0.1.0/24',
]
SUBST = ['', '-1', '99999999999999999999999', 'x', '[', ']', '(', '1.2.3.4/33', '::/129', '1.2.3.4', '2001:db8::1', '0', '\u00e9', '4294967296', '65536:65536']


def mutated_heads(tier):
    """every token of each valid command of HEADS (one per registered announce family and NLRI type) replaced by each value of
    SUBST, and the command cut after every token"""
    for head in HEADS:
        toks = head.split()
        for i in range(3, len(toks)):
            yield ' '.join(toks[:i])
            for sub in SUBST if tier == 'thorough' else SUBST[:8]:
                if toks[i - 1] == 'next-hop' and sub in ('1.2.3.4', '2001:db8::1'):
                    continue  # a next hop of the other family is a session matter (`nexthop { ipv4 unicast ipv6; }`), not a parse-time one
                yield ' '.join(toks[:i] + ([sub] if sub else []) + toks[i + 1 :])


@bounded('C18', 'every-family-token-mutations')
def family_mutations(tier, seed):
    fails, evals, distinct = [], 0, set()
    for head in HEADS:
        evals += 1
        distinct.add(('head', head))
        f = guarded(api_case, head, None if ' flow ' in head else True, None, seconds=10)
        if f:
            f['path'] = 'api'
            fails.append(f)
    for text in mutated_heads(tier):
        if ('api', text) in distinct:
            continue
        evals += 1
        distinct.add(('api', text))
        try:
            f = guarded(api_case, text, None, None, seconds=10)
        except Exception as e:  # noqa
            f = {'what': f'the harness itself failed on this text: {type(e).__name__}: {str(e)[:120]}', 'input': {'text': text}}
        if f:
            f['path'] = 'api'
            fails.append(f)
    api_object(fresh=True)
    return {'evaluations': evals, 'distinct_nontrivial': len(distinct), 'bound': f'{len(HEADS)} valid commands, one per registered announce family and NLRI type (unicast, multicast, labelled, vpn, mcast-vpn x 3 types, mup x 4 types, sr-policy, flow, vpls, attributes; IPv4 and IPv6): each must be accepted; then every token of each replaced by {len(SUBST)} values (quick: 8) and the command cut after every token: an outcome within 10 s, never an exception; whatever is accepted is resolved, encoded for 4 session kinds x 2 message sizes and read back by both decoders', 'rule': 'one case = one command text; distinct by text', 'samples': [{'text': h} for h in HEADS[:3]], 'failures': fails}


@replayer('C18', 'every-family-token-mutations')
def _replay_family(f):
    text = f['input']['text']
    return guarded(api_case, text, (None if ' flow ' in text else True) if text in HEADS else None, None, seconds=10) is None


# ------------------------------------------------------------------------------------------------ cut short / unbalanced

BLOCKS = [
    'announce route 10.1.0.0/24 { next-hop 192.0.2.1; med 5; community [ 65000:1 65000:2 ]; }',
    'announce route 10.2.0.0/24 next-hop 192.0.2.1 med 5',
    'announce flow route { match { source 10.0.0.1/32; destination-port =80; } then { discard; } }',
    'announce flow route { match { destination 10.0.0.0/24; protocol [ tcp udp ]; } then { rate-limit 9600; community [ 65000:1 ]; } }',
    'announce flow route { rd 65000:1; match { source 10.0.0.1/32; } then { redirect 65000:12; } }',
    'announce vpls endpoint 3 base 4 offset 5 size 8 next-hop 192.0.2.1 rd 65000:1',
]


def _tokens(text):
    return re.findall(r'[{};]|[^\s{};]+', text)


def _depth(tokens):
    return sum(1 if t == '{' else -1 if t == '}' else 0 for t in tokens)


def unbalanced_variants(text):
    """every text made from `text` whose braces do not balance: cut after every token while a section is open, one closing
    brace more after every closing brace / semicolon / at the end, one closing brace less"""
    toks = _tokens(text)
    out = []
    for i in range(1, len(toks)):
        if _depth(toks[:i]) > 0:
            out.append(' '.join(toks[:i]))
    for i, t in enumerate(toks):
        if t in ('}', ';'):
            out.append(' '.join(toks[: i + 1] + ['}'] + toks[i + 1 :]))
        if t == '}':
            out.append(' '.join(toks[:i] + toks[i + 1 :]))
    if toks[-1] not in ('}', ';'):
        out.append(text + ' ; }')
        out.append(text + ' }')
    seen, res = set(), []
    for o in out:
        if o not in seen and _depth(_tokens(o)) != 0:
            seen.add(o)
            res.append(o)
    return res


def unbalanced_api_case(text):
    f0 = direct_entry(text)
    if f0:
        return f0
    res = outcome(api_object(), text)
    if res[0]:
        return res[0]
    if res[1][0] != 'error':
        return {'what': 'a definition whose braces do not balance (cut short, or a closing brace with no section open) was accepted', 'input': {'text': text}, 'routes': list(res[1][1])}
    return None


def unbalanced_file_case(conf):
    from exabgp.configuration.configuration import Configuration

    inp = {'text': conf[-60:], 'configuration': conf}
    c = Configuration([conf], text=True)
    try:
        ok = c.reload()
    except Exception as e:  # noqa
        return {'what': f'configuration answered with an unhandled {type(e).__name__}: {str(e)[:120]}', 'input': inp}
    if ok:
        routes = [r.extensive() for nb in c.neighbors.values() for r in nb.routes]
        return {'what': 'a configuration file whose braces do not balance (cut short, or a closing brace with no section open) was loaded', 'input': inp, 'routes': routes[:6], 'neighbors': len(c.neighbors)}
    if not str(c.error).strip():
        return {'what': 'configuration refused without an error message', 'input': inp}
    return None


@bounded('C18', 'cut-short-and-unbalanced')
def cut_short(tier, seed):
    """PROPERTY: text offered as a definition is refused with an error message or accepted AND carries the values as written.
    The configuration grammar closes every section it opens: a text whose braces do not balance is not a sentence of it --
    a file cut short by a partial write, a helper's line cut by a bug -- and what was read so far is not what was written.
    Oracle: braces unbalanced => refused (error reply and nothing handed to the RIB; reload False with a message)."""
    fails, evals, distinct = [], 0, set()
    texts = list(BLOCKS)
    if tier != 'quick':
        texts += [t for t, must, _ in api_cases() + extra_cases() if must is True and '{' in t][:60]
    for text in texts:
        for v in unbalanced_variants(text):
            evals += 1
            distinct.add(('api', v))
            f = unbalanced_api_case(v)
            if f:
                f['path'] = 'api'
                fails.append(f)
    frags = [to_conf(t) for t in texts]
    confs = [CONF % ' '.join(f for f in frags[:6] if f)] + ([CONF % f for f in frags[6:] if f] if tier != 'quick' else [])
    for conf in confs:
        for v in unbalanced_variants(conf):
            evals += 1
            distinct.add(('file', v))
            f = unbalanced_file_case(v)
            if f:
                f['path'] = 'file'
                fails.append(f)
    fails.sort(key=lambda f: len(f['input']['text']))
    return {
        'evaluations': evals,
        'distinct_nontrivial': len(distinct),
        'bound': f'{len(texts)} API definitions (route one-line and block, flow with 1-2 components and actions and rd, vpls) and {len(confs)} configuration file(s) holding their file forms x every cut after a token while a section is open, one closing brace more after every closing brace / semicolon, one closing brace less',
        'rule': 'one case = (path, text); distinct by value; only texts whose braces do NOT balance are generated',
        'samples': [{'text': 'announce flow route { match { source 10.0.0.1/32'}, {'text': 'announce route 10.2.0.0/24 next-hop 192.0.2.1 med 5 ; }'}],
        'failures': fails,
    }


@replayer('C18', 'cut-short-and-unbalanced')
def _replay_cut(f):
    if f.get('path') == 'file':
        return unbalanced_file_case(f['input']['configuration']) is None
    return unbalanced_api_case(f['input']['text']) is None


# ------------------------------------------------------------------------------------------------ words left over

CANDIDATES = ['5', '192.0.2.1', '65000:1', '[ 65000:1 ]', 'igp', '10.0.0.1/32', '=80', 'tcp', '[ 65000 65001 ]', 'true', '0x01', '65000:1:2', '[ 0x99 0xc0 0x00 ]', '', '1000', 'first-fragment', 'syn', '2001:db8::1', '2001:db8::/64', '100 200', '[ 800000 ]', 'dog', 'disable', 'enable', '( 65000:192.0.2.1 )', '/25', 'sample', 'transitive:input:65000:1', 'origin igp med 5']


def leftover_frames():
    """(section, keyword, frame) for every keyword of the block sections, read from the parsers of the tree; frame % value is
    an API command"""
    from exabgp.configuration.flow.match import ParseFlowMatch
    from exabgp.configuration.flow.scope import ParseFlowScope
    from exabgp.configuration.flow.then import ParseFlowThen
    from exabgp.configuration.static.route import ParseStaticRoute

    def keys(cls):
        return sorted(k for k in cls.known if isinstance(k, str))

    out = []
    for kw in keys(ParseStaticRoute):
        if kw != 'next-hop':
            out.append(('route', kw, 'announce route 10.1.0.0/24 { next-hop 192.0.2.1; ' + kw + ' %s; }'))
    out.append(('route', 'next-hop', 'announce route 10.1.0.0/24 { next-hop %s; }'))
    for kw in keys(ParseFlowMatch):
        out.append(('match', kw, 'announce flow route { match { ' + kw + ' %s; } then { discard; } }'))
    for kw in keys(ParseFlowThen):
        out.append(('then', kw, 'announce flow route { match { destination 10.0.0.0/24; } then { ' + kw + ' %s; } }'))
    for kw in keys(ParseFlowScope):
        out.append(('scope', kw, 'announce flow route { ' + kw + ' %s; match { destination 10.0.0.0/24; } then { discard; } }'))
    return out


def _accepted(text):
    res = outcome(api_object(), text)
    return res[0] is None and res[1][0] == 'done'


def leftover_case(text, good):
    inp = {'text': text, 'accepted_without_the_extra_word': good}
    f0 = direct_entry(text)
    if f0:
        return f0
    res = outcome(api_object(), text)
    if res[0]:
        return res[0]
    if res[1][0] != 'error':
        return {'what': 'a statement with a word left over after the value of its keyword was accepted: the word was dropped unread', 'input': inp, 'routes': list(res[1][1])}
    return None


@bounded('C18', 'words-left-over')
def words_left_over(tier, seed):
    """PROPERTY: an accepted definition carries the values as written.  A word which follows the complete value of a keyword
    inside a block (`med 5 6;`, `discard zzz;`, `source 10.0.0.1/32 10.0.0.2/32;`) is written and cannot be carried: the
    statement is to be refused, as the one-line route form does.  For every keyword of the block sections (read from the
    parsers of the tree) the first candidate value the tree ACCEPTS is taken, then a word is added after it."""
    fails, evals, distinct, driven, idle = [], 0, set(), [], []
    for section, kw, frame in leftover_frames():
        good = next((frame % c for c in CANDIDATES if _accepted(frame % c)), None)
        evals += 1
        if good is None:
            idle.append(f'{section}:{kw}')
            continue
        driven.append(f'{section}:{kw}')
        value = good[len(frame.split('%s')[0]) : len(good) - len(frame.split('%s')[1])]
        for extra in ('zzz', value.split()[-1] if value.split() else 'zzz', '0'):
            if value.rstrip().endswith(']') or not value.strip():
                text = frame % (value + ' ' + extra)
            else:
                text = frame % (value + ' ' + extra)
            evals += 1
            distinct.add(text)
            f = leftover_case(text, good)
            if f:
                fails.append(f)
    fails.sort(key=lambda f: len(f['input']['text']))
    return {
        'evaluations': evals,
        'distinct_nontrivial': len(distinct),
        'bound': f'{len(driven)} keywords of the route / flow match / then / scope blocks (registry of the tree) with the first of {len(CANDIDATES)} candidate values the tree accepts x 3 extra words (zzz, the last word of the value again, 0); NOT driven, no candidate accepted: {", ".join(idle) or "none"}',
        'rule': 'one case = the text; distinct by value',
        'samples': [{'text': 'announce route 10.1.0.0/24 { next-hop 192.0.2.1; med 5 zzz; }'}],
        'failures': fails,
    }


@replayer('C18', 'words-left-over')
def _replay_leftover(f):
    return leftover_case(f['input']['text'], f['input'].get('accepted_without_the_extra_word')) is None


@bounded('C18', 'api-and-file')
def api_and_file(tier, seed):
    fails, evals, distinct, samples = [], 0, set(), []
    for text, must, checker in api_cases():
        for fn, tag in ((api_case, 'api'), (file_case, 'file')):
            if tag == 'file' and to_conf(text) is None:
                continue
            evals += 1
            distinct.add((tag, text))
            f = fn(text, must, checker)
            if f:
                f['path'] = tag
                fails.append(f)
        if len(samples) < 3:
            samples.append({'text': text, 'must_be_accepted': must})
    api_object(fresh=True)
    for a, b in history_pairs(tier):
        evals += 1
        distinct.add(('history', a, b))
        f = history_case(a, b)
        if f:
            f['path'] = 'history'
            fails.append(f)
    return {'evaluations': evals, 'distinct_nontrivial': len(distinct), 'bound': 'route / attributes / ipv4 / ipv6 / flow / vpls definitions at and beyond the boundary of labels, route distinguishers, prefix lengths, generic attributes, extended communities, prefix-sid, flow components, vpls fields, with and without the mandatory next-hop / label / rd; each through the real API handlers (real ASYNC scheduler) and, where a file form exists, a configuration file; accepted ones encoded for 4 session kinds x 2 message sizes; ordered pairs (first, second) of commands on one API object', 'rule': 'one case = (path, text) or (first, second); distinct by that tuple', 'samples': samples, 'failures': fails}


@replayer('C18', 'api-and-file')
def _replay_api(f):
    text = f['input']['text']
    if f.get('path') == 'history':
        return history_case(f['input']['first'], text) is None
    for t, must, checker in api_cases():
        if t == text:
            return (file_case if f.get('path') == 'file' else api_case)(t, must, checker) is None
    return True


# harness canaries: known-wrong behaviour injected in memory must be reported by the checks above
from .registry import harness_canary


def _patched(module, name, replacement, probe):
    real = getattr(module, name)
    setattr(module, name, replacement)
    try:
        return probe() is not None
    finally:
        setattr(module, name, real)
        api_object(fresh=True)


@harness_canary('C18', 'incomplete announce accepted (validation switched off)')
def _hc_validate():
    from exabgp.reactor.api.command import announce as A

    text = 'announce ipv6 unicast 2001:db8::/32'
    return api_case(text, False, None, api_object(fresh=True)) is None and _patched(A, 'validate_announce', lambda route: None, lambda: api_case(text, False, None, api_object(fresh=True)))


@harness_canary('C18', 'label sent wrapped to 20 bits')
def _hc_label():
    from exabgp.bgp.message.update.nlri.qualifier.labels import Labels

    text = f'{R4} label 1048575'
    real = Labels.make_labels.__func__

    def wrapped(cls, labels, bos=True):
        return real(cls, [v & 0xFFFF for v in labels], bos)

    ok_before = api_case(text, True, _labels_on_wire([1048575]), api_object(fresh=True)) is None
    return ok_before and _patched(Labels, 'make_labels', classmethod(wrapped), lambda: api_case(text, True, _labels_on_wire([1048575]), api_object(fresh=True)))


@harness_canary('C18', 'state of a refused command leaks into the next one')
def _hc_history():
    from exabgp.configuration.core.scope import Scope

    first, second = 'announce route 10.9.0.0/24 { next-hop 192.0.2.1 ; med 4294967296 ; }', 'announce route 10.1.0.0/24 next-hop 192.0.2.1 med 5'
    real = Scope.clear

    def leaky(self):
        settings, attrs = self._settings, self._attributes
        real(self)
        self._settings, self._attributes = settings, attrs

    return history_case(first, second) is None and _patched(Scope, 'clear', leaky, lambda: history_case(first, second))


@harness_canary('C18', 'attribute longer than its length field accepted (size bound switched off)')
def _hc_size():
    from exabgp.configuration.static import parser as P

    text = f'{R4} attribute [ 0x99 0xc0 0x{"ab" * 65536} ]'
    return guarded(api_case, text, False, None, api_object(fresh=True)) is None and _patched(P, 'ATTRIBUTE_DATA_MAX', 1 << 30, lambda: guarded(api_case, text, False, None, api_object(fresh=True)))


@harness_canary('C18', 'next-hop self which no session can resolve')
def _hc_self():
    from exabgp.bgp.neighbor.session import Session

    text = 'announce route 10.0.0.0/24 next-hop self'

    def refuse(self, afi):
        raise TypeError('use of "next-hop self": injected')

    return guarded(api_case, text, True, None, api_object(fresh=True)) is None and _patched(Session, 'ip_self', refuse, lambda: guarded(api_case, text, True, None, api_object(fresh=True)))
