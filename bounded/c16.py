"""bounded stand-in for C16: configuration text -> real parser -> Flow -> wire, against the RFC 8955/8956 reference
encoder (spec/flow.py); and wire -> real decoder against the reference component walk."""
import random

from .registry import bounded, replayer, region

NUM_OPS = [('=', 0x01), ('>', 0x02), ('<', 0x04), ('>=', 0x03), ('<=', 0x05), ('!=', 0x06)]
# keyword, component type, value range, allowed widths
V4_NUMERIC = [('protocol', 3, 255, (1,)), ('port', 4, 65535, (1, 2)), ('destination-port', 5, 65535, (1, 2)), ('source-port', 6, 65535, (1, 2)), ('packet-length', 10, 65535, (1, 2)), ('dscp', 11, 63, (1,))]
V6_NUMERIC = [('next-header', 3, 255, (1,)), ('port', 4, 65535, (1, 2)), ('destination-port', 5, 65535, (1, 2)), ('source-port', 6, 65535, (1, 2)), ('packet-length', 10, 65535, (1, 2)), ('traffic-class', 11, 255, (1,)), ('flow-label', 13, 0xFFFFF, (1, 2, 4))]

TEMPLATE = """
neighbor 127.0.0.1 {
	router-id 1.2.3.4;
	local-address 127.0.0.1;
	local-as 1;
	peer-as 1;
	family { %s flow; %s flow-vpn; }
	flow {
		route r { %s match { %s } then { discard; } }
	}
}
"""


def gen_rule(rnd, ipv6, nterms=None, big=False):
    """-> (match text, abstract components for spec.flow_encode)"""
    import socket

    text, comps = [], []
    if ipv6 or rnd.random() < 0.7:  # the text parser learns the family from a prefix: IPv6 rules always carry one
        if ipv6:
            bits = rnd.choice([0, 32, 48, 64, 128])
            off = rnd.choice([0, 0, 16, 3, 31]) if bits >= 32 else 0
            addr = '2001:db8:1:2::' if bits < 128 else '2001:db8::1'
            text.append(f'destination {addr}/{bits}/{off};' if off else f'destination {addr}/{bits};')
            comps.append((1, bits, off, socket.inet_pton(socket.AF_INET6, addr)))
        else:
            bits = rnd.choice([0, 8, 17, 24, 32])
            text.append(f'destination 10.1.2.3/{bits};')
            comps.append((1, bits, 0, socket.inet_aton('10.1.2.3')))
    if rnd.random() < 0.4:
        if ipv6:
            text.append('source 2001:db8:ffff::/48;')
            comps.append((2, 48, 0, socket.inet_pton(socket.AF_INET6, '2001:db8:ffff::')))
        else:
            text.append('source 192.168.0.0/16;')
            comps.append((2, 16, 0, socket.inet_aton('192.168.0.0')))
    table = V6_NUMERIC if ipv6 else V4_NUMERIC
    for kw, typ, hi, allowed in rnd.sample(table, rnd.randint(1, 3)):
        n = nterms or rnd.randint(1, 4)
        if big and kw in ('destination-port',):
            n = big
        terms, ops = [], []
        and_next = False
        for k in range(n):
            name, bits = rnd.choice(NUM_OPS)
            value = rnd.choice([0, 1, 255, 256, hi, rnd.randint(0, hi)])
            value = min(value, hi)
            tok = f'{name}{value}'
            ops.append(((0x40 if and_next else 0) | bits, value, allowed))
            and_next = k < n - 1 and rnd.random() < 0.35
            if and_next:
                terms.append(tok + '&')
            else:
                terms.append(tok + ' ')
        joined = ''.join(terms).replace('& ', '&').strip()
        text.append(f'{kw} [ {joined} ];')
        comps.append((typ, ops))
    return ' '.join(text), comps


def parse_flow(match_text, ipv6, rd=None):
    from exabgp.configuration.configuration import Configuration

    fam = 'ipv6' if ipv6 else 'ipv4'
    text = TEMPLATE % (fam, fam, (f'rd {rd};' if rd else ''), match_text)
    configuration = Configuration([text], text=True)
    if not configuration.reload():
        raise ValueError(f'refused: {configuration.error}')
    routes = [r for n in configuration.neighbors.values() for r in n.routes]
    return routes[0].nlri


def one_case(match_text, comps, ipv6, rd):
    from spec.flow import flow_encode, flow_split, flow_components
    from exabgp.bgp.message.update.nlri.nlri import NLRI
    from exabgp.bgp.message.action import Action
    from exabgp.protocol.family import AFI, SAFI

    inp = {'match': match_text, 'ipv6': ipv6, 'rd': rd}
    rdb = None
    if rd:
        a, b = rd.split(':')
        rdb = (0).to_bytes(2, 'big') + int(a).to_bytes(2, 'big') + int(b).to_bytes(4, 'big')
    try:
        exp = flow_encode(comps, rdb, ipv6)
    except ValueError:
        exp = None
    try:
        nlri = parse_flow(match_text, ipv6, rd)
        wire = bytes(nlri.pack_nlri(None))
    except Exception as e:  # noqa
        if exp is None:
            return None
        return {'what': f'text refused or not encodable: {type(e).__name__}: {str(e)[:200]}', 'input': inp}
    if exp is None:
        return {'what': 'a rule longer than 4095 bytes was encoded', 'input': inp}
    if wire != exp:
        return {'what': 'wire bytes differ from the RFC 8955 reference encoding', 'input': inp, 'expected': exp.hex()[:400], 'observed': wire.hex()[:400]}
    # and the real decoder must read the same rule back (or refuse), never a different one
    afi = AFI.ipv6 if ipv6 else AFI.ipv4
    safi = SAFI.flow_vpn if rd else SAFI.flow_ip
    back, over = NLRI.unpack_nlri(afi, safi, wire, Action.ANNOUNCE, None, None)
    if back is NLRI.INVALID or bytes(over) != b'':
        return {'what': 'own encoding not decoded back', 'input': inp, 'wire': wire.hex()[:400]}
    if bytes(back.pack_nlri(None)) != wire:
        return {'what': 'decode/re-encode changes the bytes', 'input': inp, 'wire': wire.hex()[:400]}
    return None


def decode_case(wire, ipv6, vpn):
    """real decoder vs reference walk on arbitrary (mutated) wire bytes: a rule is delivered iff the reference accepts it"""
    from spec.flow import flow_split, flow_components
    from exabgp.bgp.message.update.nlri.nlri import NLRI
    from exabgp.bgp.message.action import Action
    from exabgp.protocol.family import AFI, SAFI

    afi = AFI.ipv6 if ipv6 else AFI.ipv4
    safi = SAFI.flow_vpn if vpn else SAFI.flow_ip
    sp = flow_split(wire)
    ref = None
    if sp is not None:
        try:
            ref = flow_components(sp[0], ipv6, vpn)
        except ValueError:
            ref = None
    try:
        back, over = NLRI.unpack_nlri(afi, safi, wire, Action.ANNOUNCE, None, None)
        delivered = back is not NLRI.INVALID
    except Exception as e:  # noqa
        if type(e).__name__ == 'Notify':
            delivered = False
        else:
            return {'what': f'decoder raised {type(e).__name__}: {e}', 'wire': wire.hex(), 'ipv6': ipv6, 'vpn': vpn}
    if delivered and ref is None:
        return {'what': 'a malformed FlowSpec NLRI (undefined component / truncated value) was delivered as a rule', 'wire': wire.hex(), 'ipv6': ipv6, 'vpn': vpn, 'delivered': str(back)[:200]}
    if delivered and sp is not None and bytes(back.pack_nlri(None)) != wire[: len(wire) - len(sp[1])]:
        # canonical inputs only: skip when the sender used a wider-than-needed value width
        rd, comps = ref
        canonical = all(w == min(x for x in (1, 2, 4, 8) if v < (1 << (8 * x))) for c in comps if c[0] > 2 for (op, v, w) in c[1])
        if canonical:
            return {'what': 'decoded rule re-encodes to different bytes', 'wire': wire.hex(), 'ipv6': ipv6, 'vpn': vpn}
    return None


@region('C16-ipv6-prefix-offset')
def ipv6_offset_region(failure):
    """recorded defect: an IPv6 source / destination prefix with a NON-ZERO offset is sent (and read) as the whole prefix
    after the offset octet; RFC 8956 3.1 defines the pattern as the (length - offset) bits which follow the skipped ones.
    Only rules whose text (text-to-wire) or bytes (wire-decode) hold an IPv6 prefix component with offset > 0; offset 0 --
    every shipped example -- is unaffected and stays enforced."""
    import re as _re

    text = (failure.get('input') or {}).get('match', '')
    if failure.get('what', '').startswith('wire bytes differ from the RFC 8955 reference encoding'):
        return any(int(m) > 0 for m in _re.findall(r'(?:source|destination) [0-9a-f:]+/\d+/(\d+);', text))
    # the other direction (wire-decode): bytes whose leading IPv6 prefix components carry a non-zero offset are read with
    # the whole-prefix layout, so the decoder and the RFC reference disagree on what is well formed
    if failure.get('ipv6') and 'wire' in failure and ('delivered as a rule' in failure.get('what', '') or 're-encodes to different bytes' in failure.get('what', '')):
        from spec.flow import flow_split

        sp = flow_split(bytes.fromhex(failure['wire']))
        if sp is None:
            return False
        payload = sp[0][8:] if failure.get('vpn') else sp[0]
        i = 0
        while i + 2 < len(payload) and payload[i] in (1, 2):
            if payload[i + 2]:
                return True
            i += 3 + (payload[i + 1] + 7) // 8
    return False


@bounded('C16', 'text-to-wire')
def text_to_wire(tier, seed):
    rnd = random.Random(seed)
    n = 150 if tier == 'quick' else 3000
    fails, evals, distinct, samples = [], 0, set(), []
    cases = []
    for k in range(n):
        ipv6 = k % 3 == 2
        rd = '65000:12' if k % 5 == 4 else None
        cases.append((gen_rule(rnd, ipv6), ipv6, rd))
    # lengths around the 240 boundary and the 4095 maximum: destination /24 (5 bytes) + type byte + 3 bytes per 2-byte port
    for ports in (76, 77, 78, 79, 80, 85) + ((1362, 1363) if tier == 'thorough' else ()):
        terms = ' '.join(f'={1000 + i}' for i in range(ports))
        comps = [(1, 24, 0, bytes([10, 0, 0, 0])), (5, [(0x01, 1000 + i, (1, 2)) for i in range(ports)])]
        cases.append(((f'destination 10.0.0.0/24; destination-port [ {terms} ];', comps), False, None))
    for (text, comps), ipv6, rd in cases:
        evals += 1
        distinct.add((text, ipv6, rd))
        f = one_case(text, comps, ipv6, rd)
        if f:
            fails.append(f)
        if len(samples) < 3:
            samples.append({'match': text[:160], 'ipv6': ipv6, 'rd': rd})
    return {'evaluations': evals, 'distinct_nontrivial': len(distinct), 'bound': f'{n} generated rules (13 component keywords, 6 operators, AND chains, boundary values, IPv4/IPv6 offsets, RD) + lengths 237..262 and 4095', 'rule': 'one case = one match text; distinct by text', 'samples': samples, 'failures': fails}


@bounded('C16', 'wire-decode')
def wire_decode(tier, seed):
    from spec.flow import flow_encode

    rnd = random.Random(seed + 1)
    n = 300 if tier == 'quick' else 5000
    fails, evals, distinct, samples = [], 0, set(), []
    for k in range(n):
        ipv6 = k % 2 == 1
        text, comps = gen_rule(rnd, ipv6)
        wire = bytearray(flow_encode(comps, None, ipv6))
        muts = [bytes(wire)]
        # structured mutations: append an undefined component, truncate the last value, clear the last EOL, bump a type
        body = bytes(wire[1:]) if wire[0] < 0xF0 else bytes(wire[2:])
        for extra in (bytes([14, 0x81, 1]), bytes([0, 0x81, 1]), bytes([13, 0x81, 1]), bytes([200])):
            nb = body + extra
            muts.append(bytes([len(nb)]) + nb if len(nb) < 240 else bytes([0xF0 | (len(nb) >> 8), len(nb) & 255]) + nb)
        if len(body) > 2:
            nb = body[:-1]
            muts.append(bytes([len(nb)]) + nb if len(nb) < 240 else bytes([0xF0 | (len(nb) >> 8), len(nb) & 255]) + nb)
        for m in muts:
            evals += 1
            distinct.add((m, ipv6))
            f = decode_case(m, ipv6, False)
            if f:
                fails.append(f)
        if len(samples) < 3:
            samples.append({'wire': muts[1].hex()[:120], 'ipv6': ipv6})
    return {'evaluations': evals, 'distinct_nontrivial': len(distinct), 'bound': f'{n} reference-encoded rules x 6 structured mutations (undefined trailing component types 0/13/14/200, truncated last value)', 'rule': 'one case = (wire bytes, family); distinct by bytes', 'samples': samples, 'failures': fails}


@replayer('C16', 'wire-decode')
def _replay_wire(f):
    return decode_case(bytes.fromhex(f['wire']), f['ipv6'], f['vpn']) is None
