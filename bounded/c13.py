"""bounded stand-in for C13: messages a peer can send (the repository's own QA corpus of raw messages of every family, plus
generated OPEN / NOTIFICATION / OPERATIONAL / BGP-LS messages with hostile bytes in the peer-chosen strings) decoded by
the REAL Message.unpack and rendered by the four REAL encoders (JSON v6, JSON v4, Text, Text v4) the way Processes does,
then queued by the REAL Processes.write.

Oracle (independent of the encoders): a JSON event is ASCII, one line, parses, has no duplicate key in any object and
carries the envelope; a text event has as many lines as the same message with a harmless string in the same place, and
no control character; a peer-chosen string changes only string values, never the key structure."""
import glob
import json
import os
import random
import struct

from .registry import bounded, replayer, harness_canary
from . import harness as H

_state = {}


def session():
    if 'neg' not in _state:
        nb = H.neighbor(families='all;', capability='operational enable;')
        fams = sorted(nb.families())
        caps = H.std_caps(65001, families=[(int(a), int(s)) for a, s in fams])
        caps.append(H.cap(0xB9, b''))  # operational
        neg, _, _ = H.negotiated(nb, H.peer_open_bytes(65001, 180, '9.9.9.9', caps))
        _state['nb'], _state['neg'] = nb, neg
    return _state['nb'], _state['neg']


def session_nexthop():
    """all families again, with the extended next-hop encoding (RFC 8950) negotiated for ipv4 unicast only: the
    other families must decode exactly as they do without it"""
    if 'neg_nh' not in _state:
        nb = H.neighbor(families='all;', capability='operational enable; nexthop enable;', extra='nexthop { ipv4 unicast ipv6; }')
        fams = sorted(nb.families())
        caps = H.std_caps(65001, families=[(int(a), int(s)) for a, s in fams], nexthop=[(1, 1, 2)])
        caps.append(H.cap(0xB9, b''))
        neg, _, _ = H.negotiated(nb, H.peer_open_bytes(65001, 180, '9.9.9.9', caps))
        if not neg.nexthop:
            raise RuntimeError('harness: extended next-hop was not negotiated')
        _state['nb_nh'], _state['neg_nh'] = nb, neg
    return _state['nb_nh'], _state['neg_nh']


def corpus():
    """(type, body, source) from the repository's QA files: every raw message they record"""
    if 'corpus' in _state:
        return _state['corpus']
    out = []
    qa = os.path.join(os.environ.get('PYVC_REPO', '/repo'), 'qa')
    for f in sorted(glob.glob(qa + '/encoding/*.ci') + glob.glob(qa + '/api/*.ci')):
        for line in open(f, errors='replace'):
            p = line.strip().split(':')
            if len(p) >= 6 and p[1] == 'raw':
                try:
                    out.append((int(p[4], 16), bytes.fromhex(p[5]), os.path.basename(f)))
                except ValueError:
                    pass
    for f in sorted(glob.glob(qa + '/decoding/*')):
        ls = open(f, errors='replace').read().split('\n')
        t = {'update': 2, 'open': 1, 'notification': 3}.get(ls[0].split()[0] if ls and ls[0].split() else '')
        if t and len(ls) > 1:
            try:
                raw = bytes.fromhex(ls[1].strip().replace(':', ''))
            except ValueError:
                continue
            if raw[:16] == b'\xff' * 16:
                raw = raw[19:]
            out.append((t, raw, os.path.basename(f)))
    seen, uniq = set(), []
    for t, b, s in out:
        if (t, b) not in seen:
            seen.add((t, b))
            uniq.append((t, b, s))
    _state['corpus'] = uniq
    return uniq


class _Fsm:
    def name(self):
        return 'ESTABLISHED'


def encoders():
    from exabgp.reactor.api.response import Response

    if 'enc' not in _state:
        _state['enc'] = {'json6': Response.JSON('6.0.0'), 'json4': Response.V4.JSON('4.0.1'), 'text6': Response.Text('6.0.0'), 'text4': Response.V4.Text('4.0.1')}
    return _state['enc']


def processes():
    """a real Processes object in asynchronous mode: write() renders the bytes and queues them"""
    from exabgp.reactor.api.processes import Processes

    if 'proc' not in _state:
        p = Processes()
        p._process['probe'] = object()
        p._async_mode = True
        _state['proc'] = p
    return _state['proc']


def queue(string):
    """what Processes.write queues for the process: bytes, or the exception it raises"""
    p = processes()
    p._write_queue.pop('probe', None)
    p.write('probe', string)
    q = p._write_queue.get('probe')
    return b''.join(q) if q else b''


def render(mtype, body, direction='receive', packets=True):
    """-> ('undecodable', reason) or ('ok', {encoder: bytes | None | Exception})"""
    from exabgp.bgp.message import Message

    nb, neg = session()
    try:
        m = Message.unpack(mtype, memoryview(body), neg)
    except Exception as e:  # noqa
        return 'undecodable', f'{type(e).__name__}'
    header = b'\xff' * 16 + struct.pack('!HB', 19 + len(body), mtype)
    wire = body
    if not packets:
        # the events as they are written without the `packets` option: no hex of the message beside the fields
        header, body = b'', b''
    out = {}
    for name, enc in encoders().items():
        try:
            if mtype == 1:
                s = enc.open(nb, direction, m, header, body, neg)
            elif mtype == 2:
                s = enc.update(nb, direction, m if getattr(m, 'IS_EOR', False) else m.data, header, body, neg)
            elif mtype == 3:
                s = enc.notification(nb, direction, m, header, body, neg)
            elif mtype == 4:
                s = enc.keepalive(nb, direction, header, body, neg)
            elif mtype == 5:
                s = enc.refresh(nb, direction, m, header, body, neg)
            elif mtype == 6:
                s = enc.operational(nb, direction, m.category, m, header, body, neg)
            else:
                continue
            out[name] = None if s is None else queue(s)
        except Exception as e:  # noqa
            out[name] = e
    if mtype == 3:
        # the session also goes down with the peer's text as the reason (Peer._run -> Processes.down)
        for name, enc in encoders().items():
            try:
                s = enc.down(nb, f'peer reset, message [{m}] error[{m.data!r}]' if False else f'notification received ({m.code},{m.subcode}) {m}')
                out[name + ':down'] = None if s is None else queue(s)
            except Exception as e:  # noqa
                out[name + ':down'] = e
    return 'ok', out


class Dup(ValueError):
    pass


def _nodup(pairs):
    d = {}
    for k, v in pairs:
        if k in d:
            raise Dup(k)
        d[k] = v
    return d


def skeleton(x):
    if isinstance(x, dict):
        return {k: skeleton(v) for k, v in x.items()}
    if isinstance(x, list):
        return [skeleton(v) for v in x]
    return type(x).__name__


class NotJson(ValueError):
    pass


def _no_constant(name):
    # Python's json accepts NaN / Infinity / -Infinity; RFC 8259 does not
    raise NotJson(name)


def check_json(data):
    """-> (problem or None, parsed or None)"""
    try:
        text = data.decode('ascii')
    except UnicodeDecodeError:
        return 'the JSON event is not ASCII', None
    if not text.endswith('\n') or '\n' in text[:-1] or '\r' in text:
        return 'the JSON event is not exactly one line', None
    try:
        ev = json.loads(text, object_pairs_hook=_nodup, parse_constant=_no_constant)
    except NotJson as e:
        return f'the JSON event holds the bare constant {e}, which is not JSON (RFC 8259 section 6)', None
    except Dup as e:
        return f'duplicate key "{e}" inside one JSON object', None
    except ValueError as e:
        return f'the JSON event does not parse: {str(e)[:80]}', None
    if not isinstance(ev, dict):
        return 'the JSON event is not an object', None
    for k in ('exabgp', 'time', 'host', 'pid', 'ppid', 'type'):
        if k not in ev:
            return f'the JSON envelope lacks "{k}"', None
    if 'neighbor' in ev:
        n = ev['neighbor']
        if not isinstance(n, dict) or set(n.get('address', {})) != {'local', 'peer'} or set(n.get('asn', {})) != {'local', 'peer'}:
            return 'the JSON envelope has no well-formed neighbor address/asn', None
    return None, ev


def check_text(data):
    try:
        text = data.decode('ascii')
    except UnicodeDecodeError:
        return 'the text event is not ASCII', 0
    if not text.endswith('\n'):
        return 'the text event does not end with a newline', 0
    lines = text[:-1].split('\n')
    # Processes.write appends one newline to an event which already ends with one: the empty last line is the encoder's own
    for ln in lines:
        for ch in ln:
            if ord(ch) < 0x20 or ord(ch) == 0x7F:
                return f'control character {ch!r} inside a text event line', len(lines)
    return None, len(lines)


def judge(mtype, body, benign=None):
    """([failure records, at most one per encoder], decode status).  benign: the same message with harmless strings in
    the same places (structure reference)"""
    st, out = render(mtype, body)
    inp = {'type': mtype, 'body': body.hex()}
    fails = []
    if st != 'ok':
        return fails, st
    ref = None
    if benign is not None and benign != body:
        st2, ref = render(mtype, benign)
        if st2 != 'ok':
            ref = None
    for name, data in out.items():
        if isinstance(data, Exception):
            fails.append({'what': f'event cannot be rendered / written ({name}): {type(data).__name__}: {str(data)[:100]}', 'input': inp, 'encoder': name})
            continue
        if data is None or data == b'':
            continue
        if name.startswith('json'):
            prob, ev = check_json(data)
            if prob:
                fails.append({'what': f'{prob} ({name})', 'input': inp, 'encoder': name, 'event': data[:300].decode('ascii', 'replace')})
                continue
            if ref is not None and isinstance(ref.get(name), bytes) and ref[name]:
                p2, ev2 = check_json(ref[name])
                if p2 is None and skeleton(ev) != skeleton(ev2):
                    fails.append({'what': f'a peer-chosen string changes the structure of the JSON event ({name})', 'input': inp, 'benign': benign.hex(), 'encoder': name})
        else:
            prob, n = check_text(data)
            if prob:
                fails.append({'what': f'{prob} ({name})', 'input': inp, 'encoder': name, 'event': data[:300].decode('ascii', 'replace')})
                continue
            if ref is not None and isinstance(ref.get(name), bytes) and ref[name]:
                p2, n2 = check_text(ref[name])
                if p2 is None and n != n2:
                    fails.append({'what': f'a peer-chosen string changes the number of lines of the text event: {n} instead of {n2} ({name})', 'input': inp, 'benign': benign.hex(), 'encoder': name})
    return fails, st


HOSTILE = [
    b'"', b'\\', b'\n', b'\r\n', b'\x00', b'\x7f', b'\x1b[31m', b'",\n"forged": "', b'" }, "x": { "', b'\xc3\xa9', b'\xe2\x80\xa8', b'\xff\xfe', b'\xc0\xaf', b'}', b'{', b',', b': ', b'\t',
    b'\nneighbor 1.2.3.4 down - forged\n', b'\\u0000', b'\\"', b"'", b' ', b'\x85',
]


def hostile(rnd, n):
    """n bytes mixing hostile fragments and letters"""
    out = b''
    while len(out) < n:
        out += rnd.choice(HOSTILE) if rnd.random() < 0.6 else bytes([rnd.choice(b'abcXYZ019-. ')])
    return out[:n]


def ascii_runs(body, minimum=4):
    runs, i = [], 0
    while i < len(body):
        j = i
        while j < len(body) and 0x20 <= body[j] < 0x7F:
            j += 1
        if j - i >= minimum:
            runs.append((i, j))
        i = max(j, i + 1)
    return runs


def open_with(strings):
    """OPEN with FQDN (73) and software-version (75) capabilities carrying the given byte strings"""
    host, domain, soft = strings
    caps = H.std_caps(65001)
    caps.append(H.cap(73, bytes([len(host)]) + host + bytes([len(domain)]) + domain))
    caps.append(H.cap(75, bytes([len(soft)]) + soft))
    return H.peer_open_bytes(65001, 180, '9.9.9.9', caps)


def notification_with(code, sub, text, shutdown_form):
    if shutdown_form:
        return bytes([code, sub, len(text)]) + text
    return bytes([code, sub]) + text


def operational_with(code, text):
    # ADM 0x01 / ASM 0x02: afi(2) safi(1) + utf8 text ; header: type(2) length(2)
    payload = struct.pack('!HB', 1, 1) + text
    return struct.pack('!HH', code, len(payload)) + payload


def bgpls_node_with(name):
    """UPDATE carrying a BGP-LS node NLRI and a BGP-LS attribute (29) with node name (1026) and opaque (1025)"""
    from spec import wire as W

    local = struct.pack('!HH', 256, 12) + struct.pack('!HHI', 512, 4, 65001) + b''  # local node descriptor: AS
    local = struct.pack('!HH', 256, 8) + struct.pack('!HHI', 512, 4, 65001)
    nlri_body = bytes([3]) + struct.pack('!Q', 0) + local  # protocol-id OSPFv2, identifier, local node descriptors
    nlri = struct.pack('!HH', 1, len(nlri_body)) + nlri_body
    ls_attr = struct.pack('!HH', 1026, len(name)) + name + struct.pack('!HH', 1025, len(name)) + name
    attrs = W.origin(0) + W.as_path([65001], True) + W.local_pref(100) + W.attr(0x80, 29, ls_attr) + W.mp_reach(16388, 71, bytes([192, 0, 2, 1]), nlri)
    return W.update_body(b'', attrs, b'')


def generated(rnd, tier):
    """(type, hostile body, benign body, what)"""
    n = 40 if tier == 'thorough' else 12
    for _ in range(n):
        ls = [rnd.randint(1, 30) for _ in range(3)]
        hs = tuple(hostile(rnd, k) for k in ls)
        yield 1, open_with(hs), open_with(tuple(b'a' * k for k in ls)), 'open hostname/domain/software-version'
    for _ in range(n):
        k = rnd.randint(0, 60)
        sub = rnd.choice([2, 4])
        yield 3, notification_with(6, sub, hostile(rnd, k), True), notification_with(6, sub, b'a' * k, True), 'shutdown communication'
        code, sub = rnd.choice([(1, 1), (2, 2), (3, 1), (6, 1), (6, 9), (9, 9)])
        yield 3, notification_with(code, sub, hostile(rnd, k), False), notification_with(code, sub, b'a' * k, False), 'notification data'
    for _ in range(n):
        k = rnd.randint(1, 60)
        code = rnd.choice([1, 2])
        yield 6, operational_with(code, hostile(rnd, k)), operational_with(code, b'a' * k), 'operational advisory'
    for _ in range(n):
        k = rnd.randint(1, 40)
        yield 2, bgpls_node_with(hostile(rnd, k)), bgpls_node_with(b'a' * k), 'bgp-ls node name / opaque'


def update_shapes():
    """generated UPDATE bodies (with what they are): attribute subsets, TLV multiplicity, PMSI sizes, IEEE floats, ..."""
    from spec import wire as W

    out = []
    # every SUBSET of the common attributes (an attribute set in which only one member -- or none -- renders is where a
    # hand-assembled member list gets a stray separator), announced, withdrawn, or both in one UPDATE
    import itertools

    parts = [
        ('ORIGIN', W.origin(0)),
        ('empty AS_PATH', W.as_path([], True)),
        ('NEXT_HOP', W.next_hop('192.0.2.1')),
        ('MED', W.unknown(4, (5).to_bytes(4, 'big'), transitive=False, optional=True)),
        ('LOCAL_PREF', bytes([0x40, 5, 4, 0, 0, 0, 100])),
        ('COMMUNITY', bytes([0xC0, 8, 4, 0xFD, 0xE8, 0, 1])),
    ]
    for r in range(0, len(parts) + 1):
        for combo in itertools.combinations(parts, r):
            blob = b''.join(t for _, t in combo)
            names = ', '.join(n for n, _ in combo) or 'no attribute'
            for wd, nl, shape in ((b'', bytes([24, 10, 0, 0]), 'announce'), (bytes([24, 10, 0, 1]), b'', 'withdraw'), (bytes([24, 10, 0, 1]), bytes([24, 10, 0, 0]), 'announce and withdraw')):
                out.append((W.update_body(wd, blob, nl), f'UPDATE ({shape}) with exactly [{names}]'))
    # attributes whose value is a list of TLVs rendered as MEMBERS of one object: each known TLV once, twice, next to
    # another, and an unknown code, at both nesting levels (a peer may repeat any of them); and the attributes which
    # come in a 2-byte / 4-byte pair under one key
    import struct as _st
    import socket as _so

    def tlv(code, value):
        return bytes([code]) + _st.pack('!H', len(value)) + value

    base = W.origin(0) + W.as_path([], True) + W.next_hop('10.0.0.1')
    sid = _so.inet_pton(_so.AF_INET6, '2001:db8::1')
    structure = tlv(1, bytes([32, 16, 16, 0, 16, 48]))
    label_index = tlv(1, b'\x00\x00\x00' + _st.pack('!I', 5))
    srgb = tlv(3, b'\x00\x00' + (16000).to_bytes(3, 'big') + (8000).to_bytes(3, 'big'))

    def sid_info(subsub):
        return tlv(1, b'\x00' + sid + b'\x00' + _st.pack('!H', 0x13) + b'\x00' + subsub)

    subsubs = {'none': b'', 'structure': structure, 'structure twice': structure * 2, 'unknown': tlv(9, b'ab'), 'unknown twice': tlv(9, b'ab') + tlv(9, b'cd'), 'structure and unknown': structure + tlv(9, b'ab')}
    tops = {'label-index': label_index, 'srgb': srgb, 'unknown 9': tlv(9, b'ab'), 'unknown 9 again': tlv(9, b'cd')}
    for k, v in subsubs.items():
        tops[f'l3-service ({k})'] = tlv(5, b'\x00' + sid_info(v))
        tops[f'l2-service ({k})'] = tlv(6, b'\x00' + sid_info(v))
    names = list(tops)
    for a in names:
        out.append((W.update_body(b'', base + W.unknown(40, tops[a]), bytes([24, 10, 0, 0])), f'Prefix-SID with [{a}]'))
        out.append((W.update_body(b'', base + W.unknown(40, tops[a] * 2), bytes([24, 10, 0, 0])), f'Prefix-SID with [{a}] twice'))
    for a, b in itertools.combinations(names[:8], 2):
        out.append((W.update_body(b'', base + W.unknown(40, tops[a] + tops[b]), bytes([24, 10, 0, 0])), f'Prefix-SID with [{a}] and [{b}]'))
    # PMSI tunnel (22): every tunnel type with every tunnel identifier size an address family could give it -- what decodes
    # must render (the identifier of ingress replication is an address: 4 or 16 octets)
    for ttype in range(0, 9):
        for idlen in (0, 4, 8, 12, 16, 20, 24):
            value = bytes([0, ttype]) + (10000 << 4).to_bytes(3, 'big') + bytes(range(1, idlen + 1))
            out.append((W.update_body(b'', base + W.unknown(22, value), bytes([24, 10, 0, 0])), f'PMSI tunnel type {ttype} with an identifier of {idlen} octets'))
    # IEEE floats the peer chooses: NaN and the infinities must still render, and as JSON
    for bits, fname in ((0x7FC00000, 'NaN'), (0x7F800000, '+inf'), (0xFF800000, '-inf'), (0x42C80000, '100.0')):
        f4 = bits.to_bytes(4, 'big')
        for sub, cname in ((0x06, 'traffic-rate'), (0x0C, 'traffic-rate-packets')):
            out.append((W.update_body(b'', base + W.unknown(16, bytes([0x80, sub, 0, 0]) + f4), bytes([24, 10, 0, 0])), f'{cname} extended community with rate {fname}'))
        for tlv_code, n in ((1089, 1), (1090, 1), (1091, 8)):
            out.append((W.update_body(b'', base + W.unknown(29, _st.pack('!HH', tlv_code, 4 * n) + f4 * n, transitive=False), bytes([24, 10, 0, 0])), f'BGP-LS TLV {tlv_code} with bandwidth {fname}'))
    for n in (1, 13, 14, 200, 1800):
        blob = base + bytes([0x90, 29]) + _st.pack('!H', 4 + n) + _st.pack('!HH', 1027, n) + b'\xff' * n
        out.append((W.update_body(b'', blob, bytes([24, 10, 0, 0])), f'BGP-LS IS-IS area TLV of {n} octets'))
    # tunnel encapsulation (23): the same tunnel type twice, the same SR policy sub-TLV twice
    pref = bytes([12, 6, 0, 0]) + (100).to_bytes(4, 'big')
    prio = bytes([15, 2, 5, 0])
    for inner, what in ((pref, 'preference'), (pref + pref, 'preference twice'), (pref + prio, 'preference and priority'), (prio + prio, 'priority twice')):
        t15 = _st.pack('!HH', 15, len(inner)) + inner
        out.append((W.update_body(b'', base + W.unknown(23, t15), bytes([24, 10, 0, 0])), f'tunnel encapsulation, SR policy with {what}'))
        out.append((W.update_body(b'', base + W.unknown(23, t15 + t15), bytes([24, 10, 0, 0])), f'tunnel encapsulation, SR policy tunnel twice ({what})'))
    out.append((W.update_body(b'', base + W.unknown(23, _st.pack('!HH', 99, 2) + b'ab' + _st.pack('!HH', 99, 2) + b'cd'), bytes([24, 10, 0, 0])), 'tunnel encapsulation, unknown tunnel type twice'))
    for asn2, asn4, what in ((23456, 70000, 'AS_TRANS + 4-byte'), (65001, 70000, 'real 2-byte AS + 4-byte'), (23456, None, 'AS_TRANS alone'), (None, 70000, 'AS4_AGGREGATOR alone')):
        blob = base
        if asn2 is not None:
            blob += W.unknown(7, _st.pack('!I', asn2) + bytes([1, 1, 1, 1]))
        if asn4 is not None:
            blob += W.unknown(18, _st.pack('!I', asn4) + bytes([1, 1, 1, 1]))
        out.append((W.update_body(b'', blob, bytes([24, 10, 0, 0])), f'AGGREGATOR / AS4_AGGREGATOR: {what}'))
    return out


@bounded('C13', 'events-from-wire')
def events_from_wire(tier, seed):
    rnd = random.Random(seed)
    fails, evals, distinct, samples, undec = [], 0, set(), [], 0
    decoded_by_type = {}

    def one(t, body, benign, what):
        nonlocal evals, undec
        evals += 1
        distinct.add((t, body))
        fs, st = judge(t, body, benign)
        if st != 'ok':
            undec += 1
        else:
            decoded_by_type[t] = decoded_by_type.get(t, 0) + 1
        for f in fs:
            f['what_input'] = what
            fails.append(f)

    for t, body, src in corpus():
        one(t, body, None, f'qa corpus {src}')
        if len(samples) < 3:
            samples.append({'type': t, 'body': body.hex()[:120], 'source': src})
    # printable runs inside corpus messages replaced by hostile bytes of the same length (lengths stay consistent)
    muts = 3 if tier == 'thorough' else 1
    for t, body, src in corpus():
        runs = ascii_runs(body)
        for _ in range(muts if runs else 0):
            i, j = rnd.choice(runs)
            hb = body[:i] + hostile(rnd, j - i) + body[j:]
            bb = body[:i] + b'a' * (j - i) + body[j:]
            one(t, hb, None, f'qa corpus {src} with the text at [{i}:{j}] replaced')
    for t, hb, bb, what in generated(rnd, tier):
        one(t, hb, bb, what)
    # UPDATEs with one or two malformed attributes (RFC 7606: they still decode, with discard / treat-as-withdraw markers
    # inside the attribute collection, and the event must still be one well-formed record)
    from . import pipeline as P
    from .c08 import corruptions
    from spec import wire as W

    for _ in range(60 if tier == 'thorough' else 15):
        body, attrs, wd, nlri = P.gen_update(rnd, 'ebgp4')
        for pair in range(6 if tier == 'thorough' else 3):
            idx = rnd.sample(range(len(attrs)), min(2, len(attrs))) if pair else [rnd.randrange(len(attrs))]
            new = list(attrs)
            names = []
            for k in idx:
                cname, ctlv = rnd.choice(corruptions(attrs[k][1]))
                new[k] = (attrs[k][0], ctlv)
                names.append(f'{attrs[k][0]}: {cname}')
            one(2, W.update_body(wd, b''.join(t for _, t in new), nlri), None, 'generated UPDATE with malformed attributes (' + '; '.join(names) + ')')
    for body_, what_ in update_shapes():
        one(2, body_, None, what_)
    return {
        'evaluations': evals,
        'distinct_nontrivial': len(distinct),
        'bound': f'Prefix-SID TLVs (label-index, SRGB, SRv6 L3 / L2 service with 6 sub-sub-TLV shapes, unknown) once, twice and in pairs; AGGREGATOR / AS4_AGGREGATOR pairs; every subset of 6 common attributes x announce / withdraw / both; every raw message recorded under /repo/qa (encoding, api, decoding: {len(corpus())} distinct, all families the project tests) + the same with printable runs replaced by hostile bytes + generated OPEN (hostname, domain, software version), NOTIFICATION (shutdown communication, data), OPERATIONAL advisory and BGP-LS node name / opaque with hostile bytes + generated UPDATEs with one or two malformed attributes; x 4 encoders; {undec} inputs did not decode and are not counted as covered; decoded per message type {decoded_by_type}',
        'rule': 'one case = one message body; distinct by (type, body)',
        'samples': samples,
        'failures': fails,
    }


@replayer('C13', 'events-from-wire')
def _replay(f):
    body = bytes.fromhex(f['input']['body'])
    benign = bytes.fromhex(f['benign']) if 'benign' in f else None
    return not [x for x in judge(f['input']['type'], body, benign)[0] if x.get('encoder') == f.get('encoder')]


# pairs of DIFFERENT messages: in the first a peer-chosen string spells out, with the delimiters of the text format, the
# fields the second really carries (whole messages in hex: marker, length, type, body)
FORGED_PAIRS = [
    ('open: domain name `), software(evil` / a real software-version capability', 'ffffffffffffffffffffffffffffffff00340104fffd00b4010203041702154913016110292c20736f667477617265286576696c', 'ffffffffffffffffffffffffffffffff002d0104fffd00b401020304100205490301610002074b05046576696c'),
    ('open: host `a b` domain `c` / host `a` domain `b c`', 'ffffffffffffffffffffffffffffffff00270104fffd00b4010203040a02084906036120620163', 'ffffffffffffffffffffffffffffffff00270104fffd00b4010203040a02084906016103622063'),
    ('update: BGP-LS node name `x large-community 1:2:3` / node name x and a real LARGE_COMMUNITY', 'ffffffffffffffffffffffffffffffff004c0200000033400101004002004003040102030440050400000064801d1b0402001778206c617267652d636f6d6d756e69747920313a323a33080a', 'ffffffffffffffffffffffffffffffff0045020000002c400101004002004003040102030440050400000064801d050402000178c0200c000000010000000200000003080a'),
    ('update: SR policy name `p" priority 7 policy-name "q` / three real sub-TLVs', 'ffffffffffffffffffffffffffffffff0055020000003c400101004002004003040102030440050400000064c01724000f002082001d007022207072696f72697479203720706f6c6963792d6e616d65202271080a', 'ffffffffffffffffffffffffffffffff00420200000029400101004002004003040102030440050400000064c01711000f000d82000200700f01078200020071080a'),
    ('open: host name a<LF>b / host name a, backslash, n, b', 'ffffffffffffffffffffffffffffffff00260104fffd00b401020304090207490503610a6200', 'ffffffffffffffffffffffffffffffff00270104fffd00b4010203040a0208490604615c6e6200'),
    ('operational: advisory <NUL> / advisory backslash x00', 'ffffffffffffffffffffffffffffffff001b060001000400010100', 'ffffffffffffffffffffffffffffffff001e06000100070001015c783030'),
]
# one message whose string closes its own quotes and goes on with fields of the event itself
SELF_FORGED = [('operational: advisory `x" header 0xFF body 0x00 "`', 'ffffffffffffffffffffffffffffffff0034060001001d000101782220686561646572203078464620626f647920307830302022', ' header 0xFF body 0x00 ""')]


def forged_case(what, forged, honest):
    fb, hb = bytes.fromhex(forged), bytes.fromhex(honest)
    inp = {'what': what, 'type': fb[18], 'forged': forged, 'honest': honest}
    st1, a = render(fb[18], fb[19:], packets=False)
    st2, b = render(hb[18], hb[19:], packets=False)
    if st1 != 'ok' or st2 != 'ok':
        return None  # refused at decode: nothing is written for it
    for name in a:
        if not name.startswith('text') or isinstance(a[name], Exception) or isinstance(b.get(name), Exception) or not a[name]:
            continue
        if a[name] == b.get(name):
            return {'what': f'a peer-chosen string forges fields: two different messages are written as the same text event ({name})', 'input': inp, 'encoder': name, 'event': a[name][:300].decode('ascii', 'replace')}
    return None


def self_forged_case(what, message, tail):
    mb = bytes.fromhex(message)
    inp = {'what': what, 'type': mb[18], 'forged': message, 'honest': ''}
    st, a = render(mb[18], mb[19:], packets=False)
    if st != 'ok':
        return None
    for name, data in a.items():
        if name.startswith('text') and isinstance(data, bytes) and data.rstrip(b'\n').endswith(tail.encode()):
            return {'what': f'a peer-chosen string closes its own quotes and writes fields of the event ({name})', 'input': inp, 'encoder': name, 'event': data[:300].decode('ascii', 'replace')}
    return None


@bounded('C13', 'forged-fields-text')
def forged_fields_text(tier, seed):
    """PROPERTY: peer-chosen strings appear only as escaped values and cannot add, remove or forge a field.  The text format
    has delimiters of its own (quotes, parentheses, brackets, the spaces between keywords): two DIFFERENT messages, one
    spelling out in a string what the other carries in fields, must not be written as the same record."""
    fails = [f for f in [forged_case(*p) for p in FORGED_PAIRS] + [self_forged_case(*p) for p in SELF_FORGED] if f]
    return {'evaluations': len(FORGED_PAIRS) + len(SELF_FORGED), 'distinct_nontrivial': len(FORGED_PAIRS) + len(SELF_FORGED), 'bound': f'{len(FORGED_PAIRS)} pairs of different messages (OPEN host / domain / software names, BGP-LS node name against a path attribute, SR policy name against sub-TLVs, a control character against its escaped spelling) and {len(SELF_FORGED)} self-closing advisory, text API v4 and v6', 'rule': 'one case = one pair of messages', 'samples': [{'pair': FORGED_PAIRS[0][0]}], 'failures': fails}


@replayer('C13', 'forged-fields-text')
def _replay_forged(f):
    i = f['input']
    if not i['honest']:
        return all(self_forged_case(*p) is None for p in SELF_FORGED if p[1] == i['forged'])
    return forged_case(i['what'], i['forged'], i['honest']) is None


@bounded('C13', 'oneline-every-code-point')
def oneline_every_code_point(tier, seed):
    """COMPLETE for its domain: the real oneline() on every one-character string (all 1,114,112 code points, surrogates
    included).  oneline() maps characters independently (a join over the characters of str(value)), so "every piece is
    printable ASCII" for every single character gives "the result is printable ASCII" for every string."""
    from exabgp.reactor.api.response.text import oneline

    fails, evals = [], 0
    for c in range(0x110000):
        evals += 1
        out = oneline(chr(c))
        if not out or any(not (0x20 <= ord(ch) <= 0x7E) for ch in out):
            if len(fails) < 5:
                fails.append({'what': f'oneline() lets U+{c:04X} through as {out!r}: not printable ASCII (a control character / line break in a text event, or an event Processes.write cannot encode)', 'input': {'code_point': c}})
    # independence of the characters (the lifting lemma), sampled: oneline(a + b) == oneline(a) + oneline(b)
    rnd = random.Random(seed)
    for _ in range(2000):
        a = ''.join(chr(rnd.choice([rnd.randrange(0x110000), rnd.randrange(0x100)])) for _ in range(rnd.randint(0, 6)))
        b = ''.join(chr(rnd.choice([rnd.randrange(0x110000), rnd.randrange(0x100)])) for _ in range(rnd.randint(0, 6)))
        evals += 1
        if oneline(a + b) != oneline(a) + oneline(b):
            fails.append({'what': 'oneline() does not map characters independently', 'input': {'a': [ord(x) for x in a], 'b': [ord(x) for x in b]}})
            break
    return {'evaluations': evals, 'distinct_nontrivial': 0x110000, 'bound': 'all 1,114,112 code points as one-character strings (complete for the per-character claim) + 2000 sampled concatenations for independence', 'rule': 'one case = one code point', 'samples': [{'code_point': 0x85}, {'code_point': 0x7F}, {'code_point': 0xE9}], 'failures': fails}


@replayer('C13', 'oneline-every-code-point')
def _replay_oneline(f):
    from exabgp.reactor.api.response.text import oneline

    if 'code_point' in f['input']:
        out = oneline(chr(f['input']['code_point']))
        return bool(out) and all(0x20 <= ord(ch) <= 0x7E for ch in out)
    a = ''.join(chr(x) for x in f['input']['a'])
    b = ''.join(chr(x) for x in f['input']['b'])
    return oneline(a + b) == oneline(a) + oneline(b)


def _canary(obj, name, replacement, probe):
    real = getattr(obj, name)
    setattr(obj, name, replacement)
    try:
        return bool(probe())
    finally:
        setattr(obj, name, real)
        _state.pop('enc', None)


_HOST = (b'a\nneighbor 1.2.3.4 down - forged', b'x"y', b'v\x7f1')


@harness_canary('C13', 'JSON strings written without escaping')
def _hc_json():
    from exabgp.reactor.api.response.json import JSON

    body, benign = open_with(_HOST), open_with((b'a' * 33, b'aaa', b'aaaa'))
    return not judge(1, body, benign)[0] and _canary(JSON, '_string', lambda self, obj: f'"{obj}"', lambda: judge(1, body, benign)[0])


@harness_canary('C13', 'text events written without escaping')
def _hc_text():
    from exabgp.reactor.api.response.v4 import text as T4
    from exabgp.reactor.api.response import text as T6

    import exabgp.bgp.message.open.capability.hostname as HN
    import exabgp.bgp.message.open.capability.software as SW

    body, benign = open_with(_HOST), open_with((b'a' * 33, b'aaa', b'aaaa'))
    # both layers off: oneline() over the whole record, and the escaping the capability classes do for their own strings
    ident = lambda value, bare=False: str(value)  # noqa: E731
    layers = [(T4, 'oneline', str), (T6, 'oneline', str)] + [(m, 'peertext', ident) for m in (HN, SW) if hasattr(m, 'peertext')]

    def nest(k):
        if k == len(layers):
            return judge(1, body, benign)[0]
        return _canary(layers[k][0], layers[k][1], layers[k][2], lambda: nest(k + 1))

    return nest(0)


@harness_canary('C13', 'duplicate key in an attribute object')
def _hc_dup():
    from exabgp.bgp.message.update.attribute.collection import AttributeCollection

    real = AttributeCollection.json
    t, body, _src = next(c for c in corpus() if c[0] == 2 and len(c[1]) > 30)

    def twice(self, *a, **k):
        r = real(self, *a, **k)
        return r + ', ' + r if r else r

    return not judge(t, body)[0] and _canary(AttributeCollection, 'json', twice, lambda: judge(t, body)[0])


# ---------------------------------------------------------------------------------------------------------------------
# STATIC: fragment typing of the JSON assembler methods (pyvc/fragtype.py + contracts/jsonfrag.py).  Not a sweep over
# inputs: for every path of every listed method of the REAL class JSON, the returned template derives a JSON object in
# the JSON grammar with its holes as nonterminals -- i.e. for ALL values of the holes, peer chosen ones included.
JSON_PY = ('src', 'exabgp', 'reactor', 'api', 'response', 'json.py')


@bounded('C13', 'json-fragment-typing')
def json_fragment_typing(tier, seed, path=None):
    from pyvc import fragtype as FT
    from contracts import jsonfrag as JF

    path = path or os.path.join(os.environ.get('PYVC_REPO', '/repo'), *JSON_PY)
    tree, cls = FT.load(path, 'JSON')
    fails, evals, undecided, assumptions = [], 0, [], set()
    consts = FT.module_constants(tree)

    def check(method, args, goal):
        nonlocal evals
        it = FT.Interp(cls, JF.SPEC, consts)
        try:
            results = it.run_method(method, args)
        except FT.Failure as e:
            evals += 1
            fails.append({'what': f'JSON.{method}: {e}', 'input': {'method': method}})
            return
        except FT.Undecided as e:
            undecided.append(f'JSON.{method}: {e}')
            return
        for choices, r in results:
            evals += 1
            try:
                if r is None and goal == 'VALUE':
                    raise FT.Failure('a path returns None')
                t = r if isinstance(r, FT.Tmpl) else FT.Tmpl([it.as_text(r, 'result')])
                _k, notes = FT.derive(t, goal)
                assumptions.update(notes)
            except FT.Failure as e:
                fails.append({'what': f'JSON.{method} (path {list(choices)}): {e}', 'input': {'method': method, 'path': list(choices)}})
        assumptions.update(it.assumptions)

    for m in JF.METHODS:
        check(m, JF.params(m), 'VALUE')
    # the escaping primitive itself: for a fragment the module built (VALUE), a number, and anything else
    for kind in ('VALUE', 'NUM', 'RAW'):
        it = FT.Interp(cls, JF.SPEC, consts)
        evals += 1
        f = _check_string_primitive(FT, it, kind)
        if f:
            fails.append({'what': f'JSON._string ({kind} argument): {f}', 'input': {'method': '_string', 'argument': kind}})
        assumptions.update(it.assumptions)
    if evals < 20:
        raise RuntimeError('fragment typing produced fewer than 20 obligations: the scan no longer sees the class')
    return {'evaluations': evals, 'distinct_nontrivial': evals, 'bound': f'STATIC, all values: every path of JSON.{{{", ".join(JF.METHODS)}}} (with _header, _neighbor and the _operational_* helpers inlined) and of JSON._string derives a JSON object / value with its holes as grammar nonterminals; NOT covered: update() / _update() (string surgery in loops: bounded only) and the json() methods of the message classes (assumed). Undecided: {undecided}. Assumptions: {sorted(assumptions)}', 'rule': 'one obligation = one path of one method', 'samples': [{'method': 'notification'}], 'failures': fails}


def _check_string_primitive(FT, it, kind):
    """JSON._string(obj) must return a JSON value for a _RawJSON (VALUE), an int / bool (NUM) and any other object (RAW)"""
    import ast as _ast

    fn = it.methods['_string']
    outs = []

    def run(stmts, env):
        for s in stmts:
            if isinstance(s, _ast.If):
                t = _ast.unparse(s.test)
                if '_RawJSON' in t:
                    cond = kind == 'VALUE'
                elif 'bool' in t:
                    if kind == 'NUM':
                        for c in (True, False):
                            if c:
                                run(s.body, dict(env))
                        continue
                    cond = False
                elif 'int' in t:
                    cond = kind == 'NUM'
                else:
                    return f'unexpected test {t}'
                if cond:
                    r = run(s.body, env)
                    if r is not None:
                        return r
                    return None if outs and outs[-1][0] == 'ret' else None
            elif isinstance(s, _ast.Return):
                outs.append(('ret', s.value))
                return None
            elif isinstance(s, _ast.Expr) and isinstance(s.value, _ast.Constant):
                continue
            else:
                return f'statement {type(s).__name__} outside the subset'
        return None

    err = run(fn.body, {})
    if err:
        return err
    if not outs:
        return 'no return reached'
    for _t, expr in outs:
        text = _ast.unparse(expr)
        if kind == 'VALUE' and text == 'str(obj)':
            continue
        if kind == 'NUM' and text in ('str(obj)', "'true' if obj else 'false'"):
            continue
        if isinstance(expr, _ast.Call) and _ast.unparse(expr.func) == 'json.dumps' and _ast.unparse(expr.args[0]) == 'str(obj)':
            try:
                it.spec['calls']['json.dumps'](it, expr, [None], {})
            except FT.Failure as e:
                return str(e)
            continue
        return f'returns {text}, which is not known to be a JSON value for this kind of argument'
    return None


@replayer('C13', 'json-fragment-typing')
def _replay_frag(f):
    r = json_fragment_typing('quick', 1)
    return not any(x['input'] == f['input'] for x in r['failures'])


def _edited_json_py(old, new):
    """the fragment-typing check on a copy of json.py with one textual edit (a canary: the edit must be refused)"""
    import tempfile

    src = open(os.path.join(os.environ.get('PYVC_REPO', '/repo'), *JSON_PY)).read()
    if src.count(old) != 1:
        return None  # the text is no longer there: the canary does not apply
    with tempfile.NamedTemporaryFile('w', suffix='.py', dir=os.environ.get('PYVC_TMP', '/tmp'), delete=False) as f:
        f.write(src.replace(old, new))
        name = f.name
    try:
        return bool(json_fragment_typing('quick', 1, path=name)['failures'])
    finally:
        os.unlink(name)


@harness_canary('C13', 'static: down reason spliced between quotes instead of going through _string')
def _hc_frag_reason():
    return _edited_json_py("self._kv(\n                    {\n                        'state': 'down',", "f'\"reason\": \"{reason}\", ' + self._kv(\n                    {\n                        'state': 'down',")


@harness_canary('C13', 'static: json.dumps without ASCII escaping')
def _hc_frag_ascii():
    return _edited_json_py('return json.dumps(str(obj))', 'return json.dumps(str(obj), ensure_ascii=False)')


@harness_canary('C13', 'static: the same key twice in one object')
def _hc_frag_dup():
    return _edited_json_py("                'subcode': message.subcode,\n", "                'subcode': message.subcode,\n                'code': message.subcode,\n")


@harness_canary('C13', 'static: separator kept when the content is empty')
def _hc_frag_sep():
    return _edited_json_py("sep2 = ', ' if content else ' '", "sep2 = ', '")


# ---------------------------------------------------------------------------------------------------------------------
# probe of a global assumption of the deductive layer: "logger calls and lazy message builders are dropped from the
# verified text: assumed pure and total".  Every other check runs with logging off; a running daemon logs.  The corpus and
# the hostile-string sweep are decoded and rendered again in a subprocess with DEBUG logging of every section switched on
# (the lazy builders -- lazynlri, lazyattribute, lazyformat, f-strings over peer data -- are then evaluated).
LOGPROBE = """
import os, sys, json
os.environ['exabgp_log_enable'] = 'true'
os.environ['exabgp_log_level'] = 'DEBUG'
os.environ['exabgp_log_all'] = 'true'
os.environ['exabgp_log_destination'] = 'stderr'
from exabgp.environment import getenv
from exabgp.logger import log
log.init(getenv())
from bounded import c13
r = c13.events_from_wire(sys.argv[1], int(sys.argv[2]))
print(json.dumps({'evaluations': r['evaluations'], 'failures': r['failures'][:5]}))
"""


@bounded('C13', 'events-with-debug-logging')
def events_with_debug_logging(tier, seed):
    import subprocess
    import sys

    root = os.path.dirname(os.path.dirname(os.path.abspath(__file__)))
    env = dict(os.environ)
    env['PYTHONPATH'] = os.path.join(os.environ.get('PYVC_REPO', '/repo'), 'src') + ':' + root
    with open(os.devnull, 'w') as null:
        p = subprocess.run([sys.executable, '-c', LOGPROBE, tier, str(seed)], stdout=subprocess.PIPE, stderr=null, env=env, timeout=1200, text=True)
    if p.returncode != 0 or not p.stdout.strip():
        return {'evaluations': 1, 'distinct_nontrivial': 1, 'bound': 'subprocess', 'rule': '', 'samples': [{}], 'failures': [{'what': f'decoding and rendering the corpus with DEBUG logging on ended with exit status {p.returncode} (an exception raised by a log message builder escapes where logging off hides it)', 'input': {'tier': tier}}]}
    r = json.loads(p.stdout.strip().splitlines()[-1])
    fails = r['failures']
    for f in fails:
        f['what'] = 'with DEBUG logging on: ' + f['what']
    return {'evaluations': r['evaluations'], 'distinct_nontrivial': r['evaluations'], 'bound': 'the events-from-wire sweep repeated in a subprocess with exabgp_log_level=DEBUG and every log section enabled (stderr discarded)', 'rule': 'as events-from-wire', 'samples': [{'log': 'DEBUG'}], 'failures': fails}


@replayer('C13', 'events-with-debug-logging')
def _replay_logging(f):
    return not events_with_debug_logging('quick', 1)['failures']
