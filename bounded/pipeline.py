"""the bounded decode pipeline: bytes -> real Message.unpack -> real JSON encoder -> real UPDATE handler -> Adj-RIB-In,
compared with the RFC reference (spec/render.py). Shared by C02, C03, C08, C13, C19."""
import asyncio
import json
import random
import socket

from spec import wire as W
from spec.render import expected_update
from . import harness as H

_sessions = {}


def get_session(kind):
    """kind: ebgp4 | ibgp2 | addpath"""
    if kind not in _sessions:
        if kind == 'addpath':
            nb = H.neighbor(capability='add-path send/receive;')
            body = H.peer_open_bytes(65001, 180, '9.9.9.9', H.std_caps(65001, addpath=[(1, 1, 3), (2, 1, 3)]))
            neg, _, _ = H.negotiated(nb, body)
            _sessions[kind] = (nb, neg)
        elif kind == 'enh':
            # extended next hop (RFC 8950) negotiated for ipv4 unicast: IPv4 prefixes may come in MP_REACH_NLRI with an
            # IPv6 next hop of 16 or 32 octets
            nb = H.neighbor(capability='nexthop enable;', extra='nexthop { ipv4 unicast ipv6; }')
            neg, _, _ = H.negotiated(nb, H.peer_open_bytes(65001, 180, '9.9.9.9', H.std_caps(65001, nexthop=[(1, 1, 2)])))
            if not neg.nexthop:
                raise RuntimeError('harness: extended next hop was not negotiated')
            _sessions[kind] = (nb, neg)
        elif kind in ('ibgp4-aigp', 'ibgp4-noaigp'):
            on = kind == 'ibgp4-aigp'
            nb = H.neighbor(local_as=65000, peer_as=65000, capability='aigp enable;' if on else '')
            caps = H.std_caps(65000)
            if on:
                caps.append(H.cap(26, b''))
            neg, _, _ = H.negotiated(nb, H.peer_open_bytes(65000, 180, '9.9.9.9', caps))
            _sessions[kind] = (nb, neg)
        else:
            _sessions[kind] = H.session(kind)
    return _sessions[kind]


def addpath_fn(kind):
    return (lambda afi, safi: True) if kind == 'addpath' else (lambda afi, safi: False)


NH6 = socket.inet_pton(socket.AF_INET6, '2001:db8::1')
LL6 = socket.inet_pton(socket.AF_INET6, 'fe80::1')


def gen_update(rnd, kind):
    """a well-formed UPDATE body built with the reference encoders; returns (body, parts) where parts lists the
    attribute TLVs separately so that corruptions can target one attribute"""
    asn4 = kind != 'ibgp2'
    ap = kind == 'addpath'
    pid = (lambda: rnd.randint(1, 9)) if ap else (lambda: None)
    attrs = [('origin', W.origin(rnd.choice([0, 1, 2])))]
    asns = [rnd.choice([65001, 65002, 64512, 23456 if not asn4 else 4200000001]) for _ in range(rnd.randint(0, 4))]
    has_set = rnd.random() < 0.2 and bool(asns)
    has_confed = not has_set and rnd.random() < 0.2 and bool(asns)
    has_lead_set = not has_set and not has_confed and rnd.random() < 0.15 and bool(asns)
    if has_lead_set:
        # a leading AS_SET of two members (an aggregate further down the path), then the sequence: RFC 6793 4.2.3 counts
        # the set as ONE AS when it works out how much of AS_PATH to prepend to AS4_PATH
        w = 4 if asn4 else 2
        members = [64700, 64701]
        attrs.append(('as_path', W.attr(0x40, 2, bytes([1, 2]) + b''.join(a.to_bytes(w, 'big') for a in members) + bytes([2, len(asns)]) + b''.join(a.to_bytes(w, 'big') for a in asns))))
    elif has_confed:
        # a leading AS_CONFED_SEQUENCE (RFC 5065), then the sequence: RFC 6793 4.2.3 keeps a leading confederation
        # segment when it prepends the start of AS_PATH to AS4_PATH
        w = 4 if asn4 else 2
        confed = [rnd.choice([65100, 65101, 64999]) for _ in range(rnd.randint(1, 2))]
        attrs.append(('as_path', W.attr(0x40, 2, bytes([3, len(confed)]) + b''.join(a.to_bytes(w, 'big') for a in confed) + bytes([2, len(asns)]) + b''.join(a.to_bytes(w, 'big') for a in asns))))
    elif has_set:
        attrs.append(('as_path', W.attr(0x40, 2, bytes([2, len(asns)]) + b''.join(a.to_bytes(4 if asn4 else 2, 'big') for a in asns) + bytes([1, 1]) + (65009).to_bytes(4 if asn4 else 2, 'big'))))
    else:
        attrs.append(('as_path', W.as_path(asns, asn4)))
    if not asn4 and rnd.random() < (0.8 if (has_confed or has_lead_set) else 0.5) and asns and not has_set:  # AS4_PATH consistent with AS_PATH (RFC 6793 4.2.2)
        # (with a confederation segment in front also MORE numbers than the sequence holds: RFC 5065 5.3 does not count
        # the confederation members, so such an AS4_PATH is longer than the AS_PATH and is ignored)
        n4 = rnd.randint(0, len(asns) + (2 if has_confed else 0))
        a4 = [rnd.choice([4200000001, 65002, 131072]) for _ in range(n4)]
        if a4:
            attrs.append(('as4_path', W.as4_path(a4)))
    attrs.append(('next_hop', W.next_hop(rnd.choice(['192.0.2.1', '10.255.0.1']))))
    if rnd.random() < 0.6:
        attrs.append(('med', W.med(rnd.choice([0, 1, 4294967295, rnd.randint(0, 1 << 31)]))))
    if rnd.random() < 0.5:
        attrs.append(('local_pref', W.local_pref(rnd.choice([0, 100, 4294967295]))))
    if rnd.random() < 0.3:
        attrs.append(('atomic', W.atomic_aggregate()))
    if rnd.random() < 0.3:
        if asn4:
            attrs.append(('aggregator', W.aggregator(rnd.choice([65010, 4200000009]), '192.0.2.9', True)))
        else:
            attrs.append(('aggregator', W.aggregator(rnd.choice([65010, 23456]), '192.0.2.9', False)))
    if rnd.random() < 0.5:
        attrs.append(('community', W.communities([(rnd.randint(0, 65535), rnd.randint(0, 65535)) for _ in range(rnd.randint(1, 4))])))
    if rnd.random() < 0.3:
        attrs.append(('originator', W.originator_id()))
        attrs.append(('cluster', W.cluster_list(['1.1.1.1', '2.2.2.2'][: rnd.randint(1, 2)])))
    if rnd.random() < 0.3:
        attrs.append(('large', W.large_communities([(rnd.randint(0, 1 << 32 - 1), 2, 3)])))
    if rnd.random() < 0.4:
        attrs.append(('unknown_t', W.unknown(rnd.choice([99, 200, 254]), bytes(rnd.randint(0, 255) for _ in range(rnd.randint(0, 6))))))
    if rnd.random() < 0.3:
        attrs.append(('unknown_nt', W.unknown(rnd.choice([100, 201]), b'zz', transitive=False)))
    if rnd.random() < 0.5:
        nh = NH6 + (LL6 if rnd.random() < 0.3 else b'')
        n6 = b''.join(W.prefix6(f'2001:db8:{rnd.randint(1, 0xffff):x}::', rnd.choice([32, 48, 64]), pid()) for _ in range(rnd.randint(1, 3)))
        attrs.append(('mp_reach', W.mp_reach(2, 1, nh, n6, rnd.choice([0, 0, 0, 1, 255]))))
    elif kind == 'enh' and rnd.random() < 0.8:
        nh = NH6 + (LL6 if rnd.random() < 0.4 else b'')
        n4 = b''.join(W.prefix4(f'11.{rnd.randint(0, 255)}.{rnd.randint(0, 255)}.0', rnd.choice([16, 24]), None) for _ in range(rnd.randint(1, 3)))  # a range of its own: the NLRI field uses 10/8
        attrs.append(('mp_reach', W.mp_reach(1, 1, nh, n4, rnd.choice([0, 0, 0, 1, 255]))))
    if rnd.random() < 0.3:
        attrs.append(('mp_unreach', W.mp_unreach(2, 1, W.prefix6(f'2001:db9:{rnd.randint(1, 0xffff):x}::', 48, pid()))))
    rnd.shuffle(attrs)
    if rnd.random() < 0.15:
        # extended length flag on a short attribute is legal
        k = rnd.randrange(len(attrs))
        name, tlv = attrs[k]
        flags, typ, ln = tlv[0], tlv[1], tlv[2]
        if not flags & 0x10:
            attrs[k] = (name, bytes([flags | 0x10, typ, 0, ln]) + tlv[3:])
    # the last octets are random: with a length which is not a multiple of 8 the trailing bits of the last octet are set
    # (RFC 4271 4.3: irrelevant -- two spellings of one prefix are one route)
    nlri = b''.join(W.prefix4(f'10.{rnd.randint(0, 255)}.{rnd.randint(0, 255)}.{rnd.choice([0, 0, 255, rnd.randint(0, 255)])}', rnd.choice([8, 16, 20, 24, 25, 27, 32, 0]), pid()) for _ in range(rnd.randint(0, 3)))
    wd = b''.join(W.prefix4(f'172.16.{rnd.randint(0, 255)}.0', 24, pid()) for _ in range(rnd.randint(0, 2)))
    return W.update_body(wd, b''.join(t for _, t in attrs), nlri), attrs, wd, nlri


class _Ctx:
    pass


def fresh_ctx(nb, neg):
    ctx = _Ctx()
    ctx.neighbor = nb
    ctx.negotiated = neg
    ctx.peer_id = 'bounded'
    from collections import defaultdict

    ctx.stats = defaultdict(int)
    ctx.proto = None
    return ctx


def observe(kind, body, handle=True, clear_rib=True):
    """-> dict(status, update?, rib?) from the REAL code"""
    from exabgp.bgp.message import Message
    from exabgp.reactor.api.response.json import JSON
    from exabgp.reactor.peer.handlers.update import UpdateHandler

    nb, neg = get_session(kind)
    out = {}
    try:
        m = Message.unpack(2, memoryview(body), neg)
    except Exception as e:  # noqa
        if type(e).__name__ == 'Notify':
            return {'status': 'notify', 'code': (e.code, e.subcode)}
        return {'status': 'exception', 'exc': f'{type(e).__name__}: {e}'[:200]}
    out['status'] = 'ok'
    out['eor'] = bool(getattr(m, 'IS_EOR', False))
    try:
        text = JSON('6.0.0').update(nb, 'receive', m if out['eor'] else m.data, b'', b'', neg)
        out['json_text'] = text
        ev = json.loads(text, object_pairs_hook=_no_dups)
        out['update'] = ev['neighbor']['message'].get('update', ev['neighbor']['message'])
    except Exception as e:  # noqa
        out['json_error'] = f'{type(e).__name__}: {e}'[:200]
    if handle:
        if clear_rib:
            nb.rib.incoming.clear_cache()
        try:
            asyncio.new_event_loop().run_until_complete(UpdateHandler().handle_async(fresh_ctx(nb, neg), m))
            rib = {}
            for r in nb.rib.incoming.cached_routes():
                rib[str(r.nlri)] = {'nexthop': str(r.nexthop), 'attributes': json.loads('{' + r.attributes.json() + '}', object_pairs_hook=_no_dups)}
            out['rib'] = rib
        except Exception as e:  # noqa
            out['handler_error'] = f'{type(e).__name__}: {e}'[:200]
    if not out['eor']:
        d = m.data
        out['marker'] = 0xFFFF in d.attributes or 65535 in d.attributes
        out['n_announces'] = len(d.announces)
    return out


class DuplicateKey(ValueError):
    pass


def _no_dups(pairs):
    d = {}
    for k, v in pairs:
        if k in d:
            raise DuplicateKey(k)
        d[k] = v
    return d


def compare_update(kind, body):
    """None or a failure description: real JSON event / Adj-RIB-In vs the reference decode"""
    asn4 = kind != 'ibgp2'
    exp = expected_update(body, asn4, addpath_fn(kind))
    obs = observe(kind, body)
    inp = {'kind': kind, 'body': body.hex()}
    if obs['status'] != 'ok':
        return {'what': f'well-formed UPDATE refused: {obs}', 'input': inp}
    if 'json_error' in obs:
        return {'what': f'JSON event not renderable / not well-formed: {obs["json_error"]}', 'input': inp}
    if 'handler_error' in obs:
        return {'what': f'UPDATE handler raised: {obs["handler_error"]}', 'input': inp}
    if obs['eor']:
        if exp['announce'] or exp['withdraw'] or exp['attribute']:
            return {'what': 'a non-empty UPDATE was taken for End-of-RIB', 'input': inp}
        return None
    got = obs['update']
    ga = dict(got.get('attribute', {}))
    ga.pop('extended-community', None)
    for key in ('announce', 'withdraw'):
        if _norm(got.get(key, {})) != _norm(exp[key]):
            return {'what': f'{key} set differs from the reference decode', 'input': inp, 'expected': json.dumps(exp[key])[:600], 'observed': json.dumps(got.get(key, {}))[:600]}
    if ga != exp['attribute']:
        return {'what': 'attribute values differ from the reference decode', 'input': inp, 'expected': json.dumps(exp['attribute'])[:700], 'observed': json.dumps(ga)[:700]}
    # Adj-RIB-In: exactly the announced routes, each with the message's next hop
    want = {}
    for fam, by_nh in exp['announce'].items():
        for nh, items in by_nh.items():
            for it in items:
                want[it['nlri']] = nh
    rib = obs.get('rib', {})
    got_rib = {k.split(' ')[0] if ' ' in k else k: v['nexthop'] for k, v in rib.items()}
    if set(got_rib) != set(want) and not any('path-information' in str(exp['announce']) for _ in [0]):
        return {'what': 'Adj-RIB-In does not hold exactly the announced routes', 'input': inp, 'expected': sorted(want), 'observed': sorted(got_rib)}
    for k, nh in want.items():
        if k in got_rib and got_rib[k] != nh:
            return {'what': f'Adj-RIB-In holds {k} with next hop {got_rib[k]}, message says {nh}', 'input': inp}
    return None


def _norm(x):
    """the string "null" as a VALUE and JSON null compare equal (renderers differ); keys are left alone"""

    def walk(v):
        if isinstance(v, dict):
            return {k: walk(w) for k, w in v.items()}
        if isinstance(v, list):
            return [walk(w) for w in v]
        return None if v == 'null' else v

    return walk(json.loads(json.dumps(x, sort_keys=True))) if x else {}
