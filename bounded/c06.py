"""bounded stand-in for C06: the real reader over a socketpair, all segmentations of short streams / sampled ones"""
import itertools
import random

from .registry import bounded


def _msg(typ, body):
    return b'\xff' * 16 + (19 + len(body)).to_bytes(2, 'big') + bytes([typ]) + body


@bounded('C06', 'reader-segmentations')
def reader_segmentations(tier, seed):
    from contracts.connection import run_reader_native
    from spec.framing import frame_one

    rnd = random.Random(seed)
    msgs = [
        _msg(4, b''),
        _msg(2, bytes(4)),
        _msg(1, bytes(10)),
        _msg(3, bytes([6, 2])),
        _msg(5, bytes(4)),
        _msg(4, b'x'),  # keepalive with a body: 1/2
        _msg(9, bytes(3)),  # unknown type, fine at this layer
        b'\xff' * 15 + b'\xfe' + (19).to_bytes(2, 'big') + b'\x04',  # bad marker
        b'\xff' * 16 + (18).to_bytes(2, 'big') + b'\x04',  # too short
        b'\xff' * 16 + (4097).to_bytes(2, 'big') + b'\x02',  # above 4096
        _msg(2, bytes(4096 - 19)),
    ]
    fails, evals, distinct = [], 0, set()
    samples = []
    for size in (4096, 65535):
        for m in msgs:
            need = frame_one(m + bytes(70000), size)[0]
            stream = (m + bytes(70000))[:need] + _msg(4, b'')  # a following message must stay unread
            exp = frame_one(stream, size)
            exp = (exp[1], exp[2], exp[3], exp[4], exp[5], exp[0])
            cuts = [[len(stream)], [1], [18, 1], [19], [20], [3, 16, 1]]
            n = 6 if tier == 'quick' else 40
            for _ in range(n):
                cuts.append([rnd.randint(1, 40) for _ in range(8)])
            for chunks in cuts:
                if len(fails) >= 8:
                    break  # enough witnesses; a reader waiting for bytes that never come costs 2 s per case
                got = run_reader_native(stream, size, chunks)
                evals += 1
                distinct.add((size, m[:24], len(m), tuple(chunks)))
                if got != exp:
                    fails.append({'what': 'reader_async differs from RFC framing', 'stream': stream[:64].hex(), 'msg_size': size, 'chunks': chunks, 'expected': str(exp[:2] + exp[4:]), 'observed': str(got[:2] + got[4:])})
            if len(samples) < 3:
                samples.append({'msg_size': size, 'stream_head': stream[:24].hex(), 'len': len(stream), 'chunks': cuts[2]})
    return {'evaluations': evals, 'distinct_nontrivial': len(distinct), 'bound': '11 message shapes x 2 maximum sizes x 12 (quick) / 46 (thorough) segmentations', 'rule': 'one case = (message shape, max size, chunk list); all are distinct by construction', 'samples': samples, 'failures': fails}


# ---------------------------------------------------------------------------------------------------------------------
# the assumption the reader contract states ("no interference at await") is not true of its caller: Peer._main used to
# cancel the read every 100 ms.  The real Peer over loopback TCP (bounded/sessionharness.py), messages delivered in two
# segments with a pause longer than the main loop's read timeout.
from .registry import replayer  # noqa: E402


def _delayed_case(cut, gap, kind, reload_in_gap=False):
    import asyncio
    from . import sessionharness as S
    from spec import wire as W

    async def go():
        sess = S.Session()
        inp = {'message': kind, 'cut': cut, 'gap_s': gap, 'reload_between_the_segments': reload_in_gap}
        try:
            try:
                await sess.to_state('ESTABLISHED')
            except RuntimeError as e:
                return {'what': f'harness: {e}', 'input': inp, 'harness': True}
            attrs = W.origin(0) + W.as_path([65002], True) + W.next_hop('192.0.2.1')
            m = S.msg(2, W.update_body(b'', attrs, bytes([24, 10, 0, 0]))) if kind == 'update' else S.KEEPALIVE
            before = sess.peer.stats.get('receive-' + kind, 0)
            await sess.remote.send(m[:cut])
            await asyncio.sleep(gap / 2)
            if reload_in_gap:
                # a configuration reload (SIGUSR1) picked up by the main loop while the message is half read
                sess.peer.reconfigure(sess.peer.neighbor)
            await asyncio.sleep(gap / 2)
            await sess.remote.send(m[cut:])
            await asyncio.sleep(0.4)
            nots = [e for e in sess.log if e[0] == 'sent' and e[2] == 3]
            got = sess.peer.stats.get('receive-' + kind, 0) - before
            state = sess.peer.fsm.name()
            sess.peer.teardown(2)
            await sess.finish(4)
            if nots or state != 'ESTABLISHED':
                return {'what': f'a {kind} delivered in two segments {gap} s apart (cut after {cut} bytes) ended the session' + (f' with NOTIFICATION {nots[0][3][0]}/{nots[0][3][1]}' if nots else ''), 'input': inp}
            if got != 1:
                return {'what': f'a {kind} delivered in two segments {gap} s apart was received {got} times', 'input': inp}
            return None
        finally:
            sess.cleanup()

    return S.run(go(), 30)


@bounded('C06', 'delayed-segments')
def delayed_segments(tier, seed):
    import multiprocessing as mp

    cases = [(cut, gap, kind, False) for kind in ('update', 'keepalive') for cut in ((1, 10, 18, 19, 25, 40) if kind == 'update' else (1, 16, 18)) for gap in ((0.0, 0.15, 0.35) if tier == 'quick' else (0.0, 0.05, 0.15, 0.35, 1.1))]
    cases += [(cut, 0.35, 'update', True) for cut in (10, 19, 25)]
    with mp.get_context('fork').Pool(8) as pool:
        res = pool.starmap(_delayed_case, cases)
    crashes = [r for r in res if r and r.get('harness')]
    if crashes:
        raise RuntimeError('session harness failed: ' + crashes[0]['what'])
    fails = [r for r in res if r]
    return {'evaluations': len(cases), 'distinct_nontrivial': len(cases), 'bound': 'an UPDATE / KEEPALIVE sent to the real established Peer in two TCP segments, cut inside the marker, the length, right after the header and inside the body, with pauses of 0, 0.15, 0.35 s (thorough: also 0.05 and 1.1 s) -- shorter and longer than the 0.1 s read timeout of the main loop; and with a configuration reload handed to the peer between the two segments', 'rule': 'one case = (message, cut, pause)', 'samples': [{'message': 'update', 'cut': 10, 'gap_s': 0.35}], 'failures': fails}


@replayer('C06', 'delayed-segments')
def _replay_delayed(f):
    return _delayed_case(f['input']['cut'], f['input']['gap_s'], f['input']['message'], f['input'].get('reload_between_the_segments', False)) is None


# ---------------------------------------------------------------------------------------------------------------------
# the maximum the reader enforces is the NEGOTIATED one, whatever the order of the two OPENs: a neighbor with
# `local-as auto` reads the peer's OPEN before it sends its own
def _auto_as_case(size, extended):
    import asyncio
    import struct
    from . import sessionharness as S
    from spec import wire as W

    async def go():
        sess = S.Session(local_as='auto', extra='capability { extended-message %s; }' % ('enable' if extended else 'disable'))
        inp = {'local_as': 'auto', 'extended_message_both_sides': extended, 'update_octets': size}
        caps = bytes([1, 4, 0, 1, 0, 1]) + bytes([2, 0]) + bytes([6, 0]) + bytes([65, 4]) + struct.pack('!L', 65002)
        try:
            sess.start()
            await asyncio.sleep(0.1)
            await sess.remote.send(S.open_msg(caps=caps))
            got = await sess.remote.read_message()
            if got is None or got[0] != 1:
                return {'what': f'harness: expected the OPEN of ExaBGP after ours, got {got}', 'input': inp, 'harness': True}
            got = await sess.remote.read_message()
            await sess.remote.send(S.KEEPALIVE)
            await asyncio.sleep(0.4)
            if sess.peer.fsm.name() != 'ESTABLISHED':
                return {'what': f'harness: session not established ({sess.peer.fsm.name()})', 'input': inp, 'harness': True}
            attrs = W.origin(0) + W.as_path([65002], True) + W.next_hop('192.0.2.1')
            pad = size - 19 - 4 - len(attrs) - 4 - 4
            body = W.update_body(b'', attrs + bytes([0x90, 99]) + struct.pack('!H', pad) + bytes(pad), bytes([24, 10, 0, 0]))
            await sess.remote.send(S.msg(2, body))
            await asyncio.sleep(0.5)
            nots = [e for e in sess.log if e[0] == 'sent' and e[2] == 3]
            state = sess.peer.fsm.name()
            sess.peer.teardown(2)
            await sess.finish(4)
            accepted = not nots and state == 'ESTABLISHED'
            should = size <= (65535 if extended else 4096)
            if accepted != should:
                return {'what': f'an UPDATE of {size} octets on a local-as auto session (extended messages {"negotiated" if extended else "not negotiated"}) was ' + ('accepted' if accepted else f'refused with NOTIFICATION {nots[0][3][0]}/{nots[0][3][1]}' if nots else f'not accepted (state {state})'), 'input': inp}
            return None
        finally:
            sess.cleanup()

    return S.run(go(), 30)


@bounded('C06', 'negotiated-size-whatever-the-open-order')
def negotiated_size_whatever_the_open_order(tier, seed):
    import multiprocessing as mp

    cases = [(4096, True), (5000, True), (4096, False), (5000, False)]
    with mp.get_context('fork').Pool(4) as pool:
        res = pool.starmap(_auto_as_case, cases)
    crashes = [r for r in res if r and r.get('harness')]
    if crashes:
        raise RuntimeError('session harness failed: ' + crashes[0]['what'])
    fails = [r for r in res if r]
    return {'evaluations': len(cases), 'distinct_nontrivial': len(cases), 'bound': 'local-as auto neighbor (reads the peer OPEN first) x extended messages negotiated or not x an UPDATE of 4096 / 5000 octets: real Peer over loopback TCP', 'rule': 'one case = (extended, size)', 'samples': [{'extended': True, 'size': 5000}], 'failures': fails}


@replayer('C06', 'negotiated-size-whatever-the-open-order')
def _replay_auto(f):
    return _auto_as_case(f['input']['update_octets'], f['input']['extended_message_both_sides']) is None
