"""bounded stand-in for C06: the real reader over a socketpair, all segmentations of short streams / sampled ones"""
import itertools
import random

from .registry import bounded


def _msg(typ, body):
    return b'\xff' * 16 + (19 + len(body)).to_bytes(2, 'big') + bytes([typ]) + body


@bounded('C06', 'reader-segmentations')
def reader_segmentations(tier, seed):
    from contracts.connection import run_reader_native
    from spec.framing import frame_one

    rnd = random.Random(seed)
    msgs = [
        _msg(4, b''),
        _msg(2, bytes(4)),
        _msg(1, bytes(10)),
        _msg(3, bytes([6, 2])),
        _msg(5, bytes(4)),
        _msg(4, b'x'),  # keepalive with a body: 1/2
        _msg(9, bytes(3)),  # unknown type, fine at this layer
        b'\xff' * 15 + b'\xfe' + (19).to_bytes(2, 'big') + b'\x04',  # bad marker
        b'\xff' * 16 + (18).to_bytes(2, 'big') + b'\x04',  # too short
        b'\xff' * 16 + (4097).to_bytes(2, 'big') + b'\x02',  # above 4096
        _msg(2, bytes(4096 - 19)),
    ]
    fails, evals, distinct = [], 0, set()
    samples = []
    for size in (4096, 65535):
        for m in msgs:
            need = frame_one(m + bytes(70000), size)[0]
            stream = (m + bytes(70000))[:need] + _msg(4, b'')  # a following message must stay unread
            exp = frame_one(stream, size)
            exp = (exp[1], exp[2], exp[3], exp[4], exp[5], exp[0])
            cuts = [[len(stream)], [1], [18, 1], [19], [20], [3, 16, 1]]
            n = 6 if tier == 'quick' else 40
            for _ in range(n):
                cuts.append([rnd.randint(1, 40) for _ in range(8)])
            for chunks in cuts:
                got = run_reader_native(stream, size, chunks)
                evals += 1
                distinct.add((size, m[:24], len(m), tuple(chunks)))
                if got != exp:
                    fails.append({'what': 'reader_async differs from RFC framing', 'stream': stream[:64].hex(), 'msg_size': size, 'chunks': chunks, 'expected': str(exp[:2] + exp[4:]), 'observed': str(got[:2] + got[4:])})
            if len(samples) < 3:
                samples.append({'msg_size': size, 'stream_head': stream[:24].hex(), 'len': len(stream), 'chunks': cuts[2]})
    return {'evaluations': evals, 'distinct_nontrivial': len(distinct), 'bound': '11 message shapes x 2 maximum sizes x 12 (quick) / 46 (thorough) segmentations', 'rule': 'one case = (message shape, max size, chunk list); all are distinct by construction', 'samples': samples, 'failures': fails}
