"""bounded stand-in for C03: structured mutations of valid messages of every type through the real decoders, forcing
every lazy part (parsed collection, JSON event, UPDATE handler): only NOTIFICATION may come out, in bounded time"""
import random
import struct
import time

from .registry import bounded, replayer
from . import pipeline as P
from . import harness as H
from spec import wire as W


def mutate(rnd, b: bytes) -> bytes:
    b = bytearray(b)
    k = rnd.randint(0, 6)
    if k == 0 and b:
        b[rnd.randrange(len(b))] = rnd.randint(0, 255)
    elif k == 1 and b:
        del b[rnd.randrange(len(b)) :]
    elif k == 2:
        i = rnd.randint(0, len(b))
        b[i:i] = bytes(rnd.randint(0, 255) for _ in range(rnd.randint(1, 4)))
    elif k == 3 and len(b) > 2:
        i = rnd.randrange(len(b) - 1)
        del b[i : i + rnd.randint(1, 3)]
    elif k == 4 and b:
        i = rnd.randrange(len(b))
        b[i] = rnd.choice([0, 1, 0x7F, 0x80, 0xFF, 0x10, 0x90, 0xF0])
    elif k == 5 and len(b) >= 2:
        i = rnd.randrange(len(b) - 1)
        b[i : i + 2] = struct.pack('!H', rnd.choice([0, 1, 255, 256, 4096, 65535]))
    else:
        for _ in range(3):
            if b:
                b[rnd.randrange(len(b))] ^= 1 << rnd.randint(0, 7)
    return bytes(b)


class _Timeout(Exception):
    pass


def _alarm(signum, frame):
    raise _Timeout()


def _slow_confirmed(fn, *a):
    """a 'too slow' verdict is kept only if it repeats: CPU time of this thread (not wall time, which the load of the
    machine stretches), and the fastest of three more runs must still be over the limit"""
    out = None
    for _ in range(3):
        out = fn(*a)
        if not (out and out.get('what', '').startswith('decoding ') and ' took ' in out['what']):
            return out
    return out


def decode_any(kind, typ, body, limit_s=20):
    """-> None or failure; forces lazy parts.  A decode that does not come back within limit_s seconds is reported as
    a failure (loops without bound), it never hangs the check"""
    import signal

    old = signal.signal(signal.SIGALRM, _alarm)
    signal.setitimer(signal.ITIMER_REAL, limit_s)
    try:
        return _slow_confirmed(_decode_any, kind, typ, body)
    except _Timeout:
        return {'what': f'decoding {len(body)} bytes of message type {typ} did not finish within {limit_s} s (unbounded loop)', 'input': {'kind': kind, 'type': typ, 'body': body.hex()}}
    finally:
        signal.setitimer(signal.ITIMER_REAL, 0)
        signal.signal(signal.SIGALRM, old)


def _decode_any(kind, typ, body):
    from exabgp.bgp.message import Message

    nb, neg = P.get_session(kind)
    inp = {'kind': kind, 'type': typ, 'body': body.hex()}
    t0 = time.thread_time()
    if typ == 2:
        o = P.observe(kind, body)
        dt = time.thread_time() - t0
        if o['status'] == 'exception':
            return {'what': f'UPDATE decoder raised {o["exc"]}', 'input': inp}
        if 'json_error' in o:
            return {'what': f'JSON event of a decoded UPDATE failed: {o["json_error"]}', 'input': inp}
        if 'handler_error' in o:
            return {'what': f'UPDATE handler raised {o["handler_error"]}', 'input': inp}
    else:
        try:
            m = Message.unpack(typ, memoryview(body), neg)
            str(m)
            if hasattr(m, 'capabilities'):
                str(m.capabilities)
        except Exception as e:  # noqa
            if type(e).__name__ not in ('Notify', 'Notification'):
                return {'what': f'decoder of message type {typ} raised {type(e).__name__}: {str(e)[:160]}', 'input': inp}
        dt = time.thread_time() - t0
    if dt > 0.5 + len(body) * 0.0005:
        return {'what': f'decoding {len(body)} bytes took {dt:.2f}s', 'input': inp}
    return None


def valid_bodies(rnd, kind):
    out = []
    for _ in range(4):
        out.append((2, P.gen_update(rnd, kind)[0]))
    out.append((1, H.peer_open_bytes(65001, 180, '9.9.9.9', H.std_caps(65001, addpath=[(1, 1, 3)], extended=True, nexthop=[(1, 1, 2)]))))
    out.append((1, H.peer_open_bytes(4200000001, 90, '9.9.9.9', H.std_caps(4200000001))))
    out.append((3, bytes([6, 2]) + b'\x0bgoing down!'))
    out.append((3, bytes([3, 1]) + bytes(5)))
    out.append((4, b''))
    out.append((5, struct.pack('!HBB', 1, 0, 1)))
    out.append((5, struct.pack('!HBB', 2, 1, 1)))
    out.append((6, struct.pack('!HH', 1, 11) + struct.pack('!HB', 1, 1) + b'advisory'))
    return out


@bounded('C03', 'structured-mutations')
def structured_mutations(tier, seed):
    rnd = random.Random(seed)
    rounds = 40 if tier == 'quick' else 1500
    fails, evals, distinct, samples = [], 0, set(), []
    for kind in ('ebgp4', 'ibgp2', 'addpath'):
        for r in range(rounds):
            for typ, body in valid_bodies(rnd, kind):
                m = body
                for depth in range(rnd.randint(1, 3)):
                    m = mutate(rnd, m)
                evals += 1
                distinct.add((kind, typ, m))
                f = decode_any(kind, typ, m)
                if f:
                    fails.append(f)
                if len(samples) < 4 and r == 1:
                    samples.append({'kind': kind, 'type': typ, 'body': m.hex()[:100]})
    # valid but unusual: hundreds of unknown optional attributes must decode (no recursion limit), in linear time
    for count in (300, 1300):
        attrs = W.origin(0) + W.as_path([65001], True) + W.next_hop() + b''.join(W.unknown(128 + (i % 60), b'', transitive=False) for i in range(count))
        body = W.update_body(b'', attrs, W.prefix4('10.0.0.0', 8))
        evals += 1
        distinct.add(('ebgp4', 2, body))
        o = P.observe('ebgp4', body)
        if o['status'] != 'ok' or 'json_error' in o or 'handler_error' in o or not o['update'].get('announce'):
            fails.append({'what': f'a valid UPDATE with {count} unknown optional attributes was not decoded: {str(o)[:200]}', 'input': {'kind': 'ebgp4', 'type': 2, 'body': body.hex()}})
    return {'evaluations': evals, 'distinct_nontrivial': len(distinct), 'bound': f'{rounds} rounds x 3 session kinds x 12 valid messages (UPDATE, OPEN, NOTIFICATION, KEEPALIVE, ROUTE-REFRESH, OPERATIONAL) x 1-3 stacked mutations; plus 300/1300-attribute UPDATEs', 'rule': 'one case = (session kind, message type, mutated body); distinct by bytes', 'samples': samples, 'failures': fails}


@replayer('C03', 'structured-mutations')
def _replay(f):
    i = f['input']
    return decode_any(i['kind'], i['type'], bytes.fromhex(i['body'])) is None


@bounded('C03', 'every-truncation')
def every_truncation(tier, seed):
    """EVERY prefix of every valid message (all truncation points, not a sample): a truncated message is refused with a
    NOTIFICATION or decoded, never answered with another exception.  Exact-boundary defects need exactly this."""
    rnd = random.Random(seed + 3)
    fails, evals, distinct, samples = [], 0, set(), []
    for kind in ('ebgp4', 'ibgp2', 'addpath'):
        bodies = []
        for _ in range(3 if tier == 'quick' else 25):
            bodies += valid_bodies(rnd, kind)
        for typ, body in bodies:
            for cut in range(len(body) + 1):
                m = body[:cut]
                if (kind, typ, m) in distinct:
                    continue
                distinct.add((kind, typ, m))
                evals += 1
                f = decode_any(kind, typ, m)
                if f:
                    f['input']['truncated_at'] = cut
                    f['input']['of'] = len(body)
                    fails.append(f)
        samples.append({'kind': kind, 'type': bodies[0][0], 'full_length': len(bodies[0][1])})
    return {'evaluations': evals, 'distinct_nontrivial': len(distinct), 'exhaustive': True, 'bound': 'every truncation point of 36 (quick) / 300 (thorough) valid messages of all six types per session kind x 3 session kinds', 'rule': 'one case = (session kind, type, prefix of a valid body); distinct by bytes', 'samples': samples, 'failures': fails}


@replayer('C03', 'every-truncation')
def _replay_trunc(f):
    i = f['input']
    return decode_any(i['kind'], i['type'], bytes.fromhex(i['body'])) is None


@bounded('C03', 'every-attribute-truncation')
def every_attribute_truncation(tier, seed):
    """every prefix of every attribute VALUE of well-formed UPDATEs, with the attribute header and the block length
    recomputed (so the truncated value really reaches its decoder): refused with a NOTIFICATION, treated as withdraw,
    or decoded -- never another exception, never a hang"""
    import struct

    rnd = random.Random(seed + 5)
    fails, evals, distinct, samples = [], 0, set(), []
    for kind in ('ebgp4', 'ibgp2', 'addpath'):
        for _ in range(12 if tier == 'quick' else 150):
            body, attrs, wd, nlri = P.gen_update(rnd, kind)
            for k, (name, tlv) in enumerate(attrs):
                flags, typ = tlv[0], tlv[1]
                hdr = 4 if flags & 0x10 else 3
                val = tlv[hdr:]
                for cut in range(len(val)):
                    v = val[:cut]
                    new = (bytes([flags, typ]) + struct.pack('!H', len(v)) + v) if flags & 0x10 else (bytes([flags, typ, len(v)]) + v)
                    blob = b''.join(t if j != k else new for j, (_, t) in enumerate(attrs))
                    b2 = W.update_body(wd, blob, nlri)
                    if (kind, b2) in distinct:
                        continue
                    distinct.add((kind, b2))
                    evals += 1
                    f = decode_any(kind, 2, b2)
                    if f:
                        f['input']['attribute'] = name
                        f['input']['value_truncated_at'] = cut
                        f['input']['of'] = len(val)
                        fails.append(f)
            if len(samples) < 3:
                samples.append({'kind': kind, 'attributes': [a for a, _ in attrs]})
    return {'evaluations': evals, 'distinct_nontrivial': len(distinct), 'exhaustive': True, 'bound': 'every truncation point of every attribute value (lengths recomputed) of 12 (quick) / 150 (thorough) generated UPDATEs x 3 session kinds', 'rule': 'one case = (session kind, UPDATE with one attribute value truncated); distinct by bytes', 'samples': samples, 'failures': fails}


@replayer('C03', 'every-attribute-truncation')
def _replay_attr_trunc(f):
    i = f['input']
    return decode_any(i['kind'], 2, bytes.fromhex(i['body'])) is None


# ---------------------------------------------------------------------------------------------------------------------
# every family the project has a recorded message for (the QA corpus: flow, flow-vpn, EVPN, VPLS, MVPN, MUP, SR-policy,
# BGP-LS, labelled, VPN ...), on a session which negotiated all of them: every truncation of every message and sampled
# byte mutations.  Decoding and rendering may refuse with a NOTIFICATION, nothing else, and must come back quickly.
def _decode_render(typ, body, nh=False, must_decode=False):
    from exabgp.bgp.message import Message
    from . import c13

    nb, neg = c13.session_nexthop() if nh else c13.session()
    inp = {'type': typ, 'body': body.hex(), 'extended_nexthop_negotiated': nh}
    t0 = time.thread_time()
    try:
        m = Message.unpack(typ, memoryview(body), neg)
    except Exception as e:  # noqa
        if type(e).__name__ in ('Notify', 'Notification'):
            if must_decode:
                return {'what': f'a recorded valid message which decodes on a plain session is refused once extended next-hop is negotiated for another family: {str(e)[:120]}', 'input': inp}
            return None
        return {'what': f'decoder raised {type(e).__name__}: {str(e)[:160]}', 'input': inp}
    try:
        if typ == 2 and not getattr(m, 'IS_EOR', False):
            d = m.data
            for r in d.announces:
                str(r.nlri), r.nlri.json(), r.nlri.index(), hash(r.nlri)
            for n in d.withdraws:
                str(n), n.json(), n.index(), hash(n)
            str(d.attributes), d.attributes.json()
        else:
            str(m)
            if hasattr(m, 'capabilities'):
                str(m.capabilities)
    except Exception as e:  # noqa
        if type(e).__name__ in ('Notify', 'Notification'):
            return {'what': f'a decoded message raises NOTIFICATION only when it is rendered ({str(e)[:100]}): the refusal belongs to the decoder', 'input': inp}
        return {'what': f'rendering a decoded message raised {type(e).__name__}: {str(e)[:160]}', 'input': inp}
    dt = time.thread_time() - t0
    if dt > 0.5 + len(body) * 0.0005:
        return {'what': f'decoding {len(body)} bytes took {dt:.2f}s', 'input': inp}
    return None


def _refused(typ, body, nh):
    """True when Message.unpack answers with a NOTIFICATION, False when it decodes, None otherwise"""
    from exabgp.bgp.message import Message
    from . import c13

    neg = (c13.session_nexthop() if nh else c13.session())[1]
    try:
        Message.unpack(typ, memoryview(body), neg)
        return False
    except Exception as e:  # noqa
        return True if type(e).__name__ in ('Notify', 'Notification') else None


def _is_v4_unicast_reach(typ, body):
    return typ == 2 and bytes([0x0E]) in body and (b'\x00\x01\x01' in body)


def decode_render(typ, body, limit_s=20, nh=False, must_decode=False):
    import signal

    old = signal.signal(signal.SIGALRM, _alarm)
    signal.setitimer(signal.ITIMER_REAL, limit_s)
    try:
        return _slow_confirmed(_decode_render, typ, body, nh, must_decode)
    except _Timeout:
        return {'what': f'decoding {len(body)} bytes of message type {typ} did not finish within {limit_s} s (unbounded loop)', 'input': {'type': typ, 'body': body.hex()}}
    finally:
        signal.setitimer(signal.ITIMER_REAL, 0)
        signal.signal(signal.SIGALRM, old)


@bounded('C03', 'corpus-all-families')
def corpus_all_families(tier, seed):
    from . import c13

    rnd = random.Random(seed)
    fails, evals, kinds = [], 0, {}
    msgs = c13.corpus()
    if tier == 'quick':
        # one message per source file in the quick tier (every family still present), all of them in thorough
        seen, sub = set(), []
        for t, b, s in msgs:
            if s not in seen:
                seen.add(s)
                sub.append((t, b, s))
        msgs = sub

    def note(f, how, src):
        key = f['what'][:70]
        if key not in kinds:
            kinds[key] = 0
            f['how'] = f'{how} of {src}'
            fails.append(f)
        kinds[key] += 1

    for t, body, src in msgs:
        # the same session with extended next-hop negotiated for ipv4 unicast: what decoded still decodes (the
        # messages recorded for ipv4 unicast itself excepted: their next-hop rule did change), nothing untyped
        plain = _refused(t, body, False)
        evals += 1
        f = decode_render(t, body, nh=True, must_decode=(plain is False and not _is_v4_unicast_reach(t, body)))
        if f:
            note(f, 'unchanged message, extended next-hop session', src)
        for cut in range(len(body)):
            evals += 1
            f = decode_render(t, body[:cut])
            if f:
                note(f, f'truncation at {cut}', src)
            if t == 2 and cut % 3 == 0:
                evals += 1
                f = decode_render(t, body[:cut], nh=True)
                if f:
                    note(f, f'truncation at {cut}, extended next-hop session', src)
        for _ in range(40 if tier == 'thorough' else 12):
            evals += 1
            f = decode_render(t, mutate(rnd, body))
            if f:
                note(f, 'mutation', src)
    for f in fails:
        f['what'] += f' ({kinds[f["what"][:70]]} inputs fail this way; first: {f["how"]})'
    return {'evaluations': evals, 'distinct_nontrivial': evals, 'bound': f'{len(msgs)} messages of the QA corpus (all recorded families) on an all-families session: every truncation of each and {40 if tier == "thorough" else 12} structured mutations of each; decoded, every NLRI and the attributes rendered, indexed and hashed; one failure reported per distinct message', 'rule': 'one case = one byte string', 'samples': [{'source': msgs[0][2]}], 'failures': fails[:20]}


@replayer('C03', 'corpus-all-families')
def _replay_corpus(f):
    i = f['input']
    nh = i.get('extended_nexthop_negotiated', False)
    must = nh and 'is refused once extended next-hop' in f['what']
    return decode_render(i['type'], bytes.fromhex(i['body']), nh=nh, must_decode=must) is None


# ---------------------------------------------------------------------------------------------------------------------
# the helper models of contracts/rte_sweep.py (what the address helpers demand of the bytes) against the helpers
@bounded('C03', 'helper-models')
def helper_models(tier, seed):
    import socket
    from exabgp.protocol.family import AFI, SAFI
    from exabgp.protocol.ip import IPv4, IPv6
    from exabgp.bgp.message.open.routerid import RouterID

    table = [
        ('socket.inet_ntop(AF_INET, b)', lambda b: socket.inet_ntop(socket.AF_INET, b), lambda n: n != 4),
        ('socket.inet_ntop(AF_INET6, b)', lambda b: socket.inet_ntop(socket.AF_INET6, b), lambda n: n != 16),
        ('IPv4.ntop', IPv4.ntop, lambda n: n != 4),
        ('IPv6.ntop', IPv6.ntop, lambda n: n != 16),
        ('AFI.unpack_afi', AFI.unpack_afi, lambda n: n < 2),
        ('SAFI.unpack_safi', SAFI.unpack_safi, lambda n: False),
        ('RouterID.unpack_routerid', RouterID.unpack_routerid, lambda n: n != 4),
    ]
    fails, evals = [], 0
    for name, fn, refuses in table:
        for n in range(0, 40):
            for wrap in (bytes, memoryview):
                for fill in (0, 0xFF, 0x41):
                    b = wrap(bytes([fill]) * n)
                    evals += 1
                    try:
                        fn(b)
                        got = None
                    except Exception as e:  # noqa
                        got = type(e).__name__
                    want = 'ValueError' if refuses(n) else None
                    if got != want:
                        fails.append({'what': f'model of {name}: {n} bytes ({wrap.__name__}) -> {got}, the model says {want}', 'input': {'helper': name, 'length': n, 'fill': fill, 'wrap': wrap.__name__}})
    return {'evaluations': evals, 'distinct_nontrivial': evals, 'exhaustive': True, 'bound': '7 helpers x lengths 0..39 x bytes/memoryview x 3 fill bytes: raises ValueError exactly when the model used at call sites says so, nothing else', 'rule': 'one case = (helper, length, container, fill)', 'samples': [{'helper': 'IPv4.ntop', 'length': 3}], 'failures': fails}


@replayer('C03', 'helper-models')
def _replay_helper(f):
    import socket
    from exabgp.protocol.family import AFI, SAFI
    from exabgp.protocol.ip import IPv4, IPv6
    from exabgp.bgp.message.open.routerid import RouterID

    i = f['input']
    fn = {'socket.inet_ntop(AF_INET, b)': lambda b: socket.inet_ntop(socket.AF_INET, b), 'socket.inet_ntop(AF_INET6, b)': lambda b: socket.inet_ntop(socket.AF_INET6, b), 'IPv4.ntop': IPv4.ntop, 'IPv6.ntop': IPv6.ntop, 'AFI.unpack_afi': AFI.unpack_afi, 'SAFI.unpack_safi': SAFI.unpack_safi, 'RouterID.unpack_routerid': RouterID.unpack_routerid}[i['helper']]
    b = (bytes if i['wrap'] == 'bytes' else memoryview)(bytes([i['fill']]) * i['length'])
    try:
        fn(b)
        got = None
    except Exception as e:  # noqa
        got = type(e).__name__
    return got == f['what'].split('the model says ')[1].replace('None', '') or (got is None and f['what'].endswith('None'))


# ---------------------------------------------------------------------------------------------------------------------
# message types whose body is a type, a length and a payload (OPERATIONAL; ROUTE-REFRESH has a fixed body): every type
# code the decoder registers and a few it does not, with EVERY payload length 0..40 and a length field that agrees --
# the inputs a plain truncation never builds, because cutting the body makes the length field lie and the generic check
# refuses first.
@bounded('C03', 'typed-payload-lengths')
def typed_payload_lengths(tier, seed):
    from exabgp.bgp.message.operational import Operational

    codes = sorted(int(c) for c in Operational.registered_operational) + [0, 0x7FFF, 0xFFFF]
    fails, evals = [], 0
    for code in codes:
        for n in range(0, 41):
            for fill in (0x00, 0x01, 0xFF):
                payload = struct.pack('!HB', 1, 1) + bytes([fill]) * 40
                body = struct.pack('!HH', code, n) + payload[:n]
                for kind in ('ebgp4',):
                    evals += 1
                    f = decode_any(kind, 6, body)
                    if f:
                        f['input']['operational_type'] = code
                        f['input']['payload_length'] = n
                        fails.append(f)
    for n in range(0, 12):
        for sub in (0, 1, 2, 3, 255):
            body = (struct.pack('!HBB', 1, sub, 1) + bytes(8))[:n]
            evals += 1
            f = decode_any('ebgp4', 5, body)
            if f:
                fails.append(f)
    return {'evaluations': evals, 'distinct_nontrivial': evals, 'exhaustive': True, 'bound': f'OPERATIONAL: {len(codes)} type codes (all registered + 3 unknown) x payload lengths 0..40 with an agreeing length field x 3 fill bytes; ROUTE-REFRESH: lengths 0..11 x 5 subtypes', 'rule': 'one case = one message body', 'samples': [{'type': 6, 'operational_type': codes[0], 'payload_length': 11}], 'failures': fails}


@replayer('C03', 'typed-payload-lengths')
def _replay_typed(f):
    i = f['input']
    return decode_any(i['kind'], i['type'], bytes.fromhex(i['body'])) is None


# ---------------------------------------------------------------------------------------------------------------------
# "under any negotiated parameters": the same valid messages on every receive path of Protocol.read_message (routes kept
# in Adj-RIB-In or not -- the second returns an unparsed placeholder), on the real Peer over loopback TCP: the session
# stays ESTABLISHED and nothing is answered.
def _valid_on_config(extra, which):
    import asyncio
    from . import sessionharness as S

    async def go():
        sess = S.Session(extra=extra)
        inp = {'neighbor_options': extra, 'message': which}
        try:
            try:
                await sess.to_state('ESTABLISHED')
            except RuntimeError as e:
                return {'what': f'harness: {e}', 'input': inp, 'harness': True}
            attrs = W.origin(0) + W.as_path([65002], True) + W.next_hop('192.0.2.1')
            body = {
                'announce': W.update_body(b'', attrs, bytes([24, 10, 0, 0])),
                'withdraw': W.update_body(bytes([24, 10, 0, 0]), b'', b''),
                'end-of-rib': W.update_body(b'', b'', b''),
                'announce-twice': W.update_body(b'', attrs, bytes([24, 10, 0, 0])),
            }[which]
            await sess.remote.send(S.msg(2, body))
            if which == 'announce-twice':
                await sess.remote.send(S.msg(2, body))
            await asyncio.sleep(0.5)
            nots = [e for e in sess.log if e[0] == 'sent' and e[2] == 3]
            state = sess.peer.fsm.name()
            closed = sess.transport_closed()
            sess.peer.teardown(2)
            await sess.finish(4)
            if nots or state != 'ESTABLISHED' or closed:
                return {'what': f'a valid UPDATE ({which}) on a session configured with "{extra or "defaults"}" ended it: state {state}' + (f', NOTIFICATION {nots[0][3][0]}/{nots[0][3][1]}' if nots else ', no NOTIFICATION') + (', transport closed' if closed else ''), 'input': inp}
            return None
        finally:
            sess.cleanup()

    return S.run(go(), 30)


@bounded('C03', 'valid-updates-on-every-receive-path')
def valid_updates_on_every_receive_path(tier, seed):
    import multiprocessing as mp

    cases = [(extra, which) for extra in ('', 'adj-rib-in false;', 'adj-rib-in true;') for which in ('announce', 'withdraw', 'end-of-rib', 'announce-twice')]
    with mp.get_context('fork').Pool(6) as pool:
        res = pool.starmap(_valid_on_config, cases)
    crashes = [r for r in res if r and r.get('harness')]
    if crashes:
        raise RuntimeError('session harness failed: ' + crashes[0]['what'])
    fails = [r for r in res if r]
    return {'evaluations': len(cases), 'distinct_nontrivial': len(cases), 'bound': '3 neighbor configurations (default, adj-rib-in false, adj-rib-in true; no API subscription to updates) x 4 valid UPDATE shapes sent to the real established Peer over loopback TCP', 'rule': 'one case = (neighbor options, message)', 'samples': [{'neighbor_options': 'adj-rib-in false;', 'message': 'announce'}], 'failures': fails}


@replayer('C03', 'valid-updates-on-every-receive-path')
def _replay_valid_cfg(f):
    return _valid_on_config(f['input']['neighbor_options'], f['input']['message']) is None


# ---------------------------------------------------------------------------------------------------------------------
# "finishes in time proportional to the message size": CPU time of the decode (Message.unpack + the parsed collection)
# at n and at 4n elements, for the shapes whose element count a peer controls; linear gives a ratio of 4, quadratic 16.
def _scaling_body(shape, n):
    attrs = W.origin(0) + W.as_path([65001], True) + W.next_hop('192.0.2.1')
    pfx = [bytes([24, 10, (i >> 8) & 255, i & 255]) for i in range(n)]
    if shape == 'announces':
        return W.update_body(b'', attrs, b''.join(pfx))
    if shape == 'withdraws':
        return W.update_body(b''.join(pfx), b'', b'')
    if shape == 'withdraws and announces of the same prefixes':
        return W.update_body(b''.join(pfx), attrs, b''.join(pfx))
    if shape == 'withdraws and announces of different prefixes':
        return W.update_body(b''.join(bytes([24, 11, (i >> 8) & 255, i & 255]) for i in range(n)), attrs, b''.join(pfx))
    if shape == 'communities':
        return W.update_body(b'', attrs + bytes([0xD0, 8]) + struct.pack('!H', 4 * n) + b''.join(struct.pack('!HH', 65000, i & 0xFFFF) for i in range(n)), pfx[0])
    if shape == 'unknown attributes':
        return W.update_body(b'', attrs + b''.join(W.unknown(128 + (i % 100), b'', transitive=False) for i in range(n)), pfx[0])
    if shape == 'repeated attribute':
        return W.update_body(b'', attrs + W.unknown(99, b'') * n, pfx[0])
    raise ValueError(shape)


def _decode_cpu(body):
    from exabgp.bgp.message import Message

    nb, neg = P.get_session('ebgp4')
    saved = neg.msg_size
    best = None
    for _ in range(3):
        t0 = time.thread_time()
        m = Message.unpack(2, memoryview(body), neg)
        if not getattr(m, 'IS_EOR', False):
            d = m.data
            len(d.announces), len(d.withdraws)
        dt = time.thread_time() - t0
        best = dt if best is None else min(best, dt)
    return best


SCALING_SHAPES = ['announces', 'withdraws', 'withdraws and announces of the same prefixes', 'withdraws and announces of different prefixes', 'communities', 'unknown attributes', 'repeated attribute']


def _scaling_case(shape):
    n = 400
    inp = {'shape': shape, 'n': n}
    try:
        t1 = _decode_cpu(_scaling_body(shape, n))
        t4 = _decode_cpu(_scaling_body(shape, 4 * n))
    except Exception as e:  # noqa
        if type(e).__name__ == 'Notify':
            return None
        return {'what': f'decoding a large valid UPDATE ({shape}) raised {type(e).__name__}: {str(e)[:100]}', 'input': inp}
    # 4 times the elements: at most 10 times the CPU time (linear: 4), and only judged when the time is measurable
    if t4 > 0.05 and t4 > 10 * max(t1, 0.002):
        return {'what': f'decode time is not proportional to the size ({shape}): {n} elements {t1 * 1000:.1f} ms, {4 * n} elements {t4 * 1000:.1f} ms (x{t4 / max(t1, 1e-9):.1f} for x4)', 'input': inp}
    return None


@bounded('C03', 'time-scaling')
def time_scaling(tier, seed):
    fails = []
    for shape in SCALING_SHAPES:
        f = _scaling_case(shape)
        if f:
            fails.append(f)
    return {'evaluations': len(SCALING_SHAPES), 'distinct_nontrivial': len(SCALING_SHAPES), 'bound': f'{len(SCALING_SHAPES)} UPDATE shapes whose element count the peer controls (NLRI announced, withdrawn, both; communities; unknown and repeated attributes) at 400 and 1600 elements: CPU time of Message.unpack + parse, best of 3; flagged above x10 for x4', 'rule': 'one case = one shape', 'samples': [{'shape': SCALING_SHAPES[2]}], 'failures': fails}


@replayer('C03', 'time-scaling')
def _replay_scaling(f):
    return _scaling_case(f['input']['shape']) is None


# ---------------------------------------------------------------------------------------------------------------------
# the generated UPDATE shapes of the C13 layer (attribute subsets, TLV multiplicity at two nesting levels, PMSI identifier
# sizes, IEEE floats, IS-IS area sizes, tunnel encapsulation): what decodes is rendered, indexed and hashed without any
# error which is not a NOTIFICATION -- on the plain all-families session and on the extended next-hop one
@bounded('C03', 'generated-shapes')
def generated_shapes(tier, seed):
    from . import c13

    fails, evals, kinds = [], 0, set()
    for body, what in c13.update_shapes():
        for nh in (False, True):
            evals += 1
            f = decode_render(2, body, nh=nh)
            if f and f['what'][:60] not in kinds:
                kinds.add(f['what'][:60])
                f['what'] += f' ({what})'
                fails.append(f)
    return {'evaluations': evals, 'distinct_nontrivial': evals, 'bound': f'{evals // 2} generated UPDATE shapes x 2 sessions: decoded, every NLRI and the attributes rendered (str, json), indexed and hashed', 'rule': 'one case = (UPDATE body, session)', 'samples': [{'shape': 'PMSI tunnel type 6 with an identifier of 16 octets'}], 'failures': fails[:10]}


@replayer('C03', 'generated-shapes')
def _replay_shapes(f):
    i = f['input']
    return decode_render(i['type'], bytes.fromhex(i['body']), nh=i.get('extended_nexthop_negotiated', False)) is None
