"""bounded stand-in for C10: every class of erroneous input injected in every session state of the REAL Peer._run()
(bounded/sessionharness.py), plus hold-timer expiry, API teardown and a received NOTIFICATION.  From the injection
until the connection closes ExaBGP must write: nothing after a NOTIFICATION, at most one NOTIFICATION, as the last
message, with the code / subcode of the error class; and no NOTIFICATION at all in answer to a NOTIFICATION."""
import asyncio
import socket
import struct

from .registry import bounded, replayer, harness_canary
from . import sessionharness as S
from spec import wire as W


def upd(attrs=b'', nlri=b'', wd=b''):
    return S.msg(2, W.update_body(wd, attrs, nlri))


GOOD_ATTRS = W.origin(0) + W.as_path([65002], True) + W.next_hop('192.0.2.1')
P24 = bytes([24, 10, 0, 0])

# name -> (bytes to inject, {state: expected (code, subcode) | (code, None) for "any subcode of that class"})
ANY = None
MAY_GO_ON = 'session may continue'


def faults():
    f = {}
    f['bad marker'] = (b'\xff' * 15 + b'\xfe' + struct.pack('!HB', 19, 4), {'*': (1, 1)})
    f['length 18'] = (S.MARKER + struct.pack('!HB', 18, 4), {'*': (1, 2)})
    f['length 4097 without extended message'] = (S.MARKER + struct.pack('!HB', 4097, 2) + bytes(4097 - 19), {'*': (1, 2)})
    f['keepalive with a body'] = (S.msg(4, b'x'), {'*': (1, 2)})
    f['unknown message type 9'] = (S.msg(9, b'abc'), {'*': (1, 3)})
    f['unknown message type 200'] = (S.msg(200, b''), {'*': (1, 3)})
    # types the implementation has a name for but which were not negotiated on this session (OPERATIONAL needs its
    # capability; 252 is an internal no-op code, never a BGP message): unrecognised types for this peer (RFC 4271 6.1)
    f['operational message, capability not negotiated'] = (S.msg(6, struct.pack('!HH', 1, 3) + struct.pack('!HB', 1, 1)), {'*': [(1, 3), (5, ANY)], 'ESTABLISHED': [(1, 3), (5, ANY), MAY_GO_ON]})
    f['message type 252'] = (S.msg(252, b''), {'*': (1, 3)})
    # OPEN errors (only meaningful where an OPEN is expected)
    # An OPEN which is both malformed and out of place belongs to two classes (OPEN error 2/x and FSM error 5/x): either
    # answer names the error per RFC 4271 section 6, both are accepted.  RFC 4271 8.2.2 leaves an OPEN received in
    # Established to the optional collision detection: ignoring it does not end the session, so nothing is owed (MAY_GO_ON).
    f['open version 3'] = (S.open_msg(version=3), {'OPENSENT': (2, 1), 'OPENCONFIRM': [(2, 1), (5, 2)], 'ESTABLISHED': [(2, 1), (5, 3), MAY_GO_ON]})
    f['open with the wrong AS'] = (S.open_msg(asn=65099), {'OPENSENT': (2, 2), 'OPENCONFIRM': [(2, 2), (5, 2)], 'ESTABLISHED': [(2, 2), (5, 3), MAY_GO_ON]})
    f['open with router-id 0.0.0.0'] = (S.open_msg(rid='0.0.0.0'), {'OPENSENT': (2, 3), 'OPENCONFIRM': [(2, 3), (5, 2)], 'ESTABLISHED': [(2, 3), (5, 3), MAY_GO_ON]})
    f['open with hold time 1'] = (S.open_msg(hold=1), {'OPENSENT': (2, 6), 'OPENCONFIRM': [(2, 6), (5, 2)], 'ESTABLISHED': [(2, 6), (5, 3), MAY_GO_ON]})
    f['open with hold time 2'] = (S.open_msg(hold=2), {'OPENSENT': (2, 6), 'OPENCONFIRM': [(2, 6), (5, 2)], 'ESTABLISHED': [(2, 6), (5, 3), MAY_GO_ON]})
    # RFC 4271 6.2: an optional parameter which is not recognized -> Unsupported Optional Parameters (2/4); authentication
    # information (parameter 1, deprecated by RFC 4271) -> 2/5 is what RFC 1771 said, 2/4 what RFC 4271 says
    _body = bytes([4]) + struct.pack('!HH', 65002, 180) + socket.inet_aton('10.0.0.9')
    f['open with an unknown optional parameter (type 3)'] = (S.msg(1, _body + bytes([3, 3, 1, 0])), {'OPENSENT': (2, 4), 'OPENCONFIRM': [(2, 4), (5, 2)], 'ESTABLISHED': [(2, 4), (5, 3), MAY_GO_ON]})
    f['open with an unknown optional parameter after the capabilities'] = (S.msg(1, _body + bytes([11, 2, 6, 1, 4, 0, 1, 0, 1, 200, 1, 0])), {'OPENSENT': (2, 4), 'OPENCONFIRM': [(2, 4), (5, 2)], 'ESTABLISHED': [(2, 4), (5, 3), MAY_GO_ON]})
    f['open with authentication information (parameter 1)'] = (S.msg(1, _body + bytes([3, 1, 1, 0])), {'OPENSENT': [(2, 4), (2, 5)], 'OPENCONFIRM': [(2, 4), (2, 5), (5, 2)], 'ESTABLISHED': [(2, 4), (2, 5), (5, 3), MAY_GO_ON]})
    # shorter than the minimum OPEN (29): a header error whatever the state (RFC 4271 6.1)
    f['open of 24 bytes'] = (S.msg(1, bytes([4, 0xFD, 0xEA, 0, 180])), {'*': (1, 2)})
    f['a second well-formed open'] = (S.open_msg(), {'OPENCONFIRM': (5, 2), 'ESTABLISHED': [(5, 3), MAY_GO_ON]})
    # messages unexpected for the state
    f['keepalive before the open'] = (S.KEEPALIVE, {'OPENSENT': (5, 1)})
    f['well-formed update too early'] = (upd(GOOD_ATTRS, P24), {'OPENSENT': (5, 1), 'OPENCONFIRM': (5, 2)})
    f['route-refresh too early'] = (S.msg(5, struct.pack('!HBB', 1, 0, 1)), {'OPENSENT': (5, 1), 'OPENCONFIRM': (5, 2)})
    # UPDATE errors (ESTABLISHED)
    f['update: attribute length overruns'] = (S.msg(2, struct.pack('!H', 0) + struct.pack('!H', 50) + W.origin(0)), {'ESTABLISHED': (3, 1)})
    f['update: withdrawn length overruns'] = (S.msg(2, struct.pack('!H', 200) + bytes(4)), {'ESTABLISHED': (3, 1)})
    f['update: body of 3 bytes'] = (S.msg(2, bytes(3)), {'ESTABLISHED': (1, 2)})
    f['update: prefix length 33'] = (upd(GOOD_ATTRS, bytes([33, 10, 0, 0, 0, 0])), {'ESTABLISHED': (3, ANY)})
    f['update: mp_reach for a family not negotiated, truncated'] = (upd(W.origin(0) + W.as_path([65002], True) + W.attr(0x80, 14, bytes([0, 2, 1]))), {'ESTABLISHED': (3, ANY)})
    # a refusal which quotes what the peer sent must still fit in a message
    f['update: COMMUNITIES of 4001 octets (not a multiple of 4)'] = (upd(W.origin(0) + W.as_path([65002], True) + W.next_hop('192.0.2.1') + bytes([0xD0, 8]) + struct.pack('!H', 4001) + b'\xff' * 4001, P24), {'ESTABLISHED': (3, ANY)})
    f['route-refresh of 3 bytes'] = (S.msg(5, bytes(3)), {'ESTABLISHED': (1, 2)})
    f['route-refresh with reserved subtype 200'] = (S.msg(5, struct.pack('!HBB', 1, 200, 1)), {'ESTABLISHED': (7, ANY)})
    return f


async def one_case(state, name, data, expected, hold=180):
    """-> failure or None"""
    sess = S.Session(hold=hold)
    inp = {'state': state, 'fault': name, 'bytes': data.hex()[:200]}
    try:
        try:
            await sess.to_state(state)
        except RuntimeError as e:
            return {'what': f'harness could not reach {state}: {e}', 'input': inp, 'harness': True}
        before = len(sess.log)
        await sess.remote.send(data)
        written = await sess.remote.drain_until_close(timeout=4.0)
        done = await sess.finish()
        return judge(sess, written, expected, inp, done, answered_notification=False)
    finally:
        sess.cleanup()


def judge(sess, written, expected, inp, done, answered_notification):
    inp = dict(inp)
    inp['written'] = [f'NOTIFICATION {b[0]}/{b[1]}' if t == 3 and len(b) >= 2 else f'type {t}' for t, b in written]
    alternatives = expected if isinstance(expected, list) else [expected]
    if not sess.remote.closed:
        if MAY_GO_ON in alternatives and not any(t == 3 for t, _b in written):
            return None
        return {'what': 'the connection is still open 4 s after the fault', 'input': inp}
    alternatives = [a for a in alternatives if a != MAY_GO_ON]
    if not done:
        return {'what': 'Peer._run() did not return after the fault', 'input': inp}
    nots = [i for i, (t, _b) in enumerate(written) if t == 3]
    if answered_notification:
        if nots:
            return {'what': 'a received NOTIFICATION was answered with a NOTIFICATION', 'input': inp}
        return None
    if len(nots) > 1:
        return {'what': f'{len(nots)} NOTIFICATIONs written for one error', 'input': inp}
    want = ' or '.join(f'{c}/{x if x is not None else "x"}' for c, x in alternatives)
    if not nots:
        return {'what': f'the session was ended without a NOTIFICATION (expected {want})', 'input': inp}
    if nots[0] != len(written) - 1:
        return {'what': 'something was written on the connection after the NOTIFICATION', 'input': inp}
    if sess.remote.buffer:
        return {'what': f'{len(sess.remote.buffer)} stray bytes written after the NOTIFICATION', 'input': inp}
    code, sub = written[nots[0]][1][0], written[nots[0]][1][1]
    if 19 + len(written[nots[0]][1]) > 4096:
        return {'what': f'the NOTIFICATION written is {19 + len(written[nots[0]][1])} octets long (RFC 4271 4.1: no message is longer than 4096)', 'input': inp}
    if not any(code == c and (x is None or sub == x) for c, x in alternatives):
        return {'what': f'NOTIFICATION {code}/{sub} for an error of class {want} (RFC 4271 section 6)', 'input': inp}
    return None


async def hold_expiry():
    """negotiated hold time 3 s (the peer's OPEN), nothing sent afterwards: 4/0 between 3 and ~5 s"""
    sess = S.Session(hold=180)
    inp = {'state': 'ESTABLISHED', 'fault': 'silence for longer than the negotiated hold time (3 s)'}
    try:
        try:
            await sess.to_state('ESTABLISHED', peer_open=S.open_msg(hold=3))
        except RuntimeError as e:
            return {'what': f'harness could not reach ESTABLISHED: {e}', 'input': inp, 'harness': True}
        written = await sess.remote.drain_until_close(timeout=7.0)
        done = await sess.finish()
        written = [(t, b) for t, b in written if t != 4]  # its own keepalives while waiting are legitimate
        return judge(sess, written, (4, 0), inp, done, False)
    finally:
        sess.cleanup()


GR_CAPS = bytes([1, 4, 0, 1, 0, 1]) + bytes([2, 0]) + bytes([65, 4]) + struct.pack('!L', 65002) + bytes([64, 6]) + struct.pack('!H', 120) + bytes([0, 1, 1, 0x80])


async def teardown(code, peer_gr=False):
    """API teardown.  peer_gr: the peer's OPEN announces graceful restart (capability 64) while ExaBGP does not: graceful
    restart is not in use on the session and the Cease is owed"""
    sess = S.Session()
    inp = {'state': 'ESTABLISHED', 'fault': f'API teardown {code}' + (' (peer announced graceful restart, we did not)' if peer_gr else '')}
    try:
        try:
            await sess.to_state('ESTABLISHED', peer_open=S.open_msg(caps=GR_CAPS) if peer_gr else None)
        except RuntimeError as e:
            return {'what': f'harness could not reach ESTABLISHED: {e}', 'input': inp, 'harness': True}
        sess.peer.teardown(code)
        written = await sess.remote.drain_until_close(timeout=4.0)
        done = await sess.finish()
        written = [(t, b) for t, b in written if t not in (4,)]
        return judge(sess, written, (6, code), inp, done, False)
    finally:
        sess.cleanup()


async def received_notification(state, code, sub, data=b''):
    sess = S.Session()
    inp = {'state': state, 'fault': f'NOTIFICATION {code}/{sub} received'}
    try:
        try:
            await sess.to_state(state)
        except RuntimeError as e:
            return {'what': f'harness could not reach {state}: {e}', 'input': inp, 'harness': True}
        await sess.remote.send(S.msg(3, bytes([code, sub]) + data))
        written = await sess.remote.drain_until_close(timeout=4.0)
        done = await sess.finish()
        return judge(sess, written, None, inp, done, True)
    finally:
        sess.cleanup()


async def first_message_fault(name, data, expected):
    """a neighbor with `local-as auto` mirrors the AS of the peer: ExaBGP reads the peer's OPEN BEFORE sending its own,
    so the first message of the peer arrives while nothing was sent yet.  A fault in it is answered all the same."""
    sess = S.Session(local_as='auto')
    inp = {'state': 'connected, our OPEN not sent yet (local-as auto)', 'fault': name, 'bytes': data.hex()[:200]}
    try:
        sess.start()
        await asyncio.sleep(0.1)
        if any(e[0] == 'sent' for e in sess.log):
            return {'what': 'harness: ExaBGP sent something before reading (local-as auto does not read first any more)', 'input': inp, 'harness': True}
        await sess.remote.send(data)
        written = await sess.remote.drain_until_close(timeout=4.0)
        done = await sess.finish()
        return judge(sess, written, expected, inp, done, answered_notification=False)
    finally:
        sess.cleanup()


async def received_big_notification(state, size):
    """extended messages negotiated (RFC 8654): a NOTIFICATION longer than 4096 octets is a valid message, and it is a
    NOTIFICATION: nothing is written in answer"""
    sess = S.Session(extra='capability { extended-message enable; }')
    inp = {'state': state, 'fault': f'NOTIFICATION 6/2 of {size} octets received, extended messages negotiated'}
    caps = bytes([1, 4, 0, 1, 0, 1]) + bytes([2, 0]) + bytes([6, 0]) + bytes([65, 4]) + struct.pack('!L', 65002)
    try:
        try:
            await sess.to_state(state, peer_open=S.open_msg(caps=caps))
        except RuntimeError as e:
            return {'what': f'harness could not reach {state}: {e}', 'input': inp, 'harness': True}
        if sess.conn.msg_size != 65535:
            return {'what': f'harness: extended messages were not negotiated (msg_size {sess.conn.msg_size})', 'input': inp, 'harness': True}
        await sess.remote.send(S.msg(3, bytes([6, 2]) + b'x' * (size - 21)))
        written = await sess.remote.drain_until_close(timeout=4.0)
        done = await sess.finish()
        return judge(sess, written, None, inp, done, True)
    finally:
        sess.cleanup()


async def received_big_open(state, size):
    """extended messages negotiated: RFC 8654 section 4 -- the larger size applies to every message except OPEN and KEEPALIVE;
    an OPEN above 4096 octets is outside the bounds of its type, a header error (1/2) in whatever state"""
    sess = S.Session(extra='capability { extended-message enable; }')
    inp = {'state': state, 'fault': f'OPEN of {size} octets received, extended messages negotiated'}
    caps = bytes([1, 4, 0, 1, 0, 1]) + bytes([2, 0]) + bytes([6, 0]) + bytes([65, 4]) + struct.pack('!L', 65002)
    try:
        try:
            await sess.to_state(state, peer_open=S.open_msg(caps=caps))
        except RuntimeError as e:
            return {'what': f'harness could not reach {state}: {e}', 'input': inp, 'harness': True}
        if sess.conn.msg_size != 65535:
            return {'what': f'harness: extended messages were not negotiated (msg_size {sess.conn.msg_size})', 'input': inp, 'harness': True}
        body = bytes([4]) + struct.pack('!HH', 65002, 180) + socket.inet_aton('10.0.0.9') + bytes([0])
        await sess.remote.send(S.MARKER + struct.pack('!HB', size, 1) + body + bytes(size - 19 - len(body)))
        written = await sess.remote.drain_until_close(timeout=4.0)
        done = await sess.finish()
        return judge(sess, written, (1, 2), inp, done, answered_notification=False)
    finally:
        sess.cleanup()


# a NOTIFICATION shorter than 21 bytes is a header error under RFC 4271 6.1 (Bad Message Length, 1/2), which is reported;
# section 6.4 only forbids reporting an error found INSIDE a NOTIFICATION.  Both silence and 1/2 are accepted.
STATES = ('OPENSENT', 'OPENCONFIRM', 'ESTABLISHED')


def all_cases(tier):
    cases = []
    for name, (data, exp) in faults().items():
        for st in STATES:
            e = exp.get(st, exp.get('*'))
            if e is not None:
                cases.append((f'{st}: {name}', lambda st=st, name=name, data=data, e=e: one_case(st, name, data, e)))
    for st in STATES:
        cases.append((f'{st}: notification 6/2 received', lambda st=st: received_notification(st, 6, 2, b'\x04test')))
        cases.append((f'{st}: notification of 20 bytes received', lambda st=st: received_notification_raw(st, S.msg(3, b'\x06'))))
    fs = faults()
    for name, want in (('bad marker', (1, 1)), ('length 18', (1, 2)), ('unknown message type 9', (1, 3)), ('open version 3', (2, 1)), ('keepalive before the open', (5, 1)), ('open of 24 bytes', (1, 2))):
        cases.append((f'local-as auto, first message: {name}', lambda name=name, want=want: first_message_fault(name, fs[name][0], want)))
    for st in ('OPENCONFIRM', 'ESTABLISHED'):
        for size in (4096, 4097, 5021, 65535):
            cases.append((f'{st}: notification of {size} octets received, extended messages negotiated', lambda st=st, size=size: received_big_notification(st, size)))
    for st in ('OPENCONFIRM', 'ESTABLISHED'):
        for size in (4097, 5000):
            cases.append((f'{st}: open of {size} octets received, extended messages negotiated', lambda st=st, size=size: received_big_open(st, size)))
    for code in (2, 3, 4):
        cases.append((f'ESTABLISHED: api teardown {code}', lambda code=code: teardown(code)))
        cases.append((f'ESTABLISHED: api teardown {code}, peer announced graceful restart', lambda code=code: teardown(code, True)))
    cases.append(('ESTABLISHED: hold timer expiry', hold_expiry))
    return cases


async def received_notification_raw(state, raw):
    sess = S.Session()
    inp = {'state': state, 'fault': 'NOTIFICATION of 20 bytes received', 'bytes': raw.hex()}
    try:
        try:
            await sess.to_state(state)
        except RuntimeError as e:
            return {'what': f'harness could not reach {state}: {e}', 'input': inp, 'harness': True}
        await sess.remote.send(raw)
        written = await sess.remote.drain_until_close(timeout=4.0)
        done = await sess.finish()
        if any(t == 3 for t, _b in written):
            return judge(sess, written, (1, 2), inp, done, False)
        return judge(sess, written, None, inp, done, True)
    finally:
        sess.cleanup()


def run_case(fn):
    try:
        return S.run(fn(), timeout=30)
    except asyncio.TimeoutError:
        return {'what': 'the case did not finish within 30 s', 'input': {}}


def _one(args):
    label, idx, tier = args
    cases = all_cases(tier)
    f = run_case(cases[idx][1])
    if f:
        f.setdefault('input', {})['case'] = label
    return f


@bounded('C10', 'faults-in-every-state')
def faults_in_every_state(tier, seed):
    import multiprocessing as mp

    cases = all_cases(tier)
    # each case is a real TCP session with real waits: run them in parallel processes
    with mp.get_context('fork').Pool(12) as pool:
        res = pool.map(_one, [(label, i, tier) for i, (label, _fn) in enumerate(cases)], chunksize=1)
    fails = [r for r in res if r and not r.get('harness')]
    crashes = [r for r in res if r and r.get('harness')]
    if crashes:
        raise RuntimeError('session harness failed to set a case up: ' + crashes[0]['what'])
    return {'evaluations': len(cases), 'distinct_nontrivial': len(cases), 'bound': f'{len(faults())} faults (header, OPEN, UPDATE, ROUTE-REFRESH, unexpected type) x the session states in which each has a defined RFC 4271 / 7313 answer, a NOTIFICATION (well-formed and one byte long) received in each state, API teardown 2/3/4, hold-timer expiry with a negotiated hold time of 3 s; each on a fresh real Peer over loopback TCP', 'rule': 'one case = (state, fault)', 'samples': [{'case': cases[0][0]}, {'case': cases[-1][0]}], 'failures': fails}


@replayer('C10', 'faults-in-every-state')
def _replay(f):
    label = f['input'].get('case')
    for lab, fn in all_cases('quick'):
        if lab == label:
            return run_case(fn) is None
    return True


def _with_patch(obj, name, replacement, case_fn):
    real = getattr(obj, name)
    setattr(obj, name, replacement)
    try:
        return run_case(case_fn) is not None
    finally:
        setattr(obj, name, real)


@harness_canary('C10', 'NOTIFICATION never written')
def _hc_silent():
    from exabgp.reactor.protocol import Protocol

    async def nothing(self, notify):
        return None

    data, exp = faults()['bad marker']
    return run_case(lambda: one_case('ESTABLISHED', 'bad marker', data, exp['*'])) is None and _with_patch(Protocol, 'new_notification', nothing, lambda: one_case('ESTABLISHED', 'bad marker', data, exp['*']))


@harness_canary('C10', 'a received NOTIFICATION is answered')
def _hc_answer():
    from exabgp.reactor.peer import Peer
    from exabgp.bgp.message.notification import Notify, Notification

    real = Peer._main

    async def main(self):
        try:
            return await real(self)
        except Notification:
            raise Notify(6, 0, 'answering') from None

    return _with_patch(Peer, '_main', main, lambda: received_notification('ESTABLISHED', 6, 2, b''))


# ---------------------------------------------------------------------------------------------------------------------
# raise-site table: a STATIC obligation over every place in the repository's source where a Notify / NotifyError is
# constructed with literal code and subcode (scanned from the AST of the current tree on every run): the code must be the
# RFC 4271 section 6 class of the layer the site lives in.  Complete for those sites; says nothing about reachability and
# nothing about the 4 sites that forward a code they were given.
SITE_CLASSES = [
    # (path prefix, allowed (code, subcode or None) set, exceptions {(qualname, code, sub): reason})
    ('bgp/message/update/', {(3, None)}, {
        ('UpdateCollection.split', 1, 2): 'an UPDATE shorter than its own length fields: a length error of the message (RFC 4271 6.1)',
        ('Attribute.klass', 2, 4): 'only reached for a (type, flags) pair AttributeCollection.unpack has already found registered (C08 contract): unreachable from decoding',
        ('Attribute.unpack', 2, 4): 'same guard as Attribute.klass: unreachable from decoding',
    }),
    ('bgp/message/open/', {(2, None)}, {('Open.unpack_message', 1, 2): 'an OPEN shorter than its fixed part: message length error (RFC 4271 6.1)'}),
    ('bgp/message/refresh.py', {(7, None)}, {}),
    ('bgp/message/keepalive.py', {(1, 2)}, {}),
    ('bgp/message/operational.py', {(5, None), (1, None)}, {}),
    ('bgp/message/message.py', {(1, 3)}, {('Message.klass', 2, 4): 'only called with a type Message.unpack has already found registered: unreachable from decoding'}),
    ('bgp/timer.py', {(4, 0), (2, 6)}, {}),
    ('reactor/keepalive.py', {(4, 0)}, {}),
    ('reactor/network/connection.py', {(1, 1), (1, 2)}, {}),
    ('reactor/protocol.py', {(1, 3), (1, 0), (5, 1), (5, 2)}, {}),
    ('reactor/peer/peer.py', {(5, 1), (6, None), (4, 0)}, {}),
]
SITE_FUNCTIONS = {
    # per-function narrowing where the RFC names one subcode
    ('reactor/protocol.py', 'Protocol.read_open'): {(5, 1)},
    ('reactor/protocol.py', 'Protocol.read_keepalive'): {(5, 2)},
    ('reactor/peer/peer.py', 'Peer._read_open'): {(5, 1)},
    ('reactor/peer/peer.py', 'Peer._main'): {(6, None)},
    # RFC 4271 8.2.2, OpenConfirm: hold timer expiry while waiting for the confirming KEEPALIVE (site added by the fix c9fd27e)
    ('reactor/peer/peer.py', 'Peer._read_ka'): {(4, 0)},
}


def notify_sites():
    import ast
    import os

    root = os.path.join(os.environ.get('PYVC_REPO', '/repo'), 'src', 'exabgp')
    out = []
    for dp, _dn, fns in os.walk(root):
        for f in fns:
            if not f.endswith('.py'):
                continue
            p = os.path.join(dp, f)
            rel = os.path.relpath(p, root)
            if rel == 'bgp/message/notification.py':
                continue
            try:
                tree = ast.parse(open(p).read())
            except SyntaxError:
                continue

            def walk(node, qual):
                for ch in ast.iter_child_nodes(node):
                    q = qual
                    if isinstance(ch, (ast.FunctionDef, ast.AsyncFunctionDef, ast.ClassDef)):
                        q = (qual + '.' if qual else '') + ch.name
                    if isinstance(ch, ast.Call):
                        name = ch.func.id if isinstance(ch.func, ast.Name) else ch.func.attr if isinstance(ch.func, ast.Attribute) else None
                        if name in ('Notify', 'NotifyError') and len(ch.args) >= 2:
                            c = ch.args[0].value if isinstance(ch.args[0], ast.Constant) else None
                            s = ch.args[1].value if isinstance(ch.args[1], ast.Constant) else None
                            out.append((rel, qual, c, s, ch.lineno))
                    walk(ch, q)

            walk(tree, '')
    return out


@bounded('C10', 'raise-site-table')
def raise_site_table(tier, seed):
    sites = notify_sites()
    fails, evals, forwarded, excepted = [], 0, [], []
    for rel, qual, c, s, line in sites:
        if c is None:
            forwarded.append(f'{rel}:{qual}:{line}')
            continue
        evals += 1
        rule = next((r for r in SITE_CLASSES if rel.startswith(r[0])), None)
        inp = {'file': rel, 'function': qual, 'line': line, 'code': c, 'subcode': s}
        if rule is None:
            fails.append({'what': f'a NOTIFICATION {c}/{s} is raised in {rel} ({qual}), a place with no error class assigned', 'input': inp})
            continue
        allowed = SITE_FUNCTIONS.get((rel, qual), rule[1])
        if any(c == a and (b is None or s == b) for a, b in allowed):
            continue
        if (qual, c, s) in rule[2]:
            excepted.append(f'{rel}:{qual} {c}/{s}: {rule[2][(qual, c, s)]}')
            continue
        want = ' or '.join(f'{a}/{b if b is not None else "x"}' for a, b in sorted(allowed, key=str))
        fails.append({'what': f'{rel} {qual} (line {line}) raises NOTIFICATION {c}/{s}; errors detected there are of class {want} (RFC 4271 section 6)', 'input': inp})
    if evals < 200:
        raise RuntimeError(f'raise-site scan found only {evals} sites: the scan no longer sees the source')
    return {'evaluations': evals, 'distinct_nontrivial': evals, 'bound': f'STATIC and complete for what it covers: all {evals} places where Notify / NotifyError is built with a literal code (AST scan of the current tree), each against the error class of its layer; {len(forwarded)} sites forward a code they were given and are not decided: {forwarded}; listed exceptions met: {excepted}', 'rule': 'one case = one raise site', 'samples': [{'file': sites[0][0], 'function': sites[0][1], 'code': sites[0][2]}], 'failures': fails}


@replayer('C10', 'raise-site-table')
def _replay_sites(f):
    r = raise_site_table('quick', 1)
    return not any(x['input']['file'] == f['input']['file'] and x['input']['function'] == f['input']['function'] and x['input']['code'] == f['input']['code'] and x['input']['subcode'] == f['input']['subcode'] for x in r['failures'])
