"""harness for C04 / C11 / C17: the real OutgoingRIB driven by operation sequences; every UPDATE it emits is encoded by
the real UpdateCollection.messages() and applied, in order, to a peer table rebuilt with the RFC reference decoder."""
import socket

from . import harness as H
from spec.update import decode_update

_routes = {}
_cfg = []


def route(prefix, med=None, nh='192.0.2.1', extra=''):
    """a real Route built by the real route-text parser (memoised: same text -> same object semantics, new object)"""
    from exabgp.configuration.configuration import Configuration

    if not _cfg:
        _cfg.append(Configuration([], text=True))
    text = f'route {prefix} next-hop {nh}' + (f' med {med}' if med is not None else '') + (' ' + extra if extra else '')
    rs = _cfg[0].parse_route_text(text, 'announce')
    assert len(rs) == 1, text
    return rs[0]


class Peer:
    """the remote speaker: applies every UPDATE it receives in order"""

    def __init__(self):
        self.table = {}
        self.log = []
        self.eor = []

    def receive(self, msg: bytes):
        if msg[18] != 2:
            return
        d = decode_update(msg)
        attrs = {t: v for _, t, v in d['attributes']}
        med = int.from_bytes(attrs[4], 'big') if 4 in attrs else None
        nh = socket.inet_ntoa(attrs[3]) if 3 in attrs else None
        if not d['withdrawn'] and not d['nlri'] and not d['mp_reach'] and not d['mp_unreach'] and not d['attributes']:
            self.eor.append((1, 1))
        for afi, safi, pfx in d['mp_unreach']:
            if not pfx:
                self.eor.append((afi, safi))
            for pid, lab, rd, bits, body in pfx:
                k = (afi, bits, body)
                self.table.pop(k, None)
                self.log.append(('withdraw', k))
        for pid, lab, rd, bits, body in d['withdrawn']:
            k = (1, bits, body)
            self.table.pop(k, None)
            self.log.append(('withdraw', k))
        for pid, lab, rd, bits, body in d['nlri']:
            k = (1, bits, body)
            # (next hop, MED) -- and the extended communities octet for octet when there are any
            self.table[k] = (nh, med) + ((attrs[16].hex(),) if 16 in attrs else ())
            self.log.append(('announce', k, nh, med))
        for afi, safi, nhb, pfx in d['mp_reach']:
            for pid, lab, rd, bits, body in pfx:
                k = (afi, bits, body)
                self.table[k] = (socket.inet_ntop(socket.AF_INET6, nhb[:16]) if len(nhb) >= 16 else socket.inet_ntoa(nhb[:4]), med)
                self.log.append(('announce', k))


def key_of(r):
    cidr = r.nlri.cidr
    afi = 1 if len(cidr.pack_ip()) <= 4 and ':' not in str(cidr) else 2
    bits = cidr.mask
    return (afi, bits, bytes(cidr.pack_ip())[: (bits + 7) // 8])


def reported(rib):
    """Adj-RIB-Out as ExaBGP reports it"""
    from exabgp.bgp.message.update.attribute import Attribute

    out = {}
    for r in rib.cached_routes():
        med = r.attributes.get(Attribute.CODE.MED, None)
        ext = r.attributes.get(Attribute.CODE.EXTENDED_COMMUNITY, None)
        out[key_of(r)] = (str(r.nexthop), int(med.med) if med is not None and hasattr(med, 'med') else (int(str(med)) if med is not None else None)) + ((bytes(ext._packed).hex(),) if ext is not None else ())
    return out


class Session:
    def __init__(self, families=((1, 1), (2, 1))):
        from exabgp.rib.outgoing import OutgoingRIB
        from exabgp.protocol.family import AFI, SAFI

        self.nb, self.neg = H.session('ibgp4')
        fam = {(AFI.from_int(a), SAFI.from_int(s)) for a, s in families}
        self.rib = OutgoingRIB(True, fam)
        self.peer = Peer()
        self.gen = None

    def send(self, count=None):
        """consume `count` items of the current updates() generator (all when None) the way the peer loop does"""
        if self.gen is None:
            self.gen = self.rib.updates(True)
        n = 0
        while count is None or n < count:
            try:
                u = next(self.gen)
            except StopIteration:
                self.gen = None
                return False
            if hasattr(u, 'messages'):
                for m in u.messages(self.neg, True):
                    self.peer.receive(bytes(m))
            n += 1
        return True

    def drain(self):
        guard = 0
        if self.gen is not None:
            self.send()
        while self.rib.pending() and guard < 50:
            self.send()
            guard += 1

    def lose_session(self):
        """connection lost: the peer forgets everything; ExaBGP resets the RIB for the next establishment"""
        self.gen = None
        self.peer = Peer()
        self.rib.reset()

    def establish(self, previous, new):
        self.rib.replace_restart(previous, new)
