"""bounded stand-ins for C02 (and the decode half of C08/C03/C13): real decode pipeline vs RFC reference"""
import random

from .registry import bounded, replayer
from . import pipeline as P
from spec import wire as W


@bounded('C02', 'decode-vs-reference')
def decode_vs_reference(tier, seed):
    rnd = random.Random(seed)
    n = 120 if tier == 'quick' else 3000
    fails, evals, distinct, samples = [], 0, set(), []
    for kind in ('ebgp4', 'ibgp2', 'addpath', 'enh'):
        for _ in range(n):
            body, attrs, wd, nlri = P.gen_update(rnd, kind)
            evals += 1
            distinct.add((kind, body))
            f = P.compare_update(kind, body)
            if f:
                fails.append(f)
            if len(samples) < 3:
                samples.append({'kind': kind, 'body': body.hex()[:160], 'attributes': [a for a, _ in attrs]})
    # End-of-RIB markers for the right family (RFC 4724)
    from spec import wire as W

    for kind in ('ebgp4', 'addpath'):
        for body, fam in ((W.update_body(b'', b'', b''), ('ipv4', 'unicast')), (W.update_body(b'', W.mp_unreach(2, 1, b''), b''), ('ipv6', 'unicast'))):
            evals += 1
            distinct.add((kind, body))
            o = P.observe(kind, body)
            if o.get('status') != 'ok' or not o.get('eor') or 'json_error' in o or 'handler_error' in o or o.get('update', {}).get('eor', o.get('update', {})).get('afi') != fam[0]:
                fails.append({'what': f'End-of-RIB for {fam} not recognised / not rendered / not handled: {str(o)[:300]}', 'input': {'kind': kind, 'body': body.hex()}})
    return {'evaluations': evals, 'distinct_nontrivial': len(distinct), 'bound': f'{n} generated well-formed UPDATEs x 3 session kinds (4-byte eBGP, 2-byte iBGP with AS4_PATH/AS4_AGGREGATOR, ADD-PATH) + End-of-RIB markers', 'rule': 'one case = (session kind, UPDATE body); distinct by bytes; each has 3-15 attributes in random order', 'samples': samples, 'failures': fails}


@replayer('C02', 'decode-vs-reference')
def _replay(f):
    i = f['input']
    return P.compare_update(i['kind'], bytes.fromhex(i['body'])) is None


@bounded('C02', 'rib-history')
def rib_history(tier, seed):
    """Adj-RIB-In after a HISTORY of UPDATEs = fold of the reference decodes (announces with the message's attributes and
    next hop replace, withdraws remove)"""
    import json
    from spec.render import expected_update

    rnd = random.Random(seed + 7)
    rounds = 25 if tier == 'quick' else 400
    fails, evals, distinct, samples = [], 0, set(), []
    for r in range(rounds):
        kind = rnd.choice(['ebgp4', 'ibgp2', 'addpath'])
        asn4 = kind != 'ibgp2'
        ap = kind == 'addpath'
        pid = (lambda: rnd.randint(1, 3)) if ap else (lambda: None)
        nb, neg = P.get_session(kind)
        nb.rib.incoming.clear_cache()
        want = {}
        hist = []
        attrs_fixed = W.origin(0) + W.as_path([65001], asn4) + W.next_hop()
        for step in range(rnd.randint(2, 5)):
            import socket

            nh6 = socket.inet_pton(socket.AF_INET6, rnd.choice(['2001:db8::1', '2001:db8::2']))
            p6 = rnd.choice(['2001:db8:a::', '2001:db8:b::'])
            p4 = rnd.choice(['10.1.0.0', '10.2.0.0'])
            attrs = attrs_fixed if rnd.random() < 0.6 else W.origin(0) + W.as_path([65001], asn4) + W.next_hop() + W.med(rnd.randint(0, 3))
            parts = attrs
            if rnd.random() < 0.7:
                parts += W.mp_reach(2, 1, nh6, W.prefix6(p6, 48, pid()))
            wd = W.prefix4(p4, 16, pid()) if rnd.random() < 0.3 else b''
            # with ADD-PATH one UPDATE may withdraw one path of a prefix and announce another path of the same prefix
            nl = W.prefix4(p4, 16, pid()) if (ap or not wd) and rnd.random() < 0.7 else b''
            if rnd.random() < 0.2:
                parts += W.mp_unreach(2, 1, W.prefix6(p6, 48, pid()))
            body = W.update_body(wd, parts, nl)
            hist.append(body.hex())
            exp = expected_update(body, asn4, P.addpath_fn(kind))

            def key(it):
                return it['nlri'] + (' path-information ' + it['path-information'] if it.get('path-information') else '')

            for fam, items in exp['withdraw'].items():
                for it in items:
                    want.pop(key(it), None)
            for fam, by_nh in exp['announce'].items():
                for nh, items in by_nh.items():
                    for it in items:
                        want[key(it)] = {'nexthop': nh, 'med': exp['attribute'].get('med')}
            o = P.observe(kind, body, clear_rib=False)
            if 'handler_error' in o or o.get('status') != 'ok':
                fails.append({'what': f'history step failed: {str(o)[:200]}', 'input': {'kind': kind, 'history': hist}})
                break
        evals += 1
        distinct.add(tuple(hist))
        got = {k: {'nexthop': v['nexthop'], 'med': v['attributes'].get('med')} for k, v in (o.get('rib') or {}).items()}
        if got != want:
            fails.append({'what': 'Adj-RIB-In after the history differs from the fold of the reference decodes', 'input': {'kind': kind, 'history': hist}, 'expected': json.dumps(want, sort_keys=True), 'observed': json.dumps(got, sort_keys=True)})
        if len(samples) < 2:
            samples.append({'kind': kind, 'history': [h[:80] for h in hist]})
    return {'evaluations': evals, 'distinct_nontrivial': len(distinct), 'bound': f'{rounds} histories of 2-5 UPDATEs over 2 IPv4 + 2 IPv6 prefixes, 2 next hops, 2 attribute sets', 'rule': 'one case = one history; distinct by the byte sequence', 'samples': samples, 'failures': fails}
