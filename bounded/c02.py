"""bounded stand-ins for C02 (and the decode half of C08/C03/C13): real decode pipeline vs RFC reference"""
import random

from .registry import bounded, replayer
from . import pipeline as P


@bounded('C02', 'decode-vs-reference')
def decode_vs_reference(tier, seed):
    rnd = random.Random(seed)
    n = 120 if tier == 'quick' else 3000
    fails, evals, distinct, samples = [], 0, set(), []
    for kind in ('ebgp4', 'ibgp2', 'addpath'):
        for _ in range(n):
            body, attrs, wd, nlri = P.gen_update(rnd, kind)
            evals += 1
            distinct.add((kind, body))
            f = P.compare_update(kind, body)
            if f:
                fails.append(f)
            if len(samples) < 3:
                samples.append({'kind': kind, 'body': body.hex()[:160], 'attributes': [a for a, _ in attrs]})
    # End-of-RIB markers for the right family (RFC 4724)
    from spec import wire as W

    for kind in ('ebgp4', 'addpath'):
        for body, fam in ((W.update_body(b'', b'', b''), ('ipv4', 'unicast')), (W.update_body(b'', W.mp_unreach(2, 1, b''), b''), ('ipv6', 'unicast'))):
            evals += 1
            distinct.add((kind, body))
            o = P.observe(kind, body)
            if o.get('status') != 'ok' or not o.get('eor') or 'json_error' in o or 'handler_error' in o or o.get('update', {}).get('eor', o.get('update', {})).get('afi') != fam[0]:
                fails.append({'what': f'End-of-RIB for {fam} not recognised / not rendered / not handled: {str(o)[:300]}', 'input': {'kind': kind, 'body': body.hex()}})
    return {'evaluations': evals, 'distinct_nontrivial': len(distinct), 'bound': f'{n} generated well-formed UPDATEs x 3 session kinds (4-byte eBGP, 2-byte iBGP with AS4_PATH/AS4_AGGREGATOR, ADD-PATH) + End-of-RIB markers', 'rule': 'one case = (session kind, UPDATE body); distinct by bytes; each has 3-15 attributes in random order', 'samples': samples, 'failures': fails}


@replayer('C02', 'decode-vs-reference')
def _replay(f):
    i = f['input']
    return P.compare_update(i['kind'], bytes.fromhex(i['body'])) is None
