from . import c12, c06  # noqa: F401
