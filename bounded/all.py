from . import c12  # noqa: F401
