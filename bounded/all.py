from . import c12, c06, c09, c16, c02, c08, c03, c19, c07, c20, c04, c17, c11, c14, c18, c13, c01, c15, c10, c05  # noqa: F401
