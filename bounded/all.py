from . import c12, c06, c09, c16  # noqa: F401
