from . import c12, c06, c09  # noqa: F401
