"""bounded stand-in for C15: every NLRI and attribute the repository's QA corpus holds (all the families the project
tests) decoded by the real decoders, re-encoded by the real encoders and decoded again: equal objects, equal bytes,
equal index / hash, deterministic renderings; plus byte-level variants of each NLRI to look for objects that compare
equal but hash or index differently, and for different routes sharing an index."""
import random

from .registry import bounded, replayer, harness_canary, region
from . import c13

ACTION = None


def decoded_updates():
    """[(source, body, UpdateCollection)] for the corpus UPDATEs that decode on the all-families session"""
    from exabgp.bgp.message import Message

    nb, neg = c13.session()
    out = []
    for t, body, src in c13.corpus():
        if t != 2:
            continue
        try:
            m = Message.unpack(2, memoryview(body), neg)
        except Exception:  # noqa
            continue
        if getattr(m, 'IS_EOR', False):
            continue
        out.append((src, body, m.data))
    return out


def unpack_one(nlri, data):
    from exabgp.bgp.message.update.nlri import NLRI
    from exabgp.bgp.message.action import Action

    nb, neg = c13.session()
    n2, left = NLRI.unpack_nlri(nlri.afi, nlri.safi, memoryview(bytes(data)), Action.ANNOUNCE, False, neg)
    return n2, bytes(left)


def nlri_roundtrip(nlri, src):
    nb, neg = c13.session()
    inp = {'source': src, 'family': f'{nlri.afi} {nlri.safi}', 'nlri': str(nlri)[:200]}
    try:
        b = bytes(nlri.pack_nlri(neg))
    except Exception as e:  # noqa
        return {'what': f'a decoded NLRI cannot be re-encoded: {type(e).__name__}: {str(e)[:100]}', 'input': inp}
    inp['bytes'] = b.hex()
    try:
        n2, left = unpack_one(nlri, b)
    except Exception as e:  # noqa
        return {'what': f"ExaBGP's own encoding of an NLRI does not decode: {type(e).__name__}: {str(e)[:100]}", 'input': inp}
    if left:
        return {'what': f'decoding the encoding of one NLRI leaves {len(left)} bytes over', 'input': inp}
    try:
        if not (n2 == nlri):
            return {'what': f'decode(encode(nlri)) != nlri: {str(n2)[:120]}', 'input': inp}
        if hash(n2) != hash(nlri):
            return {'what': 'decode(encode(nlri)) == nlri but the hashes differ', 'input': inp}
        if n2.index() != nlri.index():
            return {'what': 'decode(encode(nlri)) == nlri but the indexes differ', 'input': inp}
        b2 = bytes(n2.pack_nlri(neg))
        if b2 != b:
            return {'what': f're-encoding a decoded NLRI gives other bytes: {b2.hex()}', 'input': inp}
        if str(n2) != str(nlri) or n2.json() != nlri.json():
            return {'what': 'the renderings of the same bytes decoded twice differ', 'input': inp}
    except Exception as e:  # noqa
        return {'what': f'comparing / rendering a decoded NLRI raised {type(e).__name__}: {str(e)[:100]}', 'input': inp}
    return None


_ibgp = {}


def ibgp_session():
    """all families, iBGP, 4-byte AS: LOCAL_PREF is sent, nothing is converted"""
    from . import harness as H

    if 'neg' not in _ibgp:
        nb = H.neighbor(local_as=65000, peer_as=65000, families='all;', capability='aigp enable;')
        fams = sorted(nb.families())
        caps = H.std_caps(65000, families=[(int(a), int(s)) for a, s in fams])
        caps.append(H.cap(26, b''))  # AIGP
        neg, _, _ = H.negotiated(nb, H.peer_open_bytes(65000, 180, '9.9.9.9', caps))
        _ibgp['neg'] = neg
    return _ibgp['neg']


def attribute_roundtrip(attrs, src):
    """the attribute collection of one UPDATE: pack -> unpack -> every attribute equal and rendered alike; pack again ->
    the same bytes (pack adds the mandatory defaults once: the second encoding is the fixed point)"""
    from exabgp.bgp.message.update.attribute.collection import AttributeCollection

    neg = ibgp_session()
    inp = {'source': src, 'attributes': str(attrs)[:200]}
    try:
        b = bytes(attrs.pack_attribute(neg))
    except Exception as e:  # noqa
        return {'what': f'decoded attributes cannot be re-encoded: {type(e).__name__}: {str(e)[:100]}', 'input': inp}
    inp['bytes'] = b.hex()[:400]
    try:
        a2 = AttributeCollection.unpack(memoryview(b), neg)
    except Exception as e:  # noqa
        return {'what': f"ExaBGP's own encoding of the attributes does not decode: {type(e).__name__}: {str(e)[:100]}", 'input': inp}
    try:
        skip = {14, 15, 3}  # MP_REACH / MP_UNREACH are rebuilt by the NLRI path; NEXT_HOP is emitted per family
        keys1 = {k for k in attrs if k < 0xFF00 and k not in skip}
        keys2 = {k for k in a2 if k < 0xFF00 and k not in skip}
        if not keys1 <= keys2 or keys2 - keys1 - {1, 2, 5}:
            return {'what': f'attribute types change in a round trip: {sorted(keys1)} -> {sorted(keys2)} (only the defaults ORIGIN, AS_PATH, LOCAL_PREF may be added)', 'input': inp}
        for k in sorted(keys1):
            if not (attrs[k] == a2[k]):
                return {'what': f'attribute {k}: decode(encode(x)) != x ({str(attrs[k])[:60]} -> {str(a2[k])[:60]})', 'input': inp}
            if str(attrs[k]) != str(a2[k]):
                return {'what': f'attribute {k}: renderings of the same value differ', 'input': inp}
        b2 = bytes(a2.pack_attribute(neg))
        if b2 != b:
            return {'what': 're-encoding decoded attributes gives other bytes', 'input': inp, 'again': b2.hex()[:400]}
    except Exception as e:  # noqa
        return {'what': f'comparing decoded attributes raised {type(e).__name__}: {str(e)[:100]}', 'input': inp}
    return None


@bounded('C15', 'corpus-roundtrip')
def corpus_roundtrip(tier, seed):
    fails, evals, samples, fams = [], 0, [], set()
    seen = set()
    for src, body, data in decoded_updates():
        for n in [r.nlri for r in data.announces] + list(data.withdraws):
            key = (int(n.afi), int(n.safi), bytes(n.index()))
            if key in seen:
                continue
            seen.add(key)
            fams.add(f'{n.afi} {n.safi}')
            evals += 1
            f = nlri_roundtrip(n, src)
            if f:
                fails.append(f)
            if len(samples) < 3:
                samples.append({'source': src, 'nlri': str(n)[:100]})
        evals += 1
        f = attribute_roundtrip(data.attributes, src)
        if f:
            fails.append(f)
    return {'evaluations': evals, 'distinct_nontrivial': len(seen), 'bound': f'every distinct NLRI ({len(seen)}) and every attribute collection of the UPDATEs recorded under /repo/qa that decode on an all-families session; families met: {sorted(fams)}', 'rule': 'one case = one NLRI (distinct by family + index) or one attribute collection', 'samples': samples, 'failures': fails}


@replayer('C15', 'corpus-roundtrip')
def _replay(f):
    for src, body, data in decoded_updates():
        if src != f['input']['source']:
            continue
        if 'nlri' in f['input']:
            for n in [r.nlri for r in data.announces] + list(data.withdraws):
                if str(n)[:200] == f['input']['nlri'] and nlri_roundtrip(n, src) is not None:
                    return False
        elif attribute_roundtrip(data.attributes, src) is not None:
            return False
    return True


def key_of(n):
    """(family, path id, prefix, rd) for the prefix-like families, None for the others"""
    from exabgp.bgp.message.update.nlri.inet import INET

    if not isinstance(n, INET):
        return None
    rd = getattr(n, 'rd', None)
    return (int(n.afi), int(n.safi), bytes(n.path_info.pack_path()) if n.path_info is not None else b'', bytes(n.cidr.pack_nlri()), bytes(rd.pack_rd()) if rd is not None else b'')


def variants(n, rnd, count):
    """NLRIs decoded from byte-level variants of the encoding of n (one byte changed)"""
    nb, neg = c13.session()
    b = bytes(n.pack_nlri(neg))
    out = []
    for _ in range(count):
        if not b:
            break
        i = rnd.randrange(len(b))
        v = b[:i] + bytes([b[i] ^ (1 << rnd.randrange(8))]) + b[i + 1 :]
        try:
            n2, left = unpack_one(n, v)
        except Exception:  # noqa
            continue
        if left or n2 is None or type(n2).__name__ == 'NLRI':
            continue
        out.append((v, n2))
    return out


def pair_failure(a, b, ba, bb, src):
    inp = {'source': src, 'family': f'{a.afi} {a.safi}', 'a': ba.hex(), 'b': bb.hex(), 'class': type(a).__name__}
    try:
        if a == b:
            if hash(a) != hash(b):
                return {'what': 'two routes compare equal and hash differently', 'input': inp}
            if a.index() != b.index():
                return {'what': 'two routes compare equal and have different indexes', 'input': inp}
        ka, kb = key_of(a), key_of(b)
        if ka is not None and kb is not None and ka != kb and a.index() == b.index():
            return {'what': f'two routes which differ in family, path identifier, prefix or RD share one index: {ka} / {kb}', 'input': inp}
    except Exception as e:  # noqa
        return {'what': f'comparing two decoded routes raised {type(e).__name__}: {str(e)[:100]}', 'input': inp}
    return None


@bounded('C15', 'equality-hash-index')
def equality_hash_index(tier, seed):
    rnd = random.Random(seed)
    nb, neg = c13.session()
    fails, evals, seen = [], 0, set()
    per = 24 if tier == 'thorough' else 8
    for src, body, data in decoded_updates():
        for n in [r.nlri for r in data.announces] + list(data.withdraws):
            key = (int(n.afi), int(n.safi), bytes(n.index()))
            if key in seen:
                continue
            seen.add(key)
            try:
                b = bytes(n.pack_nlri(neg))
            except Exception:  # noqa
                continue
            vs = [(b, n)] + variants(n, rnd, per)
            for i in range(len(vs)):
                for j in range(i + 1, len(vs)):
                    evals += 1
                    f = pair_failure(vs[i][1], vs[j][1], vs[i][0], vs[j][0], src)
                    if f and not any(x['what'] == f['what'] and x['input']['class'] == f['input']['class'] for x in fails):
                        fails.append(f)
    return {'evaluations': evals, 'distinct_nontrivial': len(seen), 'bound': f'every distinct NLRI of the QA corpus with {per} one-bit variants of its encoding that still decode, all pairs within one NLRI\'s variants; one failure reported per (class, kind)', 'rule': 'one case = one pair of decoded NLRIs', 'samples': [{'note': 'pairs of one-bit variants'}], 'failures': fails}


@replayer('C15', 'equality-hash-index')
def _replay_pairs(f):
    from exabgp.bgp.message.update.nlri import NLRI
    from exabgp.bgp.message.action import Action
    from exabgp.protocol.family import AFI, SAFI

    nb, neg = c13.session()
    fam = f['input']['family'].split(' ', 1)
    for a_, s_ in neg.families:
        if f'{a_} {s_}' == f['input']['family']:
            ba, bb = bytes.fromhex(f['input']['a']), bytes.fromhex(f['input']['b'])
            a, _ = NLRI.unpack_nlri(a_, s_, memoryview(ba), Action.ANNOUNCE, False, neg)
            b, _ = NLRI.unpack_nlri(a_, s_, memoryview(bb), Action.ANNOUNCE, False, neg)
            return pair_failure(a, b, ba, bb, f['input']['source']) is None
    return True


# hand-built NLRI of the route types the QA corpus does not hold (bytes written from RFC 7432 7.1 / 7.4, draft-mpmz-bess-mup-safi
# 3.1.2 / 3.1.4, RFC 6514 4.6): pairs which differ in one field of the wire form
_RD = bytes.fromhex('0000fde800000001')
_ESI_A, _ESI_B, _ETAG = bytes(10), bytes.fromhex('00112233445566778899'), bytes(4)


def _evpn(code, payload):
    return bytes([code, len(payload)]) + payload


def _mup(code, payload):
    import struct

    return struct.pack('!BHB', 1, code, len(payload)) + payload


HAND_PAIRS = [
    ('evpn-ead-esi', (25, 70), _evpn(1, _RD + _ESI_A + _ETAG + b'\x00\x00\x01'), (25, 70), _evpn(1, _RD + _ESI_B + _ETAG + b'\x00\x00\x01')),
    ('evpn-ead-label', (25, 70), _evpn(1, _RD + _ESI_A + _ETAG + b'\x00\x00\x01'), (25, 70), _evpn(1, _RD + _ESI_A + _ETAG + b'\x00\x01\x01')),
    ('evpn-es-esi', (25, 70), _evpn(4, _RD + _ESI_A + b'\x20' + bytes([1, 2, 3, 4])), (25, 70), _evpn(4, _RD + _ESI_B + b'\x20' + bytes([1, 2, 3, 4]))),
    ('evpn-mac-esi', (25, 70), _evpn(2, _RD + _ESI_A + _ETAG + b'\x30' + bytes.fromhex('001122334455') + b'\x00' + b'\x00\x00\x01'), (25, 70), _evpn(2, _RD + _ESI_B + _ETAG + b'\x30' + bytes.fromhex('001122334455') + b'\x00' + b'\x00\x00\x01')),
    ('mup-dsd-afi', (1, 85), _mup(2, _RD + bytes([1, 2, 3, 4])), (2, 85), _mup(2, _RD + bytes([1, 2, 3, 4]))),
    ('mup-t2st-endpoint-len', (1, 85), _mup(4, _RD + bytes([40, 1, 2, 3, 4]) + b'\x80'), (1, 85), _mup(4, _RD + bytes([33, 1, 2, 3, 4]) + b'\x80')),
    ('mup-t2st-teid-zero', (1, 85), _mup(4, _RD + bytes([32, 1, 2, 3, 4])), (1, 85), _mup(4, _RD + bytes([40, 1, 2, 3, 4]) + b'\x00')),
]


def hand_pair_case(name, fa, ba, fb, bb):
    from exabgp.bgp.message.update.nlri import NLRI
    from exabgp.bgp.message.action import Action
    from exabgp.protocol.family import AFI, SAFI

    nb, neg = c13.session()
    inp = {'source': 'hand-built:' + name, 'family': f'{fa} / {fb}', 'a': ba.hex(), 'b': bb.hex()}
    try:
        a, la = NLRI.unpack_nlri(AFI.from_int(fa[0]), SAFI.from_int(fa[1]), memoryview(ba), Action.ANNOUNCE, False, neg)
        b, lb = NLRI.unpack_nlri(AFI.from_int(fb[0]), SAFI.from_int(fb[1]), memoryview(bb), Action.ANNOUNCE, False, neg)
    except Exception as e:  # noqa
        return {'what': f'a hand-built NLRI is refused by the decoder: {type(e).__name__}: {str(e)[:100]}', 'input': inp, 'harness': True}
    inp['class'] = type(a).__name__
    if a == b and (hash(a) != hash(b) or a.index() != b.index()):
        return {'what': 'two routes compare equal and have different indexes' if a.index() != b.index() else 'two routes compare equal and hash differently', 'input': inp}
    return None


@bounded('C15', 'hand-built-pairs')
def hand_built_pairs(tier, seed):
    """PROPERTY: equal routes have equal indexes and hashes.  Route types the QA corpus does not hold, two NLRI which differ
    in ONE field of the wire form (ESI, label, endpoint length, TEID presence, the AFI they arrived under)."""
    fails = []
    for case in HAND_PAIRS:
        f = hand_pair_case(*case)
        if f:
            fails.append(f)
    # an unknown TUNNEL_ENCAP sub-TLV: two decodes of the same bytes are equal, print alike, index alike
    fails += [f for f in [decode_twice_case()] if f]
    return {'evaluations': len(HAND_PAIRS) + 1, 'distinct_nontrivial': len(HAND_PAIRS) + 1, 'bound': f'{len(HAND_PAIRS)} pairs of hand-built EVPN type 1 / 2 / 4 and MUP DSD / T2ST NLRI differing in one field; one TUNNEL_ENCAP attribute with an unregistered sub-TLV decoded twice', 'rule': 'one case = one pair', 'samples': [{'pair': 'mup-t2st-endpoint-len'}], 'failures': fails}


def decode_twice_case():
    from exabgp.bgp.message.update.attribute import AttributeCollection

    nb, neg = c13.session()
    tun = bytes.fromhex('000f0004') + bytes([77, 2, 1, 2])
    full = bytes.fromhex('400101004002004003040a000001') + bytes([0xC0, 23, len(tun)]) + tun
    inp = {'source': 'hand-built:tunnel-unknown-subtlv', 'attributes': full.hex(), 'class': 'TunnelEncap'}
    try:
        AttributeCollection.cached = None
        c1 = AttributeCollection.unpack(full, neg)
        AttributeCollection.cached = None
        c2 = AttributeCollection.unpack(full, neg)
        s1, s2 = str(c1), str(c2)
    except Exception as e:  # noqa
        return {'what': f'decoding / rendering raised {type(e).__name__}: {str(e)[:100]}', 'input': inp}
    if s1 != s2:
        return {'what': 'the text of two decodes of the same bytes differs (it is not a function of the bytes)', 'input': inp, 'observed': [s1[-80:], s2[-80:]]}
    if not (c1 == c2 and c1.index() == c2.index()):
        return {'what': 'two decodes of the same attribute bytes are not equal / do not share an index', 'input': inp}
    return None


@replayer('C15', 'hand-built-pairs')
def _replay_hand(f):
    src = f['input']['source'].split(':', 1)[1]
    if src == 'tunnel-unknown-subtlv':
        return decode_twice_case() is None
    for case in HAND_PAIRS:
        if case[0] == src:
            return hand_pair_case(*case) is None
    return True


@region('C15-key-only-equality')
def key_only_region(failure):
    """recorded, by its root cause: __eq__ / __hash__ of EVPN Ethernet A-D (type 1) and Ethernet Segment (type 4) routes
    compare the route KEY only (RD and tag / RD and address; the code says "esi and label must not be part of the
    comparaison"), and MUP Direct Segment Discovery ignores the AFI the NLRI arrived under, while index() is family + every
    octet.  Only the kind 'equal with different indexes', only these three classes."""
    return failure.get('what') == 'two routes compare equal and have different indexes' and failure.get('input', {}).get('class') in ('EthernetAD', 'EthernetSegment', 'DirectSegmentDiscoveryRoute')


@region('C15-mvpn-eq-narrower-than-index')
def mvpn_eq_region(failure):
    """recorded defect, by its root cause: __eq__ of the MVPN route types 5, 6 and 7 (SourceAD, SharedJoin, SourceJoin)
    compares RD, source and group only, while index() is the whole NLRI: two routes which differ in a byte __eq__ does
    not look at (the source AS of a join; the low bits of a non-canonical length octet) compare equal and have
    different indexes.  Only this kind, only these three classes; everything else stays a violation."""
    return failure.get('what') == 'two routes compare equal and have different indexes' and failure.get('input', {}).get('class') in ('SourceAD', 'SharedJoin', 'SourceJoin')


def _patched(obj, name, replacement, probe):
    real = obj.__dict__[name]
    setattr(obj, name, replacement)
    try:
        return bool(probe())
    finally:
        setattr(obj, name, real)


def _first(cls_name):
    for src, body, data in decoded_updates():
        for n in [r.nlri for r in data.announces] + list(data.withdraws):
            if type(n).__name__ == cls_name:
                return n, src
    return None, None


@harness_canary('C15', 'label stack decoded with its first label only')
def _hc_label():
    from exabgp.bgp.message.update.nlri.label import Label

    n, src = _first('Label')
    if n is None:
        return False
    real = Label.__dict__['pack_nlri'] if 'pack_nlri' in Label.__dict__ else None
    from exabgp.bgp.message.update.nlri.label import LabelBase

    realf = LabelBase.pack_nlri
    return nlri_roundtrip(n, src) is None and _patched(LabelBase, 'pack_nlri', lambda self, negotiated: bytes(realf(self, negotiated))[:-1] + b'\x00', lambda: nlri_roundtrip(n, src))


@harness_canary('C15', 'hash of a prefix route ignores the prefix')
def _hc_hash():
    from exabgp.bgp.message.update.nlri.inet import INETBase

    rnd = random.Random(5)
    n, src = _first('INET')
    if n is None:
        return False

    def probe():
        nb, neg = c13.session()
        b = bytes(n.pack_nlri(neg))
        n2, _ = unpack_one(n, b)
        # equal objects must hash alike: make hash depend on object identity
        return pair_failure(n, n2, b, b, src)

    return probe() is None and _patched(INETBase, '__hash__', lambda self: id(self), probe)


def evpn_mac_family(rnd, n):
    """EVPN MAC/IP routes built by the project's own factory: one or two labels, with / without IP, varying ESI"""
    from exabgp.bgp.message.update.nlri.evpn.mac import MAC
    from exabgp.bgp.message.update.nlri.qualifier import ESI, EthernetTag, Labels, RouteDistinguisher
    from exabgp.bgp.message.update.nlri.qualifier import MAC as MACQUAL
    from exabgp.protocol.ip import IP

    out = []
    for _ in range(n):
        rd = RouteDistinguisher.make_from_elements('1.1.1.1', rnd.choice([1, 2]))
        etag = EthernetTag.make_etag(rnd.choice([0, 7]))
        mac = MACQUAL(rnd.choice(['aa:bb:cc:dd:ee:ff', 'aa:bb:cc:dd:ee:00']))
        ip = rnd.choice([None, IP.from_string('10.0.0.1'), IP.from_string('2001:db8::1')])
        labels = Labels.make_labels([rnd.choice([100, 200]) for _ in range(rnd.choice([1, 2]))])
        esi = rnd.choice([ESI.make_default(), ESI(bytes([0, 1, 2, 3, 4, 5, 6, 7, 8, rnd.choice([9, 10])]))])
        out.append(MAC.make_mac(rd, esi, etag, mac, 48, labels, ip))
    return out


@bounded('C15', 'factory-pairs')
def factory_pairs(tier, seed):
    """routes built by factory methods (values the corpus does not hold: two-label EVPN MAC routes, varying ESI): all
    pairs: equal => same hash and index; and each one round trips"""
    rnd = random.Random(seed)
    nb, neg = c13.session()
    routes = evpn_mac_family(rnd, 60 if tier == 'thorough' else 30)
    fails, evals = [], 0
    for r in routes:
        evals += 1
        f = nlri_roundtrip(r, 'factory MAC.make_mac')
        if f and not any(x['what'] == f['what'] for x in fails):
            fails.append(f)
    for i in range(len(routes)):
        for j in range(i + 1, len(routes)):
            evals += 1
            a, b = routes[i], routes[j]
            f = pair_failure(a, b, bytes(a.pack_nlri(neg)), bytes(b.pack_nlri(neg)), 'factory MAC.make_mac')
            if f and not any(x['what'] == f['what'] for x in fails):
                fails.append(f)
    return {'evaluations': evals, 'distinct_nontrivial': len(routes), 'bound': f'{len(routes)} EVPN MAC/IP routes from MAC.make_mac (RD x ethernet tag x MAC x no/IPv4/IPv6 address x one or two labels x two ESIs), each round-tripped, all pairs compared', 'rule': 'one case = one route or one pair', 'samples': [{'note': 'MAC.make_mac'}], 'failures': fails}


@replayer('C15', 'factory-pairs')
def _replay_factory(f):
    r = factory_pairs('quick', 1)
    return not any(x['what'] == f['what'] for x in r['failures'])


@bounded('C15', 'aspath-roundtrip')
def aspath_roundtrip(tier, seed):
    """small-scope exhaustive: every AS path of up to 3 (thorough: 3, longer segments) segments over 2- and 4-byte AS
    numbers, encoded for a 4-byte and for a 2-byte session by the real ASPath.pack_attribute and decoded back by the real
    AttributeCollection.unpack (which merges AS4_PATH, RFC 6793 4.2.3): the same path"""
    import itertools
    from . import harness as H
    from exabgp.bgp.message.update.attribute.aspath import ASPath, SEQUENCE, SET
    from exabgp.bgp.message.update.attribute.collection import AttributeCollection
    from exabgp.bgp.message.update.attribute import Attribute
    from exabgp.bgp.message.open.asn import ASN

    pool = [1, 65535, 65536, 4200000001]
    segs = []
    for typ in (SEQUENCE, SET):
        for ln in (1, 2):
            for vals in itertools.product(pool, repeat=ln):
                if typ is SET and list(vals) != sorted(set(vals)):
                    continue
                segs.append((typ, vals))
    fails, evals = [], 0
    sessions = {k: H.session(k)[1] for k in ('ibgp4', 'ibgp2')}
    maxseg = 3 if tier == 'thorough' else 2
    for n in range(1, maxseg + 1):
        combos = itertools.product(segs, repeat=n)
        if n == 3:
            combos = itertools.islice(combos, 0, None, 7)
        for combo in combos:
            # two adjacent AS_SEQUENCE segments are one sequence written in two pieces (RFC 4271 5.1.2): the RFC 6793 merge
            # may legitimately return them joined, so only canonical paths are compared segment by segment
            if any(combo[i][0] is SEQUENCE and combo[i + 1][0] is SEQUENCE for i in range(len(combo) - 1)):
                continue
            want = [(t.__name__, [int(v) for v in vals]) for t, vals in combo]
            path = ASPath.make_aspath([t([ASN(v) for v in vals]) for t, vals in combo], asn4=True)
            for kind, neg in sessions.items():
                evals += 1
                inp = {'session': kind, 'path': want}
                try:
                    b = bytes(path.pack_attribute(neg))
                    a2 = AttributeCollection.unpack(memoryview(b), neg)
                    got = [(type(s).__name__, [int(v) for v in s]) for s in a2[Attribute.CODE.AS_PATH].aspath]
                except Exception as e:  # noqa
                    fails.append({'what': f'AS path round trip raised {type(e).__name__}: {str(e)[:100]}', 'input': inp})
                    continue
                if got != want and len(fails) < 5:
                    fails.append({'what': f'an AS path does not survive encode/decode on a {kind} session: decoded {got}', 'input': inp})
    # segments at and beyond the 255 AS numbers one segment can hold (RFC 4271 4.3: one octet of count): a longer one is
    # sent as consecutive segments of the same type; read back, the same AS numbers in the same order, none lost
    for typ in (SEQUENCE, SET):
        for ln in (254, 255, 256, 257, 510, 511, 512):
            for big_at in (None, 0, 254, 255, 256, ln - 1):
                vals = [((i * 7) % 64000) + 1 for i in range(ln)]
                if big_at is not None and big_at < ln:
                    vals[big_at] = 4200000001
                path = ASPath.make_aspath([typ([ASN(v) for v in vals])], asn4=True)
                for kind, neg in sessions.items():
                    evals += 1
                    inp = {'session': kind, 'path': [[typ.__name__, f'{ln} AS numbers, 4-byte AS at {big_at}']], 'long': [typ.__name__, ln, big_at]}
                    try:
                        b = bytes(path.pack_attribute(neg))
                        a2 = AttributeCollection.unpack(memoryview(b), neg)
                        segs2 = a2[Attribute.CODE.AS_PATH].aspath
                        got = [int(v) for s_ in segs2 for v in s_]
                        types = {type(s_).__name__ for s_ in segs2}
                    except Exception as e:  # noqa
                        fails.append({'what': f'AS path round trip raised {type(e).__name__}: {str(e)[:100]}', 'input': inp})
                        continue
                    if (got != vals or types != {typ.__name__}) and len(fails) < 5:
                        lost = [v for v in vals if v not in got][:3]
                        fails.append({'what': f'a {typ.__name__} of {ln} AS numbers does not survive encode/decode on a {kind} session: {len(got)} come back' + (f', lost {lost}' if lost else ''), 'input': inp})
    return {'evaluations': evals, 'distinct_nontrivial': evals, 'bound': f'all AS paths of 1..{maxseg} segments (SEQUENCE / SET, 1-2 AS numbers from {pool}; 3-segment paths sampled 1 in 7) x 4-byte and 2-byte sessions; one segment of 254..257 and 510..512 AS numbers with a 4-byte AS at the split points', 'rule': 'one case = (path, session)', 'samples': [{'path': [['SEQUENCE', [65536, 1]], ['SET', [1]]]}], 'failures': fails}


@replayer('C15', 'aspath-roundtrip')
def _replay_aspath(f):
    r = aspath_roundtrip('quick', 1)
    return not any(x['input'] == f['input'] for x in r['failures'])


@bounded('C15', 'cidr-size-table')
def cidr_size_table(tier, seed):
    """COMPLETE for its domain: CIDR.size is a table lookup; the contracts on CIDR.decode / pack_nlri use ceil(mask / 8)
    for 0..128 and 0 outside: checked here against the real function for every mask in -1..1024"""
    from exabgp.bgp.message.update.nlri.cidr import CIDR

    fails = []
    for m in range(-1, 1025):
        want = (m + 7) // 8 if 0 <= m <= 128 else 0
        if CIDR.size(m) != want:
            fails.append({'what': f'CIDR.size({m}) is {CIDR.size(m)}, the contracts assume {want}', 'input': {'mask': m}})
    return {'evaluations': 1026, 'distinct_nontrivial': 1026, 'bound': 'every mask in -1..1024 (the table has 129 entries)', 'rule': 'one case = one mask', 'samples': [{'mask': 25}], 'failures': fails[:5]}


@replayer('C15', 'cidr-size-table')
def _replay_size(f):
    from exabgp.bgp.message.update.nlri.cidr import CIDR

    m = f['input']['mask']
    return CIDR.size(m) == ((m + 7) // 8 if 0 <= m <= 128 else 0)


# ---------------------------------------------------------------------------------------------------------------------
# canonical bytes at the boundaries the QA corpus does not hold: label stacks (RFC 3107 withdraw label, next-hop
# convention, one and two labels, with and without a route distinguisher) and RTC prefixes of every legal length
# (RFC 4684 4: 0, or 32..96 bits), each followed by a second NLRI: decode both, the first re-encodes to its own bytes
# and the second starts where the first ends.
def _wire_case(afi, safi, action, first, second, what):
    from exabgp.bgp.message.update.nlri import NLRI
    from exabgp.bgp.message.action import Action

    nb, neg = c13.session()
    inp = {'family': f'{int(afi)}/{int(safi)}', 'action': action, 'first': first.hex(), 'second': second.hex(), 'shape': what}
    act = Action.WITHDRAW if action == 'withdraw' else Action.ANNOUNCE
    try:
        n1, left = NLRI.unpack_nlri(afi, safi, memoryview(first + second), act, False, neg)
    except Exception as e:  # noqa
        return {'what': f'canonical NLRI bytes are not decoded ({what}): {type(e).__name__}: {str(e)[:100]}', 'input': inp}
    if bytes(left) != second:
        return {'what': f'the NLRI after this one does not start where this one ends ({what}): {len(left)} bytes left, {len(second)} expected', 'input': inp, 'decoded': str(n1)[:100]}
    try:
        b = bytes(n1.pack_nlri(neg))
    except Exception as e:  # noqa
        return {'what': f'a decoded NLRI cannot be re-encoded ({what}): {type(e).__name__}: {str(e)[:100]}', 'input': inp}
    if b != first:
        return {'what': f're-encoding what was decoded from canonical bytes gives other bytes ({what}): {b.hex()}', 'input': inp}
    try:
        n2, _ = NLRI.unpack_nlri(afi, safi, memoryview(first), act, False, neg)
        if str(n1) != str(n2) or n1.json() != n2.json() or not (n1 == n2) or hash(n1) != hash(n2) or n1.index() != n2.index():
            return {'what': f'the same bytes decoded twice differ in rendering, equality, hash or index ({what})', 'input': inp}
    except Exception as e:  # noqa
        return {'what': f'decoding the first NLRI alone fails although it decodes in front of another ({what}): {type(e).__name__}: {str(e)[:100]}', 'input': inp}
    return None


def _wire_cases():
    from exabgp.protocol.family import AFI, SAFI

    out = []
    rd = bytes.fromhex('0000fde800000001')
    pfx = bytes([10, 0, 0])
    stacks = [
        ('withdraw label 0x800000', 'withdraw', [bytes.fromhex('800000')]),
        ('next-hop convention 0x000000', 'announce', [bytes.fromhex('000000')]),
        ('one label, bottom of stack', 'announce', [bytes.fromhex('000641')]),
        ('one label, bottom of stack, withdrawn', 'withdraw', [bytes.fromhex('000641')]),
        ('two labels', 'announce', [bytes.fromhex('000640'), bytes.fromhex('000651')]),
        ('three labels', 'announce', [bytes.fromhex('000640'), bytes.fromhex('000650'), bytes.fromhex('000661')]),
        ('label 1048575', 'announce', [bytes.fromhex('fffff1')]),
    ]
    for what, action, labels in stacks:
        lab = b''.join(labels)
        first = bytes([24 * len(labels) + 24]) + lab + pfx
        out.append((AFI.ipv4, SAFI.nlri_mpls, action, first, bytes([48]) + bytes.fromhex('000651') + bytes([10, 1, 0]), 'labelled unicast, ' + what))
        first = bytes([24 * len(labels) + 64 + 24]) + lab + rd + pfx
        out.append((AFI.ipv4, SAFI.mpls_vpn, action, first, bytes([112]) + bytes.fromhex('000651') + rd + bytes([10, 1, 0]), 'mpls-vpn, ' + what))
    full = bytes([96]) + bytes.fromhex('0000fde9') + bytes.fromhex('0002fde900000001')
    for bits in [0] + list(range(32, 97)):
        body = (bytes.fromhex('0000fde8') + bytes.fromhex('0002fde800000064'))[: (bits + 7) // 8]
        if bits % 8:
            body = body[:-1] + bytes([body[-1] & (0xFF << (8 - bits % 8)) & 0xFF])
        out.append((AFI.ipv4, SAFI.rtc, 'announce', bytes([bits]) + body, full, f'RTC prefix of {bits} bits'))
    return out


@bounded('C15', 'boundary-wire-forms')
def boundary_wire_forms(tier, seed):
    fails, evals = [], 0
    for afi, safi, action, first, second, what in _wire_cases():
        evals += 1
        f = _wire_case(afi, safi, action, first, second, what)
        if f:
            fails.append(f)
    return {'evaluations': evals, 'distinct_nontrivial': evals, 'exhaustive': True, 'bound': '7 label stack shapes x (labelled unicast, mpls-vpn) and every legal RTC prefix length (0, 32..96), each followed by a second NLRI of the family: framing, byte-identical re-encoding, same rendering / equality / hash / index when decoded twice', 'rule': 'one case = (family, first NLRI bytes, following NLRI)', 'samples': [{'family': '1/4', 'first': '308000000a0000'}], 'failures': fails}


@replayer('C15', 'boundary-wire-forms')
def _replay_wire(f):
    from exabgp.protocol.family import AFI, SAFI

    i = f['input']
    a, s = i['family'].split('/')
    return _wire_case(AFI.from_int(int(a)), SAFI.from_int(int(s)), i['action'], bytes.fromhex(i['first']), bytes.fromhex(i['second']), i['shape']) is None


@region('C15-rtc-prefix-lengths')
def rtc_prefix_region(failure):
    """recorded defect: RTC NLRI whose prefix length is 32..95 bits (RFC 4684 4 allows any of them; ExaBGP documents that
    only the wildcard and the full 96-bit form are implemented, but its decoder accepts the others and reads 13 octets
    regardless).  Only that shape."""
    i = failure.get('input', {})
    return i.get('family') == '1/132' and i.get('shape', '').startswith('RTC prefix of ') and 32 <= int(i['shape'].split()[3]) <= 95


# ---------------------------------------------------------------------------------------------------------------------
# objects BUILT by the text parser (the first half of the property: "decoding what ExaBGP encoded gives an equal object"):
# one valid command per registered announce family and NLRI type, plus attribute keywords, through the real API entry
# points; and an account of which registered families / attribute codes neither the corpus nor these commands exercise
TEXT_EXTRA = [
    'announce route 10.0.0.0/24 next-hop 192.0.2.1 aigp 5 atomic-aggregate originator-id 1.2.3.4 cluster-list [ 1.2.3.4 5.6.7.8 ] aggregator ( 65000:1.2.3.4 )',
    'announce route 10.0.0.0/24 next-hop 192.0.2.1 community [ 65000:1 no-export ] large-community [ 1:2:3 4294967295:0:1 ] extended-community [ target:65000:1 origin:1.2.3.4:5 ]',
    'announce route 10.0.0.0/24 next-hop 192.0.2.1 as-path [ 65000 4200000001 ] local-preference 7 med 9 origin egp',
    'announce route 10.0.0.0/24 next-hop 192.0.2.1 bgp-prefix-sid [ 300, [ ( 800000,4096 ) ] ] attribute [ 0x99 0xe0 0x0102 ]',  # 0xe0: an unrecognised optional transitive attribute comes back with the Partial bit (RFC 4271 9)
    'announce route 2001:db8::/32 next-hop 2001:db8::1 bgp-prefix-sid-srv6 ( l3-service 2001:db8:1:1:: 0x48 [ 64,24,16,0,0,0 ] )',
    'announce ipv6 multicast ff0e::/64 next-hop 2001:db8::1',
    'announce ipv6 sr-policy distinguisher 1 color 200 endpoint 2001:db8::9 next-hop 2001:db8::1 preference 100 segment-list weight 1 segment type-b srv6 fc00::1',
    'announce flow route { rd 65000:1; match { source 2001:db8::/32; next-header =tcp; } then { discard; } }',
    'announce ipv6 flow source-ipv6 2001:db8::/32 next-header =tcp destination-port =80 discard',
    'announce flow route { rd 65000:1; match { destination 10.0.0.0/24; port [ >1000&<2000 =3000 ]; tcp-flags [ syn ]; } then { redirect 65000:1; } }',
    'announce flow route { match { source 2001:db8::/32; flow-label =5; fragment [ is-fragment ]; } then { rate-limit 9600; mark 10; } }',
]


def text_built():
    from exabgp.reactor.api import API
    from . import c18

    out = []
    for text in c18.HEADS + TEXT_EXTRA:
        kind = text.split()[1]
        body = text.split(' ', 1)[1]
        api = API(None)
        try:
            if kind == 'attributes':
                routes = api.api_attributes(body, [], 'announce')
            else:
                routes = getattr(api, c18.DIRECT[kind])(body, 'announce')
        except Exception as e:  # noqa
            routes = []
        for r in routes or []:
            out.append((text, r))
    return out


def registry_account(nlris, attr_codes):
    """(registered NLRI families never exercised, registered attribute codes never exercised)"""
    from exabgp.bgp.message.update.attribute import Attribute
    from exabgp.bgp.message.update.nlri.nlri import NLRI

    reg_f = sorted(NLRI.registered_nlri)
    seen_f = {f'{n.afi}/{n.safi}' for n in nlris}
    reg_a = sorted({int(k[0] if isinstance(k, tuple) else k) for k in Attribute.registered_attributes})
    return [f for f in reg_f if f not in seen_f], [a for a in reg_a if a not in attr_codes and a not in (14, 15)]


@bounded('C15', 'text-built-roundtrip')
def text_built_roundtrip(tier, seed):
    fails, evals, seen = [], 0, set()
    built = text_built()
    texts = {t for t, _r in built}
    nlris, codes = [], set()
    for src, body, data in decoded_updates():
        nlris += [r.nlri for r in data.announces] + list(data.withdraws)
        codes |= {int(k) for k in data.attributes}
    from . import c18

    for text in c18.HEADS + TEXT_EXTRA:
        evals += 1
        if text not in texts:
            fails.append({'what': 'a valid definition of a registered family was not built into a route by the parser', 'input': {'source': text}})
    for text, r in built:
        nlris.append(r.nlri)
        codes |= {int(k) for k in r.attributes if int(k) < 0xFF00}
        key = (int(r.nlri.afi), int(r.nlri.safi), bytes(r.nlri.index()))
        if key not in seen:
            seen.add(key)
            evals += 1
            f = nlri_roundtrip(r.nlri, text)
            if f:
                fails.append(f)
        evals += 1
        f = attribute_roundtrip(r.attributes, text)
        if f:
            fails.append(f)
    miss_f, miss_a = registry_account(nlris, codes)
    return {'evaluations': evals, 'distinct_nontrivial': evals, 'bound': f'{len(c18.HEADS) + len(TEXT_EXTRA)} valid definitions (one per registered announce family and NLRI type, plus the attribute keywords) built by the real parser, each NLRI and each attribute collection through encode -> decode -> equal / same hash / same index / same bytes again. Registry account over the corpus and these: registered NLRI families never exercised by either: {miss_f or "none"}; registered attribute codes never exercised: {miss_a or "none"} (14 / 15 are rebuilt by the NLRI path)', 'rule': 'one case = one NLRI or one attribute collection or one definition', 'samples': [{'source': c18.HEADS[0]}], 'failures': fails}


@bounded('C15', 'generated-shapes-roundtrip')
def shapes_roundtrip(tier, seed):
    """the generated UPDATE shapes shared with C03 / C13 (PMSI tunnel types, Prefix-SID TLVs, AGGREGATOR pairs, tunnel
    encapsulation, BGP-LS TLV sizes, IEEE floats ...): whatever decodes goes through the same two round trips"""
    from exabgp.bgp.message import Message

    nb, neg = c13.session()
    fails, evals, decoded, seen = [], 0, 0, set()
    for body, what in c13.update_shapes():
        try:
            m = Message.unpack(2, memoryview(body), neg)
            data = m.data
        except Exception:  # noqa
            continue  # refused shapes are C03's and C08's business
        if getattr(m, 'IS_EOR', False):
            continue
        decoded += 1
        for n in [r.nlri for r in data.announces] + list(data.withdraws):
            key = (int(n.afi), int(n.safi), bytes(n.index()))
            if key in seen:
                continue
            seen.add(key)
            evals += 1
            f = nlri_roundtrip(n, what)
            if f:
                fails.append(f)
        if any(int(k) >= 0xFF00 for k in data.attributes):
            continue  # carries a discard / treat-as-withdraw marker: not a value to round-trip
        evals += 1
        f = attribute_roundtrip(data.attributes, what)
        if f:
            f['input']['body'] = bytes(body).hex()[:600]
            fails.append(f)
    return {'evaluations': evals, 'distinct_nontrivial': evals, 'bound': f'the {decoded} generated UPDATE shapes of bounded/c13.update_shapes() which decode on the all-families session without an RFC 7606 marker: every NLRI and every attribute collection through encode -> decode -> equal, same bytes again', 'rule': 'one case = one NLRI or one attribute collection', 'samples': [{'shape': 'PMSI ingress replication, 4 octet identifier'}], 'failures': fails}


@replayer('C15', 'generated-shapes-roundtrip')
def _replay_shapes(f):
    from exabgp.bgp.message import Message

    nb, neg = c13.session()
    for body, what in c13.update_shapes():
        if what != f['input']['source']:
            continue
        try:
            data = Message.unpack(2, memoryview(body), neg).data
        except Exception:  # noqa
            continue
        for n in [r.nlri for r in data.announces] + list(data.withdraws):
            if nlri_roundtrip(n, what) is not None:
                return False
        if not any(int(k) >= 0xFF00 for k in data.attributes) and attribute_roundtrip(data.attributes, what) is not None:
            return False
    return True


@replayer('C15', 'text-built-roundtrip')
def _replay_text(f):
    src = f['input']['source']
    for text, r in text_built():
        if text == src and (nlri_roundtrip(r.nlri, text) is not None or attribute_roundtrip(r.attributes, text) is not None):
            return False
    return src in {t for t, _r in text_built()}
