"""bounded stand-in for C19: each message of a long mixed sequence over sessions with different negotiated parameters is
decoded in sequence (one process, shared class-level caches) and alone in a fresh interpreter; results must agree"""
import json
import os
import random
import subprocess
import sys
from concurrent.futures import ThreadPoolExecutor

from .registry import bounded, replayer
from . import pipeline as P
from spec import wire as W

ROOT = os.path.dirname(os.path.dirname(os.path.abspath(__file__)))
FRESH = """
import sys, json
sys.path.insert(0, %r)
from bounded import pipeline as P
from bounded.c19 import like_the_server
like_the_server()
kind, body = sys.argv[1], bytes.fromhex(sys.argv[2])
o = P.observe(kind, body)
print(json.dumps({'status': o.get('status'), 'code': o.get('code'), 'update': o.get('update'), 'marker': o.get('marker'), 'rib': o.get('rib')}, sort_keys=True))
""" % ROOT


def fresh(kind, body):
    env = dict(os.environ)
    env['PYTHONPATH'] = f'{os.environ.get("PYVC_REPO", "/repo")}/src:{ROOT}'
    env['exabgp_log_enable'] = 'false'
    p = subprocess.run([sys.executable, '-c', FRESH, kind, body.hex()], capture_output=True, text=True, env=env, timeout=120)
    if p.returncode != 0:
        return {'error': p.stderr[-300:]}
    return json.loads(p.stdout.strip().splitlines()[-1])


def like_the_server():
    """application/server.py copies exabgp.cache.attributes (default true) into Attribute.caching at start-up: the
    decode caches are ON in a running ExaBGP, and off by class default (which is all the unit tests see)"""
    from exabgp.bgp.message.update.attribute import Attribute
    from exabgp.environment import getenv

    Attribute.caching = getenv().cache.attributes


def in_sequence(seq):
    like_the_server()
    out = []
    for kind, body in seq:
        o = P.observe(kind, body)
        out.append(json.loads(json.dumps({'status': o.get('status'), 'code': o.get('code'), 'update': o.get('update'), 'marker': o.get('marker'), 'rib': o.get('rib')}, sort_keys=True)))
    return out


def aigp(metric):
    return W.attr(0x80, 26, bytes([1, 0, 11]) + metric.to_bytes(8, 'big'))


def build_sequence(rnd, n):
    seq = []
    blocks = []
    for _ in range(n):
        kind = rnd.choice(['ebgp4', 'ibgp2', 'ibgp4-aigp', 'ibgp4-noaigp'])
        if seq and rnd.random() < 0.35:
            # the block of the message just before, byte for byte (AttributeCollection.unpack remembers the last block
            # it decoded), on the same session or on another one
            attrs = last
            if rnd.random() < 0.6:
                kind = seq[-1][0]
        elif blocks and rnd.random() < 0.5:
            # the same attribute block again, on the same or on ANOTHER kind of session (near-identical repeats)
            attrs = rnd.choice(blocks)
        else:
            asn4 = rnd.random() < 0.5
            attrs = W.origin(0) + W.as_path([65001, 65002], asn4) + W.next_hop()
            if rnd.random() < 0.7:
                attrs += W.aggregator(65010, '192.0.2.9', asn4)
            if rnd.random() < 0.5:
                attrs += W.med(rnd.randint(0, 9))
            if rnd.random() < 0.4:
                # the same few AIGP values in blocks that differ elsewhere
                attrs += aigp(rnd.choice([10, 20]))
            if rnd.random() < 0.3:
                attrs += W.attr(0x80, 4, b'\x00\x00')  # malformed MED: treat-as-withdraw
            blocks.append(attrs)
        nlri = W.prefix4(f'10.{rnd.randint(0, 3)}.0.0', 16)
        # the same block travels with and without withdrawn routes (the JSON encoder renders attributes differently then)
        wd = W.prefix4(f'172.16.{rnd.randint(0, 3)}.0', 24) if rnd.random() < 0.4 else b''
        seq.append((kind, W.update_body(wd, attrs, nlri)))
        last = attrs
    return seq


@bounded('C19', 'sequence-vs-fresh')
def sequence_vs_fresh(tier, seed):
    rnd = random.Random(seed)
    n = 24 if tier == 'quick' else 200
    seq = build_sequence(rnd, n)
    got = in_sequence(seq)
    with ThreadPoolExecutor(16) as ex:
        alone = list(ex.map(lambda kb: fresh(*kb), seq))
    fails = []
    for k, ((kind, body), a, b) in enumerate(zip(seq, got, alone)):
        if a != b:
            fails.append({'what': f'message {k} of the sequence decodes differently than alone in a fresh process', 'input': {'index': k, 'sequence': [(kd, bd.hex()) for kd, bd in seq[: k + 1]]}, 'in_sequence': json.dumps(a)[:500], 'fresh': json.dumps(b)[:500]})
    return {'evaluations': len(seq), 'distinct_nontrivial': len({(k, b) for k, b in seq}), 'bound': f'(both processes hold the SAME set of encoders: what one encoder does to another is the subject of event-counter-per-encoder) one sequence of {n} UPDATEs over four sessions (4-byte eBGP, 2-byte iBGP, iBGP with and without AIGP) with repeated and cross-session attribute blocks, shared AIGP values in blocks that differ elsewhere, malformed repeats, with and without withdrawn routes; decode caches on as the server sets them; each message compared with a fresh interpreter', 'rule': 'one case = one message position in the sequence; distinct = distinct (session, bytes)', 'samples': [{'kind': k, 'body': b.hex()[:120]} for k, b in seq[:3]], 'failures': fails[:10]}


@replayer('C19', 'sequence-vs-fresh')
def _replay(f):
    seq = [(k, bytes.fromhex(b)) for k, b in f['input']['sequence']]
    return in_sequence(seq)[-1] == fresh(*seq[-1])


# ---------------------------------------------------------------------------------------------------------------------
# shared-state table: a STATIC frame obligation.  Every statement inside a function of the decode-side packages which
# writes class-level or module-level state (cls.X = / cls.X[...] = / ClassName.X... = / mutating method calls on those /
# writes to an UPPERCASE attribute of a non-self object / `global`) is found by an AST scan of the current tree; each site
# must be listed below with the reason why it cannot make a later decode depend on an earlier one.  A site which is not
# listed -- new shared state on the decode path -- is a violation.
SHARED_OK = {
    # registration: runs while the modules are imported, never while decoding
    'register': 'registration decorator / function: runs at import time',
    # caches whose key is the complete input of the cached computation
    ('bgp/message/update/collection.py', 'UpdateCollection._get_eor'): 'End-of-RIB objects memoised by (afi, safi): the key is the whole input',
    ('bgp/message/update/attribute/community/initial/community.py', 'Community.cached'): 'keyed by the 4 packed bytes: the whole value',
    ('bgp/message/update/attribute/community/large/community.py', 'LargeCommunity.cached'): 'keyed by the 12 packed bytes: the whole value',
    ('bgp/message/open/capability/capability.py', 'CapabilityCode.__new__'): 'interned by value',
    ('protocol/resource.py', 'Resource.__new__'): 'interned by class and value; the instances must stay immutable (NetMask did not: fixed in 05ec5e9)',
    ('bgp/message/update/attribute/attribute.py', 'Attribute.unpack'): 'per-attribute cache keyed by the value bytes; consulted only when Attribute.caching and cls.CACHING (dead on Attribute itself, see seed C19-2)',
    ('bgp/message/update/attribute/attribute.py', 'Attribute.setCache'): 'creates the empty per-attribute caches at start-up',
    ('bgp/message/update/attribute/attribute.py', 'Attribute.klass'): 'writes kls.ID = the id the class was found under in the registry (idempotent for a class registered under its own ID; not examined for classes registered under several ids)',
    ('bgp/message/update/attribute/collection.py', 'AttributeCollection.unpack'): 'last-block cache: under contract (cache clauses of AttributeCollection.unpack, C08 / C19)',
    ('bgp/message/update/attribute/bgpls/linkstate.py', 'LinkState.get_ls_class'): 'memoises the class synthesised for an unknown TLV code: a function of the code alone',
    ('bgp/message/update/attribute/bgpls/linkstate.py', 'LinkState._decode_tlv'): 'reads instance.flags to force the lazy parse: no class state written',
    ('protocol/ip/port.py', 'Port._ensure_loaded'): 'lazy load of a static name table',
    ('protocol/ip/__init__.py', 'IP.register'): 'registration at import time',
    ('bgp/message/open/capability/capability.py', 'Capability.unknown'): 'registration of the fallback class at import time',
}
MUTATORS = {'append', 'add', 'update', 'setdefault', 'pop', 'clear', 'extend', 'insert', 'remove', 'cache', 'popitem', 'discard'}


def shared_state_sites():
    import ast as A

    root = os.path.join(os.environ.get('PYVC_REPO', '/repo'), 'src', 'exabgp')
    out = []

    def base_name(n):
        while isinstance(n, (A.Attribute, A.Subscript)):
            n = n.value
        return n.id if isinstance(n, A.Name) else None

    def shared(t):
        n = t.value if isinstance(t, A.Subscript) else t
        if isinstance(n, A.Attribute):
            b = base_name(n)
            if b == 'cls' or (b and b[0].isupper()):
                return True
            if b not in ('self', None) and n.attr.isupper() and isinstance(t, A.Attribute):
                return True  # X.ID = ... on something which is not self: a class constant rewritten at run time
        return False

    for sub in ('bgp/message', 'protocol'):
        for dp, _dn, fns in os.walk(os.path.join(root, sub)):
            for f in fns:
                if not f.endswith('.py'):
                    continue
                p = os.path.join(dp, f)
                rel = os.path.relpath(p, root)
                tree = A.parse(open(p).read())
                modlevel = set()
                for n in tree.body:
                    if isinstance(n, (A.Assign, A.AnnAssign)):
                        for t in n.targets if isinstance(n, A.Assign) else [n.target]:
                            if isinstance(t, A.Name):
                                modlevel.add(t.id)

                def walk(node, qual, inf):
                    for ch in A.iter_child_nodes(node):
                        q, i2 = qual, inf
                        if isinstance(ch, (A.FunctionDef, A.AsyncFunctionDef)):
                            q, i2 = (qual + '.' if qual else '') + ch.name, True
                        elif isinstance(ch, A.ClassDef):
                            q = (qual + '.' if qual else '') + ch.name
                        if i2:
                            if isinstance(ch, (A.Assign, A.AugAssign, A.AnnAssign)):
                                for t in ch.targets if isinstance(ch, A.Assign) else [ch.target]:
                                    if shared(t) or (isinstance(t, A.Subscript) and base_name(t) in modlevel):
                                        out.append((rel, q, ch.lineno, A.unparse(t)[:70]))
                            elif isinstance(ch, A.Global):
                                out.append((rel, q, ch.lineno, 'global ' + ','.join(ch.names)))
                            elif isinstance(ch, A.Call) and isinstance(ch.func, A.Attribute) and ch.func.attr in MUTATORS:
                                recv = ch.func.value
                                if shared(recv) or (isinstance(recv, (A.Name, A.Subscript)) and base_name(recv) in modlevel):
                                    out.append((rel, q, ch.lineno, A.unparse(ch)[:70]))
                        walk(ch, q, i2)

                walk(tree, '', False)
    return out


@bounded('C19', 'shared-state-table')
def shared_state_table(tier, seed):
    sites = shared_state_sites()
    fails, reasons = [], {}
    for rel, qual, line, text in sites:
        if (rel, qual) in SHARED_OK:
            reasons[f'{rel}:{qual}'] = SHARED_OK[(rel, qual)]
        elif 'register' in qual.lower():
            reasons['register*'] = SHARED_OK['register']
        else:
            fails.append({'what': f'{rel} {qual} (line {line}) writes shared state: `{text}` -- a decode could now depend on what was decoded before; no justification is recorded for this site', 'input': {'file': rel, 'function': qual, 'text': text}})
    if len(sites) < 30:
        raise RuntimeError(f'shared-state scan found only {len(sites)} sites: the scan no longer sees the source')
    return {'evaluations': len(sites), 'distinct_nontrivial': len(sites), 'bound': f'STATIC: all {len(sites)} statements inside functions of bgp/message/** and protocol/** which write class-level or module-level state (AST scan of the current tree), each against a table of justified sites; what the syntax cannot show (an attribute written on an object fetched from a cache, as NetMask did) is not covered. Justifications in use: {reasons}', 'rule': 'one case = one writing statement', 'samples': [{'file': sites[0][0], 'function': sites[0][1]}], 'failures': fails}


@replayer('C19', 'shared-state-table')
def _replay_shared(f):
    r = shared_state_table('quick', 1)
    return not any(x['input'] == f['input'] for x in r['failures'])


@bounded('C19', 'open-sequences')
def open_sequences(tier, seed):
    """Capability.klass rewrites a class constant while decoding (see shared-state-table).  Peer OPENs which use the
    standard codes (2, 68) and the Cisco ones (128, 131) for the same capability classes are decoded in every order of
    three; the JSON event of each OPEN and the bytes of OUR OWN next OPEN must be what they are in a fresh state"""
    import itertools
    from . import harness as H
    from exabgp.bgp.message import Open
    from exabgp.bgp.message.open import Version
    from exabgp.bgp.message.open.capability import Capabilities
    from exabgp.reactor.api.response.json import JSON

    nb = H.neighbor(capability='route-refresh enable;')
    base = [H.cap(1, b'\x00\x01\x00\x01'), H.cap(65, (65001).to_bytes(4, 'big'))]
    variants = {'standard': base + [H.cap(2, b''), H.cap(68, b'')], 'cisco': base + [H.cap(128, b''), H.cap(131, b'')], 'both': base + [H.cap(2, b''), H.cap(128, b'')], 'none': base}

    def ours():
        o = Open.make_open(Version(4), nb.session.local_as, nb.hold_time, nb.session.router_id, Capabilities().new(nb, False))
        neg, _, _ = H.negotiated(nb, H.peer_open_bytes(65001, 180, '9.9.9.9', H.std_caps(65001)))
        return bytes(o.pack_message(neg))

    kept = []  # (name, decoded OPEN, what its capabilities said when it was decoded)

    def said(recv):
        return {int(k): (str(v), v.json()) for k, v in recv.capabilities.items()}

    def event(name):
        neg, _sent, recv = H.negotiated(nb, H.peer_open_bytes(65001, 180, '9.9.9.9', variants[name]))
        import json as _j

        kept.append((name, recv, said(recv)))
        ev = _j.loads(JSON('6.0.0').open(nb, 'receive', recv, b'', b'', neg))
        return _j.dumps(ev['neighbor']['open'], sort_keys=True)

    # what each code must say, from the capability registry of RFC 2918 / the Cisco pre-standard codes -- not from a
    # first decode, which is itself a decode in SOME state
    WANT = {2: 'RFC', 128: 'Cisco', 68: 'RFC', 131: 'Cisco'}

    reference_ours = ours()
    reference = {}
    fails, evals = [], 0
    for name in variants:
        reference[name] = event(name)  # first decode of each, in a state no Cisco code has touched for 'standard' / 'none'
    for seq in itertools.permutations(variants, 3):
        for name in seq:
            evals += 1
            got = event(name)
            if got != reference[name] and len(fails) < 5:
                fails.append({'what': f'the OPEN event of a peer announcing {name} capabilities depends on the OPENs decoded before it', 'input': {'sequence': list(seq), 'at': name}, 'expected': reference[name][:300], 'observed': got[:300]})
            if ours() != reference_ours and len(fails) < 5:
                fails.append({'what': 'our own OPEN changed after decoding peer OPENs', 'input': {'sequence': list(seq), 'at': name}})
            nm, recv, _then = kept[-1]
            for code, (text, js) in said(recv).items():
                if code in WANT and f'"variant": "{WANT[code]}"' not in js and len(fails) < 5:
                    fails.append({'what': f'capability code {code} of a decoded OPEN renders as {js} (the {WANT[code]} variant was received)', 'input': {'sequence': list(seq), 'at': name}})
            # objects already decoded are not altered by later decoding
            for nm, recv, then in kept[-4:]:
                now = said(recv)
                if now != then and len(fails) < 5:
                    fails.append({'what': f'an OPEN decoded earlier ({nm}) says something else after a later OPEN was decoded', 'input': {'sequence': list(seq), 'at': name}, 'then': str(then)[:300], 'now': str(now)[:300]})
    return {'evaluations': evals, 'distinct_nontrivial': evals, 'bound': 'every ordered triple of four peer OPEN variants (standard codes 2/68, Cisco codes 128/131, both, none); JSON event of each and our own next OPEN compared with the first decode; the variant each capability code renders against the code registry; the rendering of the OPENs decoded earlier re-read after each later decode', 'rule': 'one case = one OPEN in one sequence', 'samples': [{'sequence': ['cisco', 'standard', 'none']}], 'failures': fails}


@replayer('C19', 'open-sequences')
def _replay_opens(f):
    r = open_sequences('quick', 1)
    return not r['failures']


# ---------------------------------------------------------------------------------------------------------------------
# two peers accepted from ONE neighbor range (`neighbor 10.0.0.0/24 { ... }`): the real Listener.new_connections builds
# their neighbors; what is decoded, stored and rendered for one must not depend on the other having connected
RANGE_CONF = """
neighbor 10.0.0.0/24 {
    router-id 10.0.0.1;
    local-address 10.9.9.9;
    local-as 65500;
    peer-as 65500;
    passive true;
    family { ipv4 unicast; }
    static { route 203.0.113.0/24 next-hop 10.9.9.9; }
}
"""


def _accept_from_range(count):
    """-> (the range's own neighbor, [neighbor of each accepted peer]) through the real Listener.new_connections"""
    import exabgp.reactor.listener as L
    from exabgp.configuration.configuration import Configuration
    from exabgp.rib import RIB

    RIB._cache.clear()
    conf = Configuration([RANGE_CONF], text=True)
    if conf.reload() is not True:
        raise RuntimeError('range configuration refused: %s' % conf.error)
    (tmpl,) = conf.neighbors.values()
    made = []

    class StubPeer:
        def __init__(self, neighbor, reactor):
            self.neighbor = neighbor
            made.append(neighbor)

        def handle_connection(self, connection):
            return None

    class StubReactor:
        def __init__(self):
            self.p = {'range': tmpl}

        def peers(self):
            return list(self.p)

        def neighbor(self, key):
            return self.p[key]

        def register_peer(self, name, peer):
            self.p[name] = peer.neighbor

        def handle_connection(self, key, connection):
            return None

    class Conn:  # what Incoming offers to new_connections(): .local is the address of the remote peer
        def __init__(self, local, peer):
            self.local, self.peer = local, peer

        def name(self):
            return 'incoming %s-%s' % (self.local, self.peer)

    real_peer = L.Peer
    L.Peer = StubPeer
    try:
        listener = L.Listener.__new__(L.Listener)
        listener.serving = True
        listener._reactor = StubReactor()
        for i in range(count):
            conn = Conn('10.0.0.%d' % (10 + i), '10.9.9.9')
            listener._connected = lambda conn=conn: iter([conn])
            for _ in listener.new_connections():
                pass
    finally:
        L.Peer = real_peer
    return tmpl, made


def range_case():
    from exabgp.bgp.message.update.nlri.inet import INET  # noqa: F401

    inp = {'scenario': 'two peers (10.0.0.10, 10.0.0.11) accepted from `neighbor 10.0.0.0/24` holding one static route'}
    try:
        tmpl, (alone,) = _accept_from_range(1)
        alone_addr = str(alone.session.peer_address)
        tmpl, (p1, p2) = _accept_from_range(2)
    except Exception as e:  # noqa
        return {'what': f'accepting peers from a range raised {type(e).__name__}: {str(e)[:160]}', 'input': inp}
    if str(p1.session.peer_address) != alone_addr:
        return {'what': f'the address of the first peer reads {p1.session.peer_address} once a second peer of the range has connected ({alone_addr} while it is alone): its events name the other peer', 'input': inp}
    if str(tmpl.session.peer_address) != '10.0.0.0':
        return {'what': f'accepting a peer rewrote the address of the range itself: {tmpl.session.peer_address}', 'input': inp}
    if p1.uid == p2.uid:
        return {'what': 'two peers of one range share a uid: the counter of their JSON events is one counter', 'input': inp}
    if p1.rib.incoming is p2.rib.incoming:
        return {'what': 'two peers of one range share ONE Adj-RIB-In: what one announces is stored for both, the withdraw of one removes the route of the other', 'input': inp}
    if p1.rib.outgoing is p2.rib.outgoing:
        return {'what': 'two peers of one range share ONE Adj-RIB-Out: the first peer to run sends the table, the other an End-of-RIB on an empty one', 'input': inp}
    for who, nb in (('first', p1), ('second', p2)):
        sent = []
        for upd in nb.rib.outgoing.updates(True):
            sent += [str(r.nlri) for r in getattr(upd, 'announces', [])] if hasattr(upd, 'announces') else []
        if not any('203.0.113.0/24' in s for s in sent):
            return {'what': f'the {who} peer of the range has no configured route to send (its Adj-RIB-Out yields {sent})', 'input': inp}
    return None


@bounded('C19', 'peers-of-one-range')
def peers_of_one_range(tier, seed):
    f = range_case()
    return {'evaluations': 1, 'distinct_nontrivial': 1, 'bound': 'one history: two incoming connections matched by one range neighbor through the real Listener.new_connections (stub Peer, no socket); addresses, uid, Adj-RIB-In, Adj-RIB-Out of the two neighbors and of the range', 'rule': 'one case', 'samples': [{'scenario': 'two peers of 10.0.0.0/24'}], 'failures': [f] if f else []}


@replayer('C19', 'peers-of-one-range')
def _replay_range(f):
    return range_case() is None


# ---------------------------------------------------------------------------------------------------------------------
# the "counter" of a JSON event: what one API process reads must not depend on which other encoders exist in the process
def counter_case():
    from bounded import c13
    from exabgp.bgp.message import Message
    from exabgp.reactor.api.response import Response

    nb, neg = c13.session()
    body = bytes.fromhex('0000' '0015' '40010100' '400200' '400304c0000201' '40050400000064' '18cb0071')
    inp = {'scenario': 'one UPDATE rendered by a v4 text encoder and two JSON encoders (three API processes on one neighbor)', 'body': body.hex()}
    try:
        m = Message.unpack(2, memoryview(body), neg)
        encs = [Response.V4.Text('4.0.1'), Response.JSON('6.0.0'), Response.JSON('6.0.0')]
        outs = [e.update(nb, 'receive', m.data, b'', b'', neg) for e in encs]
        counters = [json.loads(o)['counter'] for o in outs[1:]]
        outs2 = [e.update(nb, 'receive', m.data, b'', b'', neg) for e in encs]
        counters2 = [json.loads(o)['counter'] for o in outs2[1:]]
    except Exception as e:  # noqa
        return {'what': f'rendering raised {type(e).__name__}: {str(e)[:160]}', 'input': inp}
    if counters != [1, 1] or counters2 != [2, 2]:
        return {'what': f'the counters of the first and second UPDATE read by two JSON processes are {counters} and {counters2}: a fresh process with one JSON helper writes 1 then 2 -- the other encoders count in the same counter', 'input': inp}
    return None


@bounded('C19', 'event-counter-per-encoder')
def event_counter(tier, seed):
    f = counter_case()
    return {'evaluations': 1, 'distinct_nontrivial': 1, 'bound': 'one UPDATE twice through three real encoders (v4 text, JSON, JSON) of one neighbor', 'rule': 'one case', 'samples': [{'encoders': ['text4', 'json6', 'json6']}], 'failures': [f] if f else []}


@replayer('C19', 'event-counter-per-encoder')
def _replay_counter(f):
    return counter_case() is None
