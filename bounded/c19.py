"""bounded stand-in for C19: each message of a long mixed sequence over sessions with different negotiated parameters is
decoded in sequence (one process, shared class-level caches) and alone in a fresh interpreter; results must agree"""
import json
import os
import random
import subprocess
import sys
from concurrent.futures import ThreadPoolExecutor

from .registry import bounded, replayer
from . import pipeline as P
from spec import wire as W

ROOT = os.path.dirname(os.path.dirname(os.path.abspath(__file__)))
FRESH = """
import sys, json
sys.path.insert(0, %r)
from bounded import pipeline as P
from bounded.c19 import like_the_server
like_the_server()
kind, body = sys.argv[1], bytes.fromhex(sys.argv[2])
o = P.observe(kind, body)
print(json.dumps({'status': o.get('status'), 'code': o.get('code'), 'update': o.get('update'), 'marker': o.get('marker'), 'rib': o.get('rib')}, sort_keys=True))
""" % ROOT


def fresh(kind, body):
    env = dict(os.environ)
    env['PYTHONPATH'] = f'{os.environ.get("PYVC_REPO", "/repo")}/src:{ROOT}'
    env['exabgp_log_enable'] = 'false'
    p = subprocess.run([sys.executable, '-c', FRESH, kind, body.hex()], capture_output=True, text=True, env=env, timeout=120)
    if p.returncode != 0:
        return {'error': p.stderr[-300:]}
    return json.loads(p.stdout.strip().splitlines()[-1])


def like_the_server():
    """application/server.py copies exabgp.cache.attributes (default true) into Attribute.caching at start-up: the
    decode caches are ON in a running ExaBGP, and off by class default (which is all the unit tests see)"""
    from exabgp.bgp.message.update.attribute import Attribute
    from exabgp.environment import getenv

    Attribute.caching = getenv().cache.attributes


def in_sequence(seq):
    like_the_server()
    out = []
    for kind, body in seq:
        o = P.observe(kind, body)
        out.append(json.loads(json.dumps({'status': o.get('status'), 'code': o.get('code'), 'update': o.get('update'), 'marker': o.get('marker'), 'rib': o.get('rib')}, sort_keys=True)))
    return out


def aigp(metric):
    return W.attr(0x80, 26, bytes([1, 0, 11]) + metric.to_bytes(8, 'big'))


def build_sequence(rnd, n):
    seq = []
    blocks = []
    for _ in range(n):
        kind = rnd.choice(['ebgp4', 'ibgp2', 'ibgp4-aigp', 'ibgp4-noaigp'])
        if seq and rnd.random() < 0.35:
            # the block of the message just before, byte for byte (AttributeCollection.unpack remembers the last block
            # it decoded), on the same session or on another one
            attrs = last
            if rnd.random() < 0.6:
                kind = seq[-1][0]
        elif blocks and rnd.random() < 0.5:
            # the same attribute block again, on the same or on ANOTHER kind of session (near-identical repeats)
            attrs = rnd.choice(blocks)
        else:
            asn4 = rnd.random() < 0.5
            attrs = W.origin(0) + W.as_path([65001, 65002], asn4) + W.next_hop()
            if rnd.random() < 0.7:
                attrs += W.aggregator(65010, '192.0.2.9', asn4)
            if rnd.random() < 0.5:
                attrs += W.med(rnd.randint(0, 9))
            if rnd.random() < 0.4:
                # the same few AIGP values in blocks that differ elsewhere
                attrs += aigp(rnd.choice([10, 20]))
            if rnd.random() < 0.3:
                attrs += W.attr(0x80, 4, b'\x00\x00')  # malformed MED: treat-as-withdraw
            blocks.append(attrs)
        nlri = W.prefix4(f'10.{rnd.randint(0, 3)}.0.0', 16)
        # the same block travels with and without withdrawn routes (the JSON encoder renders attributes differently then)
        wd = W.prefix4(f'172.16.{rnd.randint(0, 3)}.0', 24) if rnd.random() < 0.4 else b''
        seq.append((kind, W.update_body(wd, attrs, nlri)))
        last = attrs
    return seq


@bounded('C19', 'sequence-vs-fresh')
def sequence_vs_fresh(tier, seed):
    rnd = random.Random(seed)
    n = 24 if tier == 'quick' else 200
    seq = build_sequence(rnd, n)
    got = in_sequence(seq)
    with ThreadPoolExecutor(16) as ex:
        alone = list(ex.map(lambda kb: fresh(*kb), seq))
    fails = []
    for k, ((kind, body), a, b) in enumerate(zip(seq, got, alone)):
        if a != b:
            fails.append({'what': f'message {k} of the sequence decodes differently than alone in a fresh process', 'input': {'index': k, 'sequence': [(kd, bd.hex()) for kd, bd in seq[: k + 1]]}, 'in_sequence': json.dumps(a)[:500], 'fresh': json.dumps(b)[:500]})
    return {'evaluations': len(seq), 'distinct_nontrivial': len({(k, b) for k, b in seq}), 'bound': f'one sequence of {n} UPDATEs over four sessions (4-byte eBGP, 2-byte iBGP, iBGP with and without AIGP) with repeated and cross-session attribute blocks, shared AIGP values in blocks that differ elsewhere, malformed repeats, with and without withdrawn routes; decode caches on as the server sets them; each message compared with a fresh interpreter', 'rule': 'one case = one message position in the sequence; distinct = distinct (session, bytes)', 'samples': [{'kind': k, 'body': b.hex()[:120]} for k, b in seq[:3]], 'failures': fails[:10]}


@replayer('C19', 'sequence-vs-fresh')
def _replay(f):
    seq = [(k, bytes.fromhex(b)) for k, b in f['input']['sequence']]
    return in_sequence(seq)[-1] == fresh(*seq[-1])
