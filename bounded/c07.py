"""bounded stand-in for C07: (neighbor configuration, peer OPEN) pairs through the real configuration parser, OPEN
encoder/decoder and Negotiated, against the RFC reference negotiation (spec/negotiate.py)"""
import itertools
import random
import struct

from .registry import bounded, replayer
from . import harness as H
from spec.negotiate import negotiate

FAMS = {(1, 1): 'ipv4 unicast', (2, 1): 'ipv6 unicast', (1, 2): 'ipv4 multicast'}


def one(cfg, peer):
    """cfg: our configuration knobs; peer: the peer OPEN description -> None or failure"""
    inp = {'config': cfg, 'peer': {k: (sorted(v) if isinstance(v, (set, list)) and k != 'order' else v) for k, v in peer.items() if k != 'addpath'} | {'addpath': {f'{a}/{s}': m for (a, s), m in peer.get('addpath', {}).items()}}}
    capability = []
    capability.append('asn4 %s;' % ('enable' if cfg['asn4'] else 'disable'))
    capability.append('route-refresh %s;' % ('enable' if cfg['refresh'] else 'disable'))
    capability.append('extended-message %s;' % ('enable' if cfg['extended'] else 'disable'))
    if cfg['addpath']:
        capability.append('add-path %s;' % {1: 'receive', 2: 'send', 3: 'send/receive'}[cfg['addpath']])
    fams = ' '.join(FAMS[f] + ';' for f in cfg['families'])
    try:
        nb = H.neighbor(local_as=cfg['asn'], peer_as=peer['asn'], hold=cfg['hold'], capability=' '.join(capability), families=fams)
    except ValueError as e:
        return {'what': f'neighbor configuration refused: {e}', 'input': inp}
    caps = []
    for f in peer['families']:
        caps.append(H.cap(1, struct.pack('!HBB', f[0], 0, f[1])))
    if peer['refresh']:
        caps.append(H.cap(2, b''))
    if peer['enhanced_refresh']:
        caps.append(H.cap(70, b''))
    if peer['asn4']:
        caps.append(H.cap(65, struct.pack('!L', peer['asn'])))
    if peer['extended']:
        caps.append(H.cap(6, b''))
    if peer.get('addpath'):
        caps.append(H.cap(69, b''.join(struct.pack('!HBB', a, s, m) for (a, s), m in peer['addpath'].items())))
    rnd = random.Random(peer.get('order', 0))
    rnd.shuffle(caps)
    if peer.get('duplicate') and caps:
        caps.append(caps[0])
    body = H.peer_open_bytes(peer['asn'], peer['hold'], '9.9.9.9', caps)
    try:
        neg, sent, recv = H.negotiated(nb, body)
    except Exception as e:  # noqa
        return {'what': f'OPEN exchange failed: {type(e).__name__}: {str(e)[:200]}', 'input': inp}
    # what we advertise is read off OUR OPEN's wire bytes with the reference decoder (RFC 5492 / 9072)
    from spec.open import decode_open, cap_summary

    raw = bytes(sent.pack_message(neg))
    try:
        mine = decode_open(raw[19:])
    except (ValueError, IndexError) as e:
        return {'what': f'our OPEN does not parse with the RFC reference decoder: {e}', 'input': inp, 'open': raw.hex()}
    ours = cap_summary(mine['caps'])
    ours['asn'] = ours['asn4_value'] if ours['asn4'] else mine['asn2']
    ours['hold'] = mine['hold']
    if ours['asn'] != cfg['asn'] or mine['hold'] != cfg['hold'] or sorted(ours['families']) != sorted(cfg['families']) or ours['asn4'] != cfg['asn4'] or ours['refresh'] != cfg['refresh'] or ours['extended'] != cfg['extended'] or bool(ours['addpath']) != (bool(cfg['addpath']) and any(f[1] == 1 for f in cfg['families'])) or any(m != cfg['addpath'] for m in ours['addpath'].values()):
        return {'what': 'the OPEN on the wire does not advertise exactly what the configuration enables', 'input': inp, 'advertised': str(ours)}
    exp = negotiate(ours, peer)
    exp['families'] = sorted(exp['families'])  # order is not part of the statement
    from exabgp.bgp.message.open.capability.refresh import REFRESH

    got = {
        'holdtime': int(neg.holdtime),
        'families': sorted((int(a), int(s)) for a, s in neg.families),
        'asn4': bool(neg.asn4),
        'local_as': int(neg.local_as),
        'peer_as': int(neg.peer_as),
        'msg_size': neg.msg_size,
        'refresh': REFRESH.json(neg.refresh),
        'addpath_send': {f for f in FAMS if neg.addpath.send(*f)},
        'addpath_receive': {f for f in FAMS if neg.addpath.receive(*f)},
    }
    for k in exp:
        if got[k] != exp[k]:
            return {'what': f'negotiated {k} = {got[k]!r}, the RFC function of the two OPENs gives {exp[k]!r}', 'input': inp}
    # what we advertise is what the configuration enables, and it survives encode/decode
    from exabgp.bgp.message.open.capability import Capability

    wire = H_open_roundtrip(sent, neg)
    if wire is not None:
        return {'what': wire, 'input': inp}
    return None


def H_open_roundtrip(sent, neg):
    from exabgp.bgp.message import Open

    raw = bytes(sent.pack_message(neg))
    back = Open.unpack_message(raw[19:], neg)
    if bytes(back.pack_message(neg)) != raw:
        return 'our OPEN does not survive decode/encode unchanged'
    from spec.open import decode_open

    ref = decode_open(raw[19:])
    if int(back.asn) != ref['asn2'] or int(back.hold_time) != ref['hold'] or sorted(int(k) for k in back.capabilities) != sorted({c for c, _ in ref['caps']}):
        return f'our OPEN decodes to different values than the reference reads from its bytes: {back} |VS| {ref}'
    return None


@bounded('C07', 'open-pairs')
def open_pairs(tier, seed):
    rnd = random.Random(seed)
    fails, evals, distinct, samples = [], 0, set(), []
    fam_sets = [((1, 1),), ((1, 1), (2, 1)), ((2, 1), (1, 2)), ((1, 1), (2, 1), (1, 2))]
    n = 60 if tier == 'quick' else 1500
    for k in range(n):
        cfg = {'asn': rnd.choice([65000, 65000, 4200000001]), 'hold': rnd.choice([0, 3, 90, 180, 65535]), 'asn4': rnd.random() < 0.7, 'refresh': rnd.random() < 0.7, 'extended': rnd.random() < 0.5, 'addpath': rnd.choice([0, 0, 1, 2, 3]), 'families': rnd.choice(fam_sets)}
        if cfg['asn'] > 65535:
            cfg['asn4'] = True
        # (): a plain RFC 4271 speaker, no Multiprotocol capability at all
        pf = rnd.choice(fam_sets + [()])
        peer = {'asn': rnd.choice([65001, 65000, 4200000002]), 'hold': rnd.choice([0, 3, 30, 180, 65535]), 'families': list(pf), 'asn4': rnd.random() < 0.7, 'refresh': rnd.random() < 0.7, 'enhanced_refresh': rnd.random() < 0.4, 'extended': rnd.random() < 0.5, 'addpath': ({f: rnd.choice([1, 2, 3, 1, 2, 3, 0, 4, 5, 6, 7, 255]) for f in pf} if rnd.random() < 0.5 else {}), 'order': rnd.randint(0, 99), 'duplicate': rnd.random() < 0.2}
        if peer['asn'] > 65535:
            peer['asn4'] = True
        evals += 1
        distinct.add(str((cfg, peer)))
        f = one(cfg, peer)
        if f:
            fails.append(f)
        if len(samples) < 2:
            samples.append({'config': cfg, 'peer_asn': peer['asn'], 'peer_families': peer['families']})
    return {'evaluations': evals, 'distinct_nontrivial': len(distinct), 'bound': f'{n} sampled (configuration, peer OPEN) pairs: 2-/4-byte AS on both sides, hold times 0/3/../65535, 4 family sets, asn4/refresh/enhanced-refresh/extended-message/ADD-PATH toggles, shuffled and duplicated capabilities', 'rule': 'one case = (config knobs, peer OPEN description); distinct by value', 'samples': samples, 'failures': fails}


@bounded('C07', 'rfc9072-long-open')
def long_open(tier, seed):
    """an OPEN whose optional parameters exceed 255 bytes (RFC 9072 extended format): generated, decoded by the RFC
    reference decoder, and decoded back by ExaBGP unchanged; and a peer OPEN in that format is understood"""
    from spec.open import decode_open, cap_summary
    from exabgp.bgp.message import Open

    fams = 'ipv4 unicast; ipv4 multicast; ipv4 nlri-mpls; ipv4 mpls-vpn; ipv4 flow; ipv4 flow-vpn; ipv6 unicast; ipv6 nlri-mpls; ipv6 mpls-vpn; ipv6 flow; ipv6 flow-vpn; l2vpn vpls; l2vpn evpn; ipv4 mup; ipv6 mup; ipv4 mcast-vpn; ipv6 mcast-vpn; ipv6 sr-policy; ipv4 sr-policy;'
    fails, evals = [], 0
    for cap in ('add-path send/receive; graceful-restart 120;', 'add-path send/receive; graceful-restart 120; nexthop enable;'):
        evals += 1
        try:
            nb = H.neighbor(capability=cap, families=fams)
        except ValueError as e:
            fails.append({'what': f'configuration refused: {e}', 'input': {'capability': cap}})
            continue
        body = H.peer_open_bytes(65001, 180, '9.9.9.9', H.std_caps(65001))
        try:
            neg, sent, recv = H.negotiated(nb, body)
        except Exception as e:  # noqa
            fails.append({'what': f'our own long OPEN is not decodable by ExaBGP: {type(e).__name__}: {str(e)[:200]}', 'input': {'capability': cap}})
            continue
        raw = bytes(sent.pack_message(neg))
        inp = {'capability': cap, 'open': raw.hex()}
        try:
            ref = decode_open(raw[19:])
        except (ValueError, IndexError) as e:
            fails.append({'what': f'our long OPEN ({len(raw)} bytes) does not parse with the RFC 9072 reference decoder: {e}', 'input': inp})
            continue
        back = Open.unpack_message(raw[19:], neg)
        if bytes(back.pack_message(neg)) != raw:
            fails.append({'what': 'long OPEN does not survive decode/encode', 'input': inp})
        if sorted(int(k) for k in back.capabilities) != sorted({c for c, _ in ref['caps']}):
            fails.append({'what': 'long OPEN decodes to a different capability set than the reference', 'input': inp})
        if len(raw) - 29 <= 255:
            fails.append({'what': f'harness: OPEN only {len(raw)} bytes, RFC 9072 path not exercised', 'input': inp})
    # a peer OPEN in extended format with 80 multiprotocol capabilities
    import struct

    caps = [H.cap(1, struct.pack('!HBB', 1 + (k % 2), 0, 1)) for k in range(80)] + [H.cap(65, struct.pack('!L', 65001))]
    params = b''.join(bytes([2]) + struct.pack('!H', len(c)) + c for c in caps)
    body = bytes([4]) + struct.pack('!HH', 65001, 180) + bytes([9, 9, 9, 9]) + bytes([255, 255]) + struct.pack('!H', len(params)) + params
    evals += 1
    nb = H.neighbor()
    try:
        neg, sent, recv = H.negotiated(nb, body)
        if sorted((int(a), int(s)) for a, s in neg.families) != [(1, 1), (2, 1)] or not neg.asn4:
            fails.append({'what': f'peer OPEN in RFC 9072 format misread: families {neg.families} asn4 {neg.asn4}', 'input': {'open_body': body.hex()}})
    except Exception as e:  # noqa
        fails.append({'what': f'peer OPEN in RFC 9072 format refused: {type(e).__name__}: {e}', 'input': {'open_body': body.hex()}})
    # RFC 9072 section 2: the Non-Ext OP Type 255 selects the extended encoding, the Non-Ext OP Len "MUST be ignored on receipt":
    # a short extended OPEN whose first length octet is anything but 0, and the spec decoder's reading of the same bytes
    for first in (255, 16, 1, 254):
        caps2 = [H.cap(1, struct.pack('!HBB', 1, 0, 1)), H.cap(65, struct.pack('!L', 65001))]
        params2 = b''.join(bytes([2]) + struct.pack('!H', len(c)) + c for c in caps2)
        body2 = bytes([4]) + struct.pack('!HH', 65001, 180) + bytes([9, 9, 9, 9]) + bytes([first, 255]) + struct.pack('!H', len(params2)) + params2
        evals += 1
        try:
            neg2, _s2, _r2 = H.negotiated(H.neighbor(), body2)
            if sorted((int(a), int(s)) for a, s in neg2.families) != [(1, 1)] or not neg2.asn4:
                fails.append({'what': f'peer OPEN in RFC 9072 format (Non-Ext OP Len {first}) misread: families {neg2.families} asn4 {neg2.asn4}', 'input': {'open_body': body2.hex()}})
        except Exception as e:  # noqa
            fails.append({'what': f'peer OPEN in RFC 9072 format (Non-Ext OP Len {first}, to be ignored on receipt) refused: {type(e).__name__}: {e}', 'input': {'open_body': body2.hex()}})
    return {'evaluations': evals, 'distinct_nontrivial': evals, 'bound': '2 configurations whose OPEN exceeds 255 bytes of optional parameters + 1 long and 4 short peer OPENs in RFC 9072 format (Non-Ext OP Len 255, 16, 1, 254)', 'rule': 'each case distinct by construction', 'samples': [{'families': fams}], 'failures': fails}
