"""bounded stand-in for C01: routes written as configuration text (the generator writes the text AND the values it
means, so the oracle never looks at what ExaBGP parsed) -> real Configuration -> real Neighbor.resolve_self -> real
UpdateCollection.messages() for each kind of negotiated session -> RFC reference decoder (spec/update.py).  The decoded
UPDATE must say exactly what was written, plus the RFC defaults, for that session."""
import random
import socket
import struct

from .registry import bounded, replayer, harness_canary
from . import harness as H
from spec.update import decode_update

LOCAL4 = '127.0.0.1'
FAMILIES = 'ipv4 unicast; ipv4 multicast; ipv4 nlri-mpls; ipv4 mpls-vpn; ipv6 unicast; ipv6 mpls-vpn; ipv6 nlri-mpls;'
FAMS = ((1, 1), (1, 2), (1, 4), (1, 128), (2, 1), (2, 128), (2, 4))

# kind -> (local_as, peer_as, our capability text, extra neighbor text, peer caps kwargs)
KINDS = {
    'ebgp4': dict(peer_as=65001, asn4=True),
    'ibgp4': dict(peer_as=65000, asn4=True),
    'ebgp2': dict(peer_as=65001, asn4=False),
    'ibgp2': dict(peer_as=65000, asn4=False),
    'addpath': dict(peer_as=65001, asn4=True, addpath='both'),
    'addpath-send-only': dict(peer_as=65000, asn4=True, addpath='send'),
    'addpath-peer-sends': dict(peer_as=65000, asn4=True, addpath='receive'),
    'extnh': dict(peer_as=65001, asn4=True, nexthop=True),
    'big': dict(peer_as=65000, asn4=True, extended=True),
    # our own AS does not fit 2 bytes: the default AS_PATH of eBGP carries it (AS_TRANS + AS4_PATH to a 2-byte peer)
    'local4-ebgp4': dict(peer_as=65001, asn4=True, local_as=4200000001),
    'local4-ebgp2': dict(peer_as=65001, asn4=False, local_as=4200000001),
}


def neighbor_text(kind, static):
    k = KINDS[kind]
    # a 4-byte local AS is only announced with the ASN4 capability: on 'local4-ebgp2' it is the PEER which lacks it
    cap = '' if (k['asn4'] or k.get('local_as', 0) > 65535) else 'asn4 disable;'
    extra = ''
    if k.get('addpath'):
        cap += {'both': ' add-path send/receive;', 'send': ' add-path send;', 'receive': ' add-path receive;'}[k['addpath']]
        extra += ' add-path { ipv4 unicast; ipv6 unicast; ipv4 nlri-mpls; ipv4 mpls-vpn; }'
    if k.get('nexthop'):
        cap += ' nexthop enable;'
        extra += ' nexthop { ipv4 unicast ipv6; ipv4 nlri-mpls ipv6; ipv4 mpls-vpn ipv6; }'
    if k.get('extended'):
        cap += ' extended-message enable;'
    return H.NEIGHBOR_TMPL.format(local_as=k.get('local_as', 65000), peer_as=k['peer_as'], hold=180, capability=cap, families=FAMILIES, extra=extra + ' static { ' + static + ' }')


def peer_open(kind):
    k = KINDS[kind]
    ap = None
    if k.get('addpath'):
        # the peer's side of RFC 7911: it must RECEIVE for us to send
        mode = {'both': 3, 'send': 1, 'receive': 2}[k['addpath']]
        ap = [(a, s, mode) for a, s in ((1, 1), (2, 1), (1, 4), (1, 128))]
    nh = [(1, 1, 2), (1, 4, 2), (1, 128, 2)] if k.get('nexthop') else None
    return H.peer_open_bytes(k['peer_as'], 180, '9.9.9.9', H.std_caps(k['peer_as'], families=FAMS, asn4=k['asn4'], addpath=ap, extended=bool(k.get('extended')), nexthop=nh))


def sends_path_id(kind, afi, safi):
    """RFC 7911 section 4: we send path identifiers iff WE advertised send and the PEER advertised receive"""
    ap = KINDS[kind].get('addpath')
    if (afi, safi) not in ((1, 1), (2, 1), (1, 4), (1, 128)):
        return False
    return ap in ('both', 'send')  # the peer open mirrors: 'send' -> peer mode 1 (receive), 'both' -> 3, 'receive' -> 2


# peer mode for kind 'send' above is 1 = "able to receive" in RFC 7911 encoding (1 receive, 2 send, 3 both)


def ip_bytes(text):
    return socket.inet_pton(socket.AF_INET6 if ':' in text else socket.AF_INET, text)


def gen_route(rnd, n):
    """-> (text without trailing ';', expected dict).  Prefixes are unique per n so routes can be told apart."""
    v6 = rnd.random() < 0.3
    shape = rnd.choice(['plain', 'plain', 'plain', 'label', 'vpn', 'multicast'])
    if v6 and shape == 'multicast':
        shape = 'plain'
    exp = {'labels': (), 'rd': None, 'pid': None}
    if v6:
        mask = rnd.choice([16, 32, 48, 64, 127, 128, 0 if n == 0 else 56])
        # the first 16 bits carry n: prefixes of different routes never coincide, whatever the mask
        addr = socket.inet_pton(socket.AF_INET6, f'{0x2000 + n + 1:x}:db8:5a5a:a5a5:ffff:0:1:1')
        full = int.from_bytes(addr, 'big') >> (128 - mask) << (128 - mask) if mask else 0
        addr = full.to_bytes(16, 'big')
        ptext = socket.inet_ntop(socket.AF_INET6, addr) + f'/{mask}'
        exp['afi'] = 2
    else:
        mask = rnd.choice([8, 16, 24, 25, 31, 32, 17])
        # the first octet (second for multicast) carries n: prefixes of different routes never coincide
        if shape == 'multicast':
            mask = max(mask, 16)
            base = 239 << 24 | (n + 1) << 16 | 0xA5FF
        else:
            base = (n + 1) << 24 | 0x5AA5FF
        full = base >> (32 - mask) << (32 - mask)
        addr = full.to_bytes(4, 'big')
        ptext = socket.inet_ntoa(addr) + f'/{mask}'
        exp['afi'] = 1
    exp['mask'] = mask
    exp['prefix'] = addr[: (mask + 7) // 8]
    exp['safi'] = {'plain': 1, 'multicast': 2, 'label': 4, 'vpn': 128}[shape]
    words = [f'route {ptext}']
    # next hop
    choice = rnd.choice(['v4', 'v4', 'self', 'v6'] if not v6 else ['v6', 'v6', 'v6'])
    if choice == 'self' and v6:
        choice = 'v6'
    if choice == 'v4':
        nh = f'192.0.2.{rnd.randint(1, 254)}'
    elif choice == 'v6':
        nh = f'2001:db8:ffff::{rnd.randint(1, 0xfffe):x}'
    else:
        nh = 'self'
    exp['nexthop'] = nh
    words.append(f'next-hop {nh}')
    if shape in ('label', 'vpn'):
        labs = [rnd.choice([0, 3, 16, 1048575, rnd.randint(16, 1048575)]) for _ in range(rnd.choice([1, 1, 2]))]
        exp['labels'] = tuple(labs)
        words.append('label ' + (str(labs[0]) if len(labs) == 1 else '[ ' + ' '.join(map(str, labs)) + ' ]'))
    if shape == 'vpn':
        form = rnd.choice(['as2', 'ip', 'as4'])
        if form == 'as2':
            a, b = rnd.choice([0, 65000, 65535]), rnd.choice([0, 1, 4294967295])
            exp['rd'] = struct.pack('!HHL', 0, a, b)
            words.append(f'rd {a}:{b}')
        elif form == 'ip':
            b = rnd.choice([0, 5, 65535])
            exp['rd'] = struct.pack('!H4sH', 1, socket.inet_aton('1.2.3.4'), b)
            words.append(f'rd 1.2.3.4:{b}')
        else:
            a, b = rnd.choice([65536, 4200000001]), rnd.choice([0, 65535])
            exp['rd'] = struct.pack('!HLH', 2, a, b)
            words.append(f'rd {a}:{b}')
    if rnd.random() < 0.4:
        pid = rnd.choice([1, 255, 4294967295, rnd.randint(1, 1 << 31)])
        exp['pid'] = pid
        words.append(f'path-information {pid}' if rnd.random() < 0.5 else 'path-information ' + socket.inet_ntoa(struct.pack('!L', pid)))
    a = {}
    if rnd.random() < 0.5:
        o = rnd.choice(['igp', 'egp', 'incomplete'])
        a['origin'] = {'igp': 0, 'egp': 1, 'incomplete': 2}[o]
        words.append(f'origin {o}')
    if rnd.random() < 0.5:
        pool = [1, 64512, 65535, 65536, 4200000001, 4294967295, 23456]
        path = [rnd.choice(pool) for _ in range(rnd.randint(1, 4))]
        a['as_path'] = path
        text = 'as-path [ ' + ' '.join(map(str, path)) + ' ]'
        if rnd.random() < 0.35:
            # a second segment, an AS_SET (RFC 4271 4.3 b): the 4-byte AS may sit in either segment
            extra = [rnd.choice(pool[:4] if rnd.random() < 0.6 else pool) for _ in range(rnd.randint(1, 2))]
            a['as_set'] = extra
            text += ' ( ' + ' '.join(map(str, extra)) + ' )'
        words.append(text)
    if rnd.random() < 0.5:
        a['med'] = rnd.choice([0, 1, 4294967295, rnd.randint(0, 1 << 32 - 1)])
        words.append(f'med {a["med"]}')
    if rnd.random() < 0.4:
        a['local_pref'] = rnd.choice([0, 100, 4294967295, 200])
        words.append(f'local-preference {a["local_pref"]}')
    if rnd.random() < 0.2:
        a['atomic'] = True
        words.append('atomic-aggregate')
    if rnd.random() < 0.3:
        asn = rnd.choice([65010, 65536, 4200000009])
        a['aggregator'] = (asn, '10.9.8.7')
        words.append(f'aggregator ( {asn}:10.9.8.7 )')
    if rnd.random() < 0.4:
        cs = [(rnd.choice([0, 65000, 65535]), rnd.choice([0, 1, 65535])) for _ in range(rnd.randint(1, 3))]
        a['communities'] = cs
        words.append('community [ ' + ' '.join(f'{h}:{l}' for h, l in cs) + ' ]')
    if rnd.random() < 0.3:
        ls = [(rnd.choice([0, 65000, 4294967295]), rnd.choice([0, 7]), rnd.choice([0, 4294967295]))]
        a['large'] = ls
        words.append('large-community [ ' + ' '.join(f'{x}:{y}:{z}' for x, y, z in ls) + ' ]')
    if rnd.random() < 0.3:
        x, y = rnd.choice([65000, 0]), rnd.choice([1, 4294967295])
        a['extended'] = [struct.pack('!BBHL', 0, 2, x, y)]
        words.append(f'extended-community [ target:{x}:{y} ]')
    if rnd.random() < 0.2:
        a['originator'] = '10.1.1.1'
        a['cluster'] = ['10.2.2.2', '10.3.3.3'][: rnd.randint(1, 2)]
        words.append('originator-id 10.1.1.1')
        words.append('cluster-list [ ' + ' '.join(a['cluster']) + ' ]')
    exp['attrs'] = a
    return ' '.join(words), exp


_cache = {}


def build(kind, routes):
    """real Neighbor holding the routes, real Negotiated for the session kind"""
    from exabgp.configuration.configuration import Configuration

    text = neighbor_text(kind, ' '.join(t + ';' for t, _ in routes))
    c = Configuration([text], text=True)
    if not c.reload():
        raise ValueError(f'configuration refused: {str(c.error)[:300]}')
    nb = list(c.neighbors.values())[0]
    neg, _, _ = H.negotiated(nb, peer_open(kind))
    return nb, neg


def expect_attrs(kind, exp):
    """type -> value bytes expected on the wire for this session (RFC 4271 5.1, 6793 4.2.2, 4456, 1997, 8092)"""
    k = KINDS[kind]
    local_as = k.get('local_as', 65000)
    ibgp = k['peer_as'] == local_as
    asn4 = k['asn4']
    a = exp['attrs']
    out = {1: bytes([a.get('origin', 0)])}
    path = a.get('as_path')
    if path is None:
        path = [] if ibgp else [local_as]
    w = 4 if asn4 else 2
    segs = ([(2, path)] if path else []) + ([(1, a['as_set'])] if a.get('as_set') else [])
    out[2] = b''.join(bytes([t, len(v)]) + b''.join((p if (asn4 or p < 65536) else 23456).to_bytes(w, 'big') for p in v) for t, v in segs)
    if not asn4 and any(p > 65535 for _t, v in segs for p in v):
        # RFC 6793 4.2.2: the whole path, with the real numbers, in AS4_PATH
        out[17] = b''.join(bytes([t, len(v)]) + b''.join(p.to_bytes(4, 'big') for p in v) for t, v in segs)
    if 'med' in a:
        out[4] = a['med'].to_bytes(4, 'big')
    if ibgp:
        out[5] = a.get('local_pref', 100).to_bytes(4, 'big')
    if a.get('atomic'):
        out[6] = b''
    if 'aggregator' in a:
        asn, ip = a['aggregator']
        if asn4:
            out[7] = asn.to_bytes(4, 'big') + socket.inet_aton(ip)
        else:
            out[7] = (asn if asn < 65536 else 23456).to_bytes(2, 'big') + socket.inet_aton(ip)
            if asn > 65535:
                out[18] = asn.to_bytes(4, 'big') + socket.inet_aton(ip)
    if 'communities' in a:
        out[8] = b''.join(struct.pack('!HH', h, l) for h, l in a['communities'])
    if 'large' in a:
        out[32] = b''.join(struct.pack('!LLL', *t) for t in a['large'])
    if 'extended' in a:
        out[16] = b''.join(a['extended'])
    if 'originator' in a:
        out[9] = socket.inet_aton(a['originator'])
        out[10] = b''.join(socket.inet_aton(x) for x in a['cluster'])
    return out


def exp_to_json(exp):
    e = dict(exp)
    e['prefix'] = exp['prefix'].hex()
    e['rd'] = exp['rd'].hex() if exp['rd'] is not None else None
    e['labels'] = list(exp['labels'])
    a = dict(exp['attrs'])
    if 'extended' in a:
        a['extended'] = [x.hex() for x in a['extended']]
    e['attrs'] = a
    return e


def exp_from_json(e):
    exp = dict(e)
    exp['prefix'] = bytes.fromhex(e['prefix'])
    exp['rd'] = bytes.fromhex(e['rd']) if e['rd'] is not None else None
    exp['labels'] = tuple(e['labels'])
    a = dict(e['attrs'])
    if 'extended' in a:
        a['extended'] = [bytes.fromhex(x) for x in a['extended']]
    for key in ('communities', 'large'):
        if key in a:
            a[key] = [tuple(x) for x in a[key]]
    if 'aggregator' in a:
        a['aggregator'] = tuple(a['aggregator'])
    exp['attrs'] = a
    return exp


def judge_route(kind, text, exp, nb, neg, route):
    from exabgp.bgp.message.update.collection import UpdateCollection, RoutedNLRI

    inp = {'kind': kind, 'text': text, 'expected': exp_to_json(exp)}
    try:
        msgs = [bytes(m) for m in UpdateCollection([RoutedNLRI(route.nlri, route.nexthop)], [], route.attributes).messages(neg)]
    except Exception as e:  # noqa
        return {'what': f'messages() raised {type(e).__name__}: {str(e)[:120]}', 'input': inp}
    if len(msgs) != 1:
        return {'what': f'{len(msgs)} UPDATEs for one route', 'input': inp}
    afi, safi = exp['afi'], exp['safi']
    try:
        d = decode_update(msgs[0], lambda a, s: sends_path_id(kind, a, s))
    except Exception as e:  # noqa
        return {'what': f'the UPDATE does not decode under the RFC rules for this session: {type(e).__name__} {e}', 'input': inp, 'message': msgs[0].hex()}
    nh = LOCAL4 if exp['nexthop'] == 'self' else exp['nexthop']
    nhb = ip_bytes(nh)
    want_pid = (exp['pid'] if exp['pid'] is not None else 0) if sends_path_id(kind, afi, safi) else None
    want_entry = (want_pid, tuple(exp['labels']), exp['rd'], exp['mask'], exp['prefix'])
    attrs = {}
    for _f, t, v in d['attributes']:
        if t in attrs:
            return {'what': f'attribute {t} twice in one UPDATE', 'input': inp}
        attrs[t] = v
    want = expect_attrs(kind, exp)
    # RFC 4271 4.3 / RFC 4760: the NLRI field and NEXT_HOP carry IPv4 unicast only
    classic = afi == 1 and safi == 1 and len(nhb) == 4
    if classic:
        want[3] = nhb
        if d['nlri'] != [want_entry]:
            return {'what': f'NLRI field says {d["nlri"]}, the operator wrote {want_entry}', 'input': inp}
        if d['mp_reach']:
            return {'what': 'an IPv4 route with an IPv4 next hop is also in MP_REACH_NLRI', 'input': inp}
    else:
        if d['nlri']:
            return {'what': f'unexpected classic NLRI {d["nlri"]}', 'input': inp}
        if len(d['mp_reach']) != 1:
            return {'what': f'{len(d["mp_reach"])} MP_REACH_NLRI attributes', 'input': inp}
        mafi, msafi, mnh, entries = d['mp_reach'][0]
        if (mafi, msafi) != (afi, safi):
            return {'what': f'MP_REACH family {(mafi, msafi)}, route is {(afi, safi)}', 'input': inp}
        want_nh = (bytes(8) if safi == 128 else b'') + nhb
        if mnh != want_nh:
            return {'what': f'MP_REACH next hop {mnh.hex()}, the operator wrote {nh} ({want_nh.hex()})', 'input': inp}
        if entries != [want_entry]:
            return {'what': f'MP_REACH NLRI says {entries}, the operator wrote {want_entry}', 'input': inp}
    got = {t: v for t, v in attrs.items() if t not in (14, 15)}
    if not classic and 3 in got and got[3] == nhb:
        # RFC 4760 section 3: NEXT_HOP next to MP_REACH_NLRI "SHOULD NOT" be sent and is ignored by the receiver: allowed,
        # as long as it does not contradict the MP next hop
        del got[3]
    for t, width in ((8, 4), (16, 8), (32, 12)):
        # communities are sets (RFC 1997 / 4360 / 8092): order on the wire is free
        for dct in (got, want):
            if t in dct and len(dct[t]) % width == 0:
                dct[t] = b''.join(sorted(dct[t][i : i + width] for i in range(0, len(dct[t]), width)))
    if got != want:
        diff = {t: (got.get(t, b'').hex() if t in got else None, want.get(t, b'').hex() if t in want else None) for t in sorted(set(got) | set(want)) if got.get(t) != want.get(t)}
        return {'what': f'path attributes differ from what was written plus the RFC defaults (type: (sent, expected)): {diff}', 'input': inp}
    return None


def run_batch(kind, rnd, count):
    routes = [gen_route(rnd, n) for n in range(count)]
    try:
        nb, neg = build(kind, routes)
    except Exception as e:  # noqa
        # find the route which is refused (each alone), that is the failure
        for t, e_ in routes:
            try:
                build(kind, [(t, e_)])
            except Exception as e2:  # noqa
                return [{'what': f'a route every field of which is within range is refused: {str(e2)[:200]}', 'input': {'kind': kind, 'text': t}}], 0
        return [{'what': f'batch refused although each route alone is accepted: {str(e)[:200]}', 'input': {'kind': kind, 'text': ' ; '.join(t for t, _ in routes)}}], 0
    by_prefix = {}
    for r in nb.routes:
        by_prefix.setdefault((int(r.nlri.afi), bytes(r.nlri.cidr.pack_nlri())), []).append(r)
    fails, evals = [], 0
    for text, exp in routes:
        key = (exp['afi'], bytes([exp['mask']]) + exp['prefix'])
        rs = by_prefix.get(key, [])
        evals += 1
        if len(rs) != 1:
            fails.append({'what': f'{len(rs)} routes held for one written route', 'input': {'kind': kind, 'text': text}})
            continue
        f = judge_route(kind, text, exp, nb, neg, rs[0])
        if f:
            fails.append(f)
    return fails, evals


@bounded('C01', 'text-to-wire')
def text_to_wire(tier, seed):
    rnd = random.Random(seed)
    fails, evals, samples = [], 0, []
    batches = 6 if tier == 'thorough' else 2
    per = 40 if tier == 'thorough' else 25
    for kind in KINDS:
        for b in range(batches):
            f, n = run_batch(kind, rnd, per)
            evals += n
            fails.extend(f)
    t, e = gen_route(random.Random(seed), 0)
    samples.append({'kind': 'ebgp2', 'text': t})
    return {'evaluations': evals, 'distinct_nontrivial': evals, 'bound': f'{batches} x {per} generated routes per session kind x {len(KINDS)} kinds ({", ".join(KINDS)}): IPv4/IPv6 unicast, multicast, labelled, VPN; next hop IPv4 / IPv6 / self; path-information; every standard attribute keyword at boundary values; each route encoded alone', 'rule': 'one case = (session kind, route text)', 'samples': samples, 'failures': fails}


@replayer('C01', 'text-to-wire')
def _replay(f):
    kind, text = f['input']['kind'], f['input']['text']
    if 'expected' not in f['input']:
        try:
            build(kind, [(text, None)])
        except Exception:  # noqa
            return False
        return True
    exp = exp_from_json(f['input']['expected'])
    try:
        nb, neg = build(kind, [(text, exp)])
    except Exception:  # noqa
        return False
    return len(nb.routes) == 1 and judge_route(kind, text, exp, nb, neg, nb.routes[0]) is None


@bounded('C01', 'grouped-routes')
def grouped_routes(tier, seed):
    """many routes sharing one attribute set in ONE collection, per session kind: every UPDATE fits the negotiated size,
    decodes under the session's rules, and together they carry exactly the written prefixes (with path-id 0 when ADD-PATH
    is on and none was written)"""
    from exabgp.bgp.message.update.collection import UpdateCollection, RoutedNLRI

    rnd = random.Random(seed)
    fails, evals = [], 0
    for kind in KINDS:
        for v6 in (False, True):
            count = rnd.choice([700, 850, 1000]) if tier == 'quick' else rnd.choice([700, 1000, 1500, 3000])
            routes = []
            for n in range(count):
                if v6:
                    routes.append((f'route 2001:db8:{n:x}::/48 next-hop 2001:db8:ffff::1 med 5', (2, 48, socket.inet_pton(socket.AF_INET6, f'2001:db8:{n:x}::')[:6])))
                else:
                    routes.append((f'route 10.{n >> 8}.{n & 255}.0/24 next-hop 192.0.2.1 med 5', (1, 24, bytes([10, n >> 8, n & 255]))))
            evals += 1
            inp = {'kind': kind, 'text': f'{count} x {routes[0][0]} ... (consecutive prefixes)', 'count': count, 'v6': v6}
            try:
                nb, neg = build(kind, [(t, None) for t, _ in routes])
            except Exception as e:  # noqa
                fails.append({'what': f'configuration refused: {str(e)[:150]}', 'input': inp})
                continue
            attrs = nb.routes[0].attributes
            try:
                msgs = [bytes(m) for m in UpdateCollection([RoutedNLRI(r.nlri, r.nexthop) for r in nb.routes], [], attrs).messages(neg)]
            except Exception as e:  # noqa
                fails.append({'what': f'messages() raised {type(e).__name__}: {str(e)[:120]}', 'input': inp})
                continue
            limit = 65535 if KINDS[kind].get('extended') else 4096
            got = []
            bad = None
            for m in msgs:
                if len(m) > limit:
                    bad = f'an UPDATE of {len(m)} bytes on a session whose maximum is {limit}'
                    break
                try:
                    d = decode_update(m, lambda a, s: sends_path_id(kind, a, s))
                except Exception as e:  # noqa
                    bad = f'an UPDATE does not decode under the session rules: {type(e).__name__} {e}'
                    break
                got += [(1,) + e for e in d['nlri']] + [(afi,) + e for afi, _s, _n, es in d['mp_reach'] for e in es]
            if bad:
                fails.append({'what': bad, 'input': inp})
                continue
            pid = 0 if sends_path_id(kind, 2 if v6 else 1, 1) else None
            want = sorted((afi, pid, (), None, mask, pfx) for _t, (afi, mask, pfx) in routes)
            if sorted(got, key=lambda e: (e[0], e[4], e[5])) != sorted(want, key=lambda e: (e[0], e[4], e[5])):
                fails.append({'what': f'the UPDATEs carry {len(got)} entries which are not exactly the {len(want)} written prefixes (path id {pid})', 'input': inp})
    return {'evaluations': evals, 'distinct_nontrivial': evals, 'bound': f'one collection of 700-1000 (thorough: up to 3000) consecutive /24 or /48 routes with one attribute set, per session kind ({len(KINDS)}) and per address family', 'rule': 'one case = (kind, family, count)', 'samples': [{'kind': 'addpath', 'count': 850}], 'failures': fails}


@replayer('C01', 'grouped-routes')
def _replay_grouped(f):
    r = grouped_routes('quick', 1)
    return not any(x['input']['kind'] == f['input']['kind'] and x['input']['v6'] == f['input']['v6'] for x in r['failures'])


def _probe(kind, text, exp):
    nb, neg = build(kind, [(text, exp)])
    return judge_route(kind, text, exp, nb, neg, nb.routes[0])


def _patched(obj, name, replacement, probe):
    real = obj.__dict__[name] if name in obj.__dict__ else getattr(obj, name)
    setattr(obj, name, replacement)
    try:
        return probe() is not None
    finally:
        setattr(obj, name, real)


_C_TEXT, _C_EXP = gen_route(random.Random(7), 3)


@harness_canary('C01', 'LOCAL_PREF sent to an eBGP peer')
def _hc_localpref():
    from exabgp.bgp.message.update.attribute.collection import AttributeCollection

    text = 'route 10.9.9.0/24 next-hop 192.0.2.1 local-preference 200'
    exp = {'afi': 1, 'safi': 1, 'mask': 24, 'prefix': bytes([10, 9, 9]), 'labels': (), 'rd': None, 'pid': None, 'nexthop': '192.0.2.1', 'attrs': {'local_pref': 200}}
    real = AttributeCollection.pack_attribute

    def wrong(self, negotiated, with_default=True):
        import copy

        n2 = copy.copy(negotiated)
        n2.peer_as = negotiated.local_as
        return real(self, n2, with_default)

    return _probe('ebgp4', text, exp) is None and _patched(AttributeCollection, 'pack_attribute', wrong, lambda: _probe('ebgp4', text, exp))


@harness_canary('C01', 'next-hop self resolved to the router-id')
def _hc_self():
    from exabgp.bgp.neighbor.session import Session

    text = 'route 10.9.9.0/24 next-hop self'
    exp = {'afi': 1, 'safi': 1, 'mask': 24, 'prefix': bytes([10, 9, 9]), 'labels': (), 'rd': None, 'pid': None, 'nexthop': 'self', 'attrs': {}}
    return _probe('ibgp4', text, exp) is None and _patched(Session, 'ip_self', lambda self, afi: self.router_id, lambda: _probe('ibgp4', text, exp))


@harness_canary('C01', 'label stack loses its last label')
def _hc_labels():
    from exabgp.bgp.message.update.nlri.qualifier.labels import Labels

    text = 'route 10.9.9.0/24 next-hop 192.0.2.1 label [ 100 200 ]'
    exp = {'afi': 1, 'safi': 4, 'mask': 24, 'prefix': bytes([10, 9, 9]), 'labels': (100, 200), 'rd': None, 'pid': None, 'nexthop': '192.0.2.1', 'attrs': {}}
    real = Labels.make_labels.__func__
    return _probe('ebgp4', text, exp) is None and _patched(Labels, 'make_labels', classmethod(lambda cls, labels, bos=True: real(cls, labels[:1], bos)), lambda: _probe('ebgp4', text, exp))


# ---------------------------------------------------------------------------------------------------------------------
# one route definition announced to SEVERAL neighbors (the API path: parsed once, Configuration.announce_route hands the
# same Route object to every selected neighbor): each session sends ITS OWN local address for "next-hop self", in
# whatever order the neighbors are served, and again after a withdraw / re-announce.
MANY = """
neighbor 127.0.0.{k} {{
	router-id 1.2.3.4;
	local-address {local};
	local-as 65000;
	peer-as {peer_as};
	family {{ ipv4 unicast; ipv6 unicast; }}
}}
"""
LOCALS = ['192.0.2.1', '198.51.100.1', '203.0.113.1']
# one route is shared by sessions of different kinds: eBGP, iBGP, eBGP
PEER_AS = [65001, 65000, 65003]


def _many_case(texts, order):
    from exabgp.configuration.configuration import Configuration
    from exabgp.bgp.message.update.collection import UpdateCollection
    from spec.update import decode_update

    from exabgp.rib import RIB

    inp = {'routes': texts, 'neighbor_order': order}
    RIB._cache.clear()  # one case = one ExaBGP process: the per-process Adj-RIB cache (keyed by neighbor name) starts empty
    conf_text = ''.join(MANY.format(k=k + 1, local=LOCALS[k], peer_as=PEER_AS[k]) for k in range(3))
    conf = Configuration([conf_text], text=True)
    if not conf.reload():
        raise RuntimeError(f'harness: three-neighbor configuration refused: {conf.error}')
    names = list(conf.neighbors.keys())
    if len(names) != 3:
        raise RuntimeError('harness: expected three neighbors')
    names = [names[i] for i in order]
    for text in texts:
        routes = conf.parse_route_text(text, 'announce')
        if len(routes) != 1:
            raise RuntimeError(f'harness: route text refused: {text}: {conf.error}')
        if not conf.announce_route(names, routes[0]):
            raise RuntimeError('harness: announce_route refused')
    for name in names:
        nb = conf.neighbors[name]
        local = str(nb.session.local_address)
        peer_as = int(nb.session.peer_as)
        neg, _, _ = H.negotiated(nb, H.peer_open_bytes(peer_as, 180, '9.9.9.9', H.std_caps(peer_as)))
        seen = {}
        ibgp = peer_as == 65000
        for u in nb.rib.outgoing.updates(False):
            if not isinstance(u, UpdateCollection):
                continue
            for m in u.messages(neg):
                d = decode_update(bytes(m), (lambda a, s: False))
                # the defaults of THIS session (RFC 4271 5.1.2 / 5.1.5), unless the operator wrote the attribute
                given = ' '.join(texts)
                by_type = {t: v for _f, t, v in d['attributes']}
                if d['nlri'] or d['mp_reach']:
                    if 'local-preference' not in given:
                        if ibgp and by_type.get(5) != (100).to_bytes(4, 'big'):
                            return {'what': f'one route announced to an eBGP and an iBGP neighbor: the iBGP session ({local}) sends LOCAL_PREF {by_type.get(5)!r}, expected 100', 'input': inp, 'session': local}
                        if not ibgp and 5 in by_type:
                            return {'what': f'one route announced to an eBGP and an iBGP neighbor: the eBGP session ({local}) sends a LOCAL_PREF', 'input': inp, 'session': local}
                    if 'as-path' not in given:
                        want_path = b'' if ibgp else bytes([2, 1]) + (65000).to_bytes(4, 'big')
                        if by_type.get(2) != want_path:
                            return {'what': f'one route announced to an eBGP and an iBGP neighbor: the {"iBGP" if ibgp else "eBGP"} session ({local}) sends AS_PATH {by_type.get(2, b"").hex()!r}, expected {want_path.hex()!r}', 'input': inp, 'session': local}
                nh3 = [v for _f, t, v in d['attributes'] if t == 3]
                for p in d['nlri']:
                    seen[str(p)] = ('.'.join(str(b) for b in nh3[0]) if nh3 else 'ABSENT')
                for _a, _s, nh, entries in d['mp_reach']:
                    for e in entries:
                        seen[str(e)] = nh.hex()
        for text in texts:
            v4 = ':' not in text.split()[1]
            vals = [v for k_, v in seen.items()]
            if v4 and 'next-hop self' not in text:
                if '192.0.2.254' not in vals:
                    return {'what': f'a route with next-hop 192.0.2.254 announced to three neighbors: the session {local} sends NEXT_HOP {sorted(set(vals))}', 'input': inp, 'session': local}
            elif v4:
                want = local
                if want not in vals or any(v in LOCALS and v != local for v in vals):
                    return {'what': f'"next-hop self" of a route announced to three neighbors: the session with local address {local} sends NEXT_HOP {sorted(set(vals))}', 'input': inp, 'session': local}
    return None


@bounded('C01', 'self-many-neighbors')
def self_many_neighbors(tier, seed):
    import itertools

    texts = [
        ['route 10.0.0.0/24 next-hop self'],
        ['route 10.0.0.0/24 next-hop self local-preference 200'],
        ['route 10.0.0.0/24 next-hop self', 'route 10.0.1.0/24 next-hop self med 5'],
        ['route 10.0.0.0/24 next-hop self community [ 65000:1 ] as-path [ 65010 65020 ]'],
        # an explicit next hop: resolve_self hands the SAME Route (one attribute collection) to every neighbor
        ['route 10.0.0.0/24 next-hop 192.0.2.254'],
        ['route 10.0.0.0/24 next-hop 192.0.2.254 med 7 community [ 65000:1 ]'],
    ]
    fails, evals = [], 0
    for tx in texts:
        for order in itertools.permutations(range(3)):
            evals += 1
            f = _many_case(tx, list(order))
            if f:
                fails.append(f)
    return {'evaluations': evals, 'distinct_nontrivial': evals, 'bound': '6 route sets (one or two ipv4 routes with "next-hop self" or an explicit next hop, with and without other attributes) x 6 orders of three neighbors (eBGP, iBGP, eBGP) with different local addresses: NEXT_HOP, and the AS_PATH / LOCAL_PREF defaults of each session; parsed once by Configuration.parse_route_text, handed to all by Configuration.announce_route, each Adj-RIB-Out drained and decoded by the reference decoder', 'rule': 'one case = (route texts, neighbor order)', 'samples': [{'routes': texts[0], 'neighbor_order': [0, 1, 2]}], 'failures': fails}


@replayer('C01', 'self-many-neighbors')
def _replay_many(f):
    return _many_case(f['input']['routes'], f['input']['neighbor_order']) is None


@harness_canary('C01', 'resolve_self swaps the NEXT_HOP inside the shared collection')
def _hc_shared_collection():
    from exabgp.bgp.neighbor.neighbor import Neighbor
    from exabgp.bgp.message.update.attribute import Attribute

    real = Neighbor.resolve_self

    def bad(self, route):
        r = real(self, route)
        if r is not route and Attribute.CODE.NEXT_HOP in route.attributes and Attribute.CODE.NEXT_HOP in r.attributes:
            nh = r.attributes[Attribute.CODE.NEXT_HOP]
            route.attributes.remove(Attribute.CODE.NEXT_HOP)
            route.attributes.add(nh)
        return r

    Neighbor.resolve_self = bad
    try:
        return _many_case(['route 10.0.0.0/24 next-hop self'], [0, 1, 2]) is not None
    finally:
        Neighbor.resolve_self = real


# ---------------------------------------------------------------------------------------------------------------------
# two routes queued in ONE flush window of the outgoing RIB: what a route is sent with does not depend on the route queued
# beside it.  The RIB groups routes by the index of their attribute collection: two collections which PACK differently
# and share an index leave with one another's attributes.
SHARING = [
    ('route 10.0.1.0/24 next-hop 192.0.2.1', 'route 10.0.0.0/24 next-hop 192.0.2.1 as-path [ ]'),
    ('route 10.0.1.0/24 next-hop 192.0.2.1 med 0', 'route 10.0.0.0/24 next-hop 192.0.2.1'),
    ('route 10.0.1.0/24 next-hop 192.0.2.1 local-preference 0', 'route 10.0.0.0/24 next-hop 192.0.2.1'),
    ('route 10.0.1.0/24 next-hop 192.0.2.1 origin igp', 'route 10.0.0.0/24 next-hop 192.0.2.1'),
    ('route 10.0.1.0/24 next-hop 192.0.2.1 as-path [ 65000 ]', 'route 10.0.0.0/24 next-hop 192.0.2.1 as-path ( 65000 )'),
    ('route 10.0.1.0/24 next-hop 192.0.2.1 community [ 65000:1 65000:2 ]', 'route 10.0.0.0/24 next-hop 192.0.2.1 community [ 65000:2 65000:1 ]'),
    ('route 10.0.1.0/24 next-hop 192.0.2.1 aggregator ( 65000:1.2.3.4 )', 'route 10.0.0.0/24 next-hop 192.0.2.1 atomic-aggregate'),
    ('route 10.0.1.0/24 next-hop 192.0.2.1 attribute [ 0x99 0xe0 0x01 ]', 'route 10.0.0.0/24 next-hop 192.0.2.1 attribute [ 0x99 0xe0 0x02 ]'),
    ('route 10.0.1.0/24 next-hop 192.0.2.1 extended-community [ target:65000:1 ]', 'route 10.0.0.0/24 next-hop 192.0.2.1 extended-community [ origin:65000:1 ]'),
    # extended communities which differ on the wire and PRINT alike (the attribute index is the text): 2-octet / 4-octet AS
    # specific, the transitive bit, the AS field of a traffic-rate
    ('route 10.0.1.0/24 next-hop 192.0.2.1 extended-community [ target:1:1 ]', 'route 10.0.0.0/24 next-hop 192.0.2.1 extended-community [ target:1L:1 ]'),
    ('route 10.0.1.0/24 next-hop 192.0.2.1 extended-community [ 0x0002000100000001 ]', 'route 10.0.0.0/24 next-hop 192.0.2.1 extended-community [ 0x4002000100000001 ]'),
    ('route 10.0.1.0/24 next-hop 192.0.2.1 extended-community [ 0x8006000042c80000 ]', 'route 10.0.0.0/24 next-hop 192.0.2.1 extended-community [ 0x8006123442c80000 ]'),
]


def _sent_attributes(kind, texts):
    """{prefix bytes: sorted [(type, value)]} for the routes of `texts` queued, in this order, in one outgoing RIB"""
    from exabgp.protocol.family import AFI, SAFI
    from exabgp.rib.outgoing import OutgoingRIB
    from .ribharness import route as mk
    from . import harness as H

    nb, neg = H.session(kind)
    rib = OutgoingRIB(True, {(AFI.ipv4, SAFI.unicast)})
    for t in texts:
        body = t.split(' ', 1)[1]
        pfx, rest = body.split(' next-hop 192.0.2.1', 1)
        rib.add_to_rib(nb.resolve_self(mk(pfx, None, extra=rest.strip())))
    out = {}
    for u in rib.updates(True):
        if not hasattr(u, 'messages'):
            continue
        for m in u.messages(neg, True):
            d = decode_update(bytes(m))
            attrs = sorted((t, bytes(v).hex()) for _f, t, v in d['attributes'] if t not in (14, 15))
            for e in d['nlri']:
                out[bytes(e[-1]).hex()] = attrs
    return out


def sharing_case(kind, a, b):
    inp = {'kind': kind, 'routes_in_one_window': [a, b]}
    try:
        alone = {**_sent_attributes(kind, [a]), **_sent_attributes(kind, [b])}
        together = _sent_attributes(kind, [a, b])
    except Exception as e:  # noqa
        return {'what': f'RIB / encoder raised {type(e).__name__}: {str(e)[:150]}', 'input': inp}
    if set(together) != set(alone):
        return {'what': f'two routes queued together: the prefixes sent are {sorted(together)} instead of {sorted(alone)}', 'input': inp}
    for pfx in sorted(alone):
        if together[pfx] != alone[pfx]:
            return {'what': 'a route queued in the same window as another one is sent with other attributes than when it is queued alone', 'input': inp, 'prefix': pfx, 'alone': str(alone[pfx]), 'together': str(together[pfx])}
    return None


@bounded('C01', 'routes-sharing-a-window')
def routes_sharing_a_window(tier, seed):
    fails, evals = [], 0
    for kind in ('ebgp4', 'ibgp4', 'ebgp2'):
        for a, b in SHARING:
            for x, y in ((a, b), (b, a)):
                evals += 1
                f = sharing_case(kind, x, y)
                if f:
                    fails.append(f)
    return {'evaluations': evals, 'distinct_nontrivial': evals, 'bound': f'{len(SHARING)} pairs of route texts whose attribute sets differ by little (no as-path / an empty one, a zero value / none, sequence / set, order inside a list, ...), both orders, 3 session kinds, queued in one flush window of the real OutgoingRIB: each route leaves with the attributes it leaves with when queued alone', 'rule': 'one case = (session kind, ordered pair)', 'samples': [{'routes_in_one_window': list(SHARING[0])}], 'failures': fails}


@replayer('C01', 'routes-sharing-a-window')
def _replay_sharing(f):
    return sharing_case(f['input']['kind'], *f['input']['routes_in_one_window']) is None
