"""bounded stand-ins: runtime checks of the same contracts / spec functions over a stated finite universe.
Never counted as proved; reported under bounded_* keys."""
BOUNDED = {}
REPLAYERS = {}


def bounded(pid, name):
    def deco(fn):
        BOUNDED[(pid, name)] = fn
        return fn

    return deco


def replayer(pid, name):
    def deco(fn):
        REPLAYERS[(pid, name)] = fn
        return fn

    return deco
