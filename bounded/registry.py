"""bounded stand-ins: runtime checks of the same contracts / spec functions over a stated finite universe.
Never counted as proved; reported under bounded_* keys."""
BOUNDED = {}
REPLAYERS = {}


def bounded(pid, name):
    def deco(fn):
        BOUNDED[(pid, name)] = fn
        return fn

    return deco


def replayer(pid, name):
    def deco(fn):
        REPLAYERS[(pid, name)] = fn
        return fn

    return deco


REGIONS = {}


def region(name):
    """a committed predicate over a failure record: True iff the failing input belongs to a recorded known finding.
    known_findings.json refers to it by name; it is code under version control, never written at run time."""

    def deco(fn):
        REGIONS[name] = fn
        return fn

    return deco
