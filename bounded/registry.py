"""bounded stand-ins: runtime checks of the same contracts / spec functions over a stated finite universe.
Never counted as proved; reported under bounded_* keys."""
BOUNDED = {}
REPLAYERS = {}


def bounded(pid, name):
    def deco(fn):
        BOUNDED[(pid, name)] = fn
        return fn

    return deco


def replayer(pid, name):
    def deco(fn):
        REPLAYERS[(pid, name)] = fn
        return fn

    return deco


REGIONS = {}


def region(name):
    """a committed predicate over a failure record: True iff the failing input belongs to a recorded known finding.
    known_findings.json refers to it by name; it is code under version control, never written at run time."""

    def deco(fn):
        REGIONS[name] = fn
        return fn

    return deco


HARNESS_CANARIES = {}


def harness_canary(pid, name):
    """a known-wrong behaviour injected IN MEMORY into the real code (monkeypatch, undone afterwards): the bounded harness
    must report it.  Returns True when caught.  A canary that survives means the harness or its oracle is blind:
    the check then exits 3 (engine unsound) instead of reporting the property as held."""

    def deco(fn):
        HARNESS_CANARIES[(pid, name)] = fn
        return fn

    return deco
