"""session harness shared by C05 and C10: the REAL Peer._run() (real FSM, real Protocol, real Incoming connection, real
timers) over a loopback TCP connection; the other end is a scripted remote speaker.  Recorded from outside, without any
hook in the repository: every FSM.change (wrapped on the peer's own FSM object), every message ExaBGP writes with the
FSM state at that moment (wrapped writer of the connection object), every neighbor event handed to Processes (a
recording stand-in for the reactor), and whether the transport is closed."""
import asyncio
import os
import socket
import struct

os.environ.setdefault('exabgp_log_enable', 'false')
os.environ.setdefault('exabgp_tcp_attempts', '0')

MARKER = b'\xff' * 16

CONF = """
neighbor 127.0.0.1 {{
    router-id 10.0.0.2;
    local-address 127.0.0.1;
    local-as {local_as};
    peer-as 65002;
    hold-time {hold};
    {extra}
    family {{
        ipv4 unicast;
    }}
    api events {{
        processes [ probe ];
        neighbor-changes;
    }}
}}
process probe {{
    run /bin/true;
    encoder json;
}}
"""


def msg(kind, body=b''):
    return MARKER + struct.pack('!HB', 19 + len(body), kind) + body


def open_msg(asn=65002, hold=180, rid='10.0.0.9', caps=None, version=4):
    if caps is None:
        caps = bytes([1, 4, 0, 1, 0, 1]) + bytes([2, 0]) + bytes([65, 4]) + struct.pack('!L', asn)
    params = bytes([2, len(caps)]) + caps if caps else b''
    body = bytes([version]) + struct.pack('!HH', asn if asn < 65536 else 23456, hold) + socket.inet_aton(rid)
    return msg(1, body + bytes([len(params)]) + params)


KEEPALIVE = msg(4)


def make_neighbor(hold=180, extra='', local_as='65001'):
    from exabgp.configuration.configuration import Configuration

    conf = Configuration([CONF.format(hold=hold, extra=extra, local_as=local_as)], text=True)
    if not conf.reload():
        raise RuntimeError('harness configuration refused: %s' % conf.error)
    (nb,) = conf.neighbors.values()
    return nb


def tcp_pair():
    listener = socket.socket(socket.AF_INET, socket.SOCK_STREAM)
    listener.bind(('127.0.0.1', 0))
    listener.listen(1)
    theirs = socket.socket(socket.AF_INET, socket.SOCK_STREAM)
    theirs.connect(listener.getsockname())
    ours, _ = listener.accept()
    listener.close()
    return ours, theirs


class Remote:
    def __init__(self, sock):
        self.sock = sock
        self.sock.setblocking(False)
        self.buffer = b''
        self.closed = False
        self.raw = b''

    async def send(self, data):
        try:
            await asyncio.get_event_loop().sock_sendall(self.sock, data)
        except OSError:
            self.closed = True

    async def _fill(self, timeout):
        try:
            data = await asyncio.wait_for(asyncio.get_event_loop().sock_recv(self.sock, 65536), timeout)
        except asyncio.TimeoutError:
            return False
        except OSError:
            self.closed = True
            return False
        if not data:
            self.closed = True
            return False
        self.buffer += data
        self.raw += data
        return True

    async def read_message(self, timeout=3.0):
        while True:
            if len(self.buffer) >= 19:
                length = struct.unpack('!H', self.buffer[16:18])[0]
                if len(self.buffer) >= length >= 19:
                    raw, self.buffer = self.buffer[:length], self.buffer[length:]
                    return raw[18], raw[19:]
            if self.closed or not await self._fill(timeout):
                return None

    async def drain_until_close(self, timeout=3.0):
        seen = []
        while True:
            got = await self.read_message(timeout)
            if got is None:
                return seen
            seen.append(got)


class Events:
    """what the reactor's Processes object is told (recording stand-in)"""

    def __init__(self, log):
        self.log = log
        self.silence = False

    def broken(self, neighbor):
        return False

    def up(self, neighbor):
        self.log.append(('api', 'up'))

    def down(self, neighbor, reason=''):
        self.log.append(('api', 'down'))

    def connected(self, neighbor):
        self.log.append(('api', 'connected'))

    def fsm(self, neighbor, fsm):
        self.log.append(('api', 'fsm', fsm.name()))

    def negotiated(self, neighbor, negotiated):
        pass

    def signal(self, neighbor, signal):
        pass

    def notification(self, *a, **k):
        pass

    def packets(self, *a, **k):
        pass

    def message(self, *a, **k):
        pass

    def __getattr__(self, name):
        # anything else the peer may call on Processes: accepted and ignored (recorded by name)
        def f(*a, **k):
            self.log.append(('api-other', name))

        return f


class Reactor:
    def __init__(self, log):
        self.processes = Events(log)
        self.log = log

    def __getattr__(self, name):
        def f(*a, **k):
            self.log.append(('reactor', name))
            return None

        return f


class Session:
    def __init__(self, hold=180, extra='', local_as='65001'):
        from exabgp.protocol.family import AFI
        from exabgp.reactor.network.incoming import Incoming
        from exabgp.reactor.peer import Peer
        from exabgp.reactor.protocol import Protocol

        self.log = []  # ('fsm', from, to) | ('sent', state, type, body) | ('api', ...) | ('closed', state)
        self.neighbor = make_neighbor(hold, extra, local_as)
        self.reactor = Reactor(self.log)
        self.peer = Peer(self.neighbor, self.reactor)
        ours, theirs = tcp_pair()
        self.remote = Remote(theirs)
        incoming = Incoming(AFI.ipv4, '127.0.0.1', '127.0.0.1', ours)
        self.peer.proto = Protocol(self.peer).accept(incoming)
        self.conn = self.peer.proto.connection
        self._wrap()
        self.task = None

    def _wrap(self):
        fsm = self.peer.fsm
        real_change = fsm.change
        log = self.log

        def change(state):
            log.append(('fsm', fsm.name(), None))
            r = real_change(state)
            log[-1] = ('fsm', log[-1][1], fsm.name())
            return r

        fsm.change = change
        conn = self.conn
        real_writer = conn.writer_async
        real_close = conn.close

        async def writer_async(data):
            raw = bytes(data)
            pos = 0
            while pos + 19 <= len(raw):
                ln = struct.unpack('!H', raw[pos + 16 : pos + 18])[0]
                log.append(('sent', fsm.name(), raw[pos + 18], raw[pos + 19 : pos + ln]))
                pos += max(ln, 19)
            return await real_writer(data)

        def close():
            log.append(('closed', fsm.name()))
            return real_close()

        conn.writer_async = writer_async
        conn.close = close

    def start(self):
        self.task = asyncio.ensure_future(self.peer._run())

    async def to_state(self, state, hold=180, peer_open=None):
        """drive the real peer to OPENSENT / OPENCONFIRM / ESTABLISHED"""
        from exabgp.bgp.fsm import FSM

        r = self.remote
        self.start()
        got = await r.read_message()
        if got is None or got[0] != 1:
            raise RuntimeError(f'harness: expected the OPEN of ExaBGP, got {got}')
        if state == 'OPENSENT':
            return
        await r.send(peer_open or open_msg(hold=hold))
        got = await r.read_message()
        if got is None or got[0] != 4:
            raise RuntimeError(f'harness: expected the KEEPALIVE of ExaBGP, got {got}')
        if state == 'OPENCONFIRM':
            return
        await r.send(KEEPALIVE)
        for _ in range(300):
            if self.peer.fsm == FSM.ESTABLISHED:
                break
            await asyncio.sleep(0.01)
        if self.peer.fsm != FSM.ESTABLISHED:
            raise RuntimeError('harness: the session did not reach ESTABLISHED')
        # let the main loop send its End-of-RIB
        await asyncio.sleep(0.15)

    async def finish(self, timeout=6):
        if self.task is not None:
            try:
                await asyncio.wait_for(self.task, timeout)
                return True
            except asyncio.TimeoutError:
                self.task.cancel()
                try:
                    await self.task
                except BaseException:  # noqa
                    pass
                return False
        return True

    def transport_closed(self):
        return self.conn.io is None or getattr(self.conn.io, 'fileno', lambda: -1)() == -1

    def cleanup(self):
        for s in (self.remote.sock, getattr(self.conn, 'io', None)):
            try:
                if s is not None:
                    s.close()
            except OSError:
                pass


def run(coro, timeout=20):
    loop = asyncio.new_event_loop()
    asyncio.set_event_loop(loop)
    try:
        return loop.run_until_complete(asyncio.wait_for(coro, timeout))
    finally:
        try:
            for t in asyncio.all_tasks(loop):
                t.cancel()
            loop.run_until_complete(asyncio.sleep(0))
        except Exception:  # noqa
            pass
        loop.close()
