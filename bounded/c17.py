"""bounded stand-in for C17 ("applies the difference"): real Configuration + real Reactor.reload + real Peer/RIB objects.
The session itself cannot run offline, so the two RIB-handling statement groups of Peer._main are EXTRACTED from its
source at run time (bounded/extract.py) and executed unmodified; everything else is the real code path.
After a successful reload (and re-establishment where the reload asks for one) the peer must hold exactly the routes
of the new configuration plus the still-valid API routes."""
import itertools
import random

from .registry import bounded, replayer
from .extract import runner
from .ribharness import Peer as PeerTable, key_of, route

NEIGHBOR = """
neighbor 127.0.0.1 {{
	router-id 1.2.3.4;
	local-address 127.0.0.1;
	local-as 65000;
	peer-as 65001;
	hold-time {hold};
	{extra}
	family {{ {families} }}
	static {{
{routes}
	}}
}}
"""
R = {'A': '10.0.1.0/24', 'B': '10.0.2.0/24', 'C': '10.0.3.0/24', 'V6': '2001:db8:1::/48'}


def config_text(spec):
    """spec: dict(routes={name: med}, hold=int, families=str, passive=bool)"""
    lines = []
    for name, med in sorted(spec['routes'].items()):
        nh = '2001:db8::1' if name == 'V6' else '192.0.2.1'
        lines.append(f'\t\troute {R[name]} next-hop {nh}' + (f' med {med}' if med is not None else '') + (' ' + spec['tail'][name] if name in spec.get('tail', {}) else '') + ';')
    extra = 'passive true;' if spec.get('passive') else ''
    if spec.get('nocache'):
        # no Adj-RIB-Out cache: adj-rib-out is off by default and only switched on by route-refresh
        extra += ' adj-rib-out false; capability { route-refresh disable; }'
    return NEIGHBOR.format(hold=spec.get('hold', 180), extra=extra, families=spec.get('families', 'ipv4 unicast;'), routes='\n'.join(lines))


class World:
    def __init__(self, first):
        from exabgp.configuration.configuration import Configuration
        from exabgp.reactor.loop import Reactor
        from exabgp.rib import RIB

        # one World = one ExaBGP process: the per-process Adj-RIB cache (RIB._cache, keyed by neighbor name) starts
        # empty, as it does when the daemon starts; inside a case it is left alone (surviving a reload is its purpose)
        RIB._cache.clear()
        self.session_up = runner('reactor/peer/peer.py', 'Peer._main', 'previous = self.neighbor.previous.routes', 'self.neighbor.previous = None')
        self.loop_reload = runner('reactor/peer/peer.py', 'Peer._main', 'if self._neighbor:')
        self.reactor = Reactor.__new__(Reactor)
        self.reactor.configuration = Configuration([config_text(first)], text=True)
        self.reactor._peers = {}
        self.reactor._ips = []
        self.reactor.listener = None
        self.tables = {}
        self.established = {}
        if not self.reactor.reload():
            raise ValueError(f'initial configuration refused: {self.reactor.configuration.error}')

    def peers(self):
        return self.reactor._peers

    def connect(self, key):
        """the session comes up: the remote table starts empty; Peer._main's session-up statements run"""
        from exabgp.bgp.fsm import FSM

        p = self.peers()[key]
        self.tables[key] = PeerTable()
        p.fsm.change(FSM.ESTABLISHED)
        self.established[key] = True
        self.session_up(self=p)

    def disconnect(self, key):
        from exabgp.bgp.fsm import FSM

        p = self.peers()[key]
        p._reset('session lost')
        p.fsm.change(FSM.IDLE)
        self.established[key] = False
        self.tables[key] = PeerTable()

    def turn(self, key):
        """one iteration of the main loop of an established peer: teardown -> reset + reconnect; reload block; send"""
        p = self.peers()[key]
        if not self.established.get(key):
            return
        if p._teardown:
            self.disconnect(key)
            if p._restart:
                self.connect(key)
            else:
                return
        self.loop_reload(self=p)
        _, neg = _session()
        for u in p.neighbor.rib.outgoing.updates(p.neighbor.group_updates):
            if hasattr(u, 'messages'):
                for m in u.messages(neg, True):
                    self.tables[key].receive(bytes(m))

    def reload(self, spec):
        self.reactor.configuration._configurations = [config_text(spec)]
        return self.reactor.reload()


_sess = []


def _session():
    from . import harness as H

    if not _sess:
        nb = H.neighbor(local_as=65000, peer_as=65001, families='ipv4 unicast; ipv6 unicast;')
        body = H.peer_open_bytes(65001, 180, '9.9.9.9', H.std_caps(65001))
        neg, _, _ = H.negotiated(nb, body)
        _sess.append((nb, neg))
    return _sess[0]


def expected_table(spec, api_routes):
    import socket

    out = {}
    for name, med in spec['routes'].items():
        if name == 'V6':
            if 'ipv6' not in spec.get('families', ''):
                continue
            k = (2, 48, socket.inet_pton(socket.AF_INET6, '2001:db8:1::')[:6])
            out[k] = ('2001:db8::1', med)
        else:
            k = (1, 24, socket.inet_aton(R[name].split('/')[0])[:3])
            # spec['ext'][name]: the extended communities of the route's tail as they are on the wire (hex)
            out[k] = ('192.0.2.1', med) + ((spec['ext'][name],) if name in spec.get('ext', {}) else ())
    for pfx, med in api_routes:
        k = (1, 24, socket.inet_aton(pfx.split('/')[0])[:3])
        out[k] = ('192.0.2.1', med)
    return out


def one_case(old, new, up_during_reload, api):
    inp = {'old': old, 'new': new, 'session_up_during_reload': up_during_reload, 'api_route': api}
    try:
        w = World(old)
        key = list(w.peers())[0]
        w.connect(key)
        w.turn(key)
        api_routes = []
        if api:
            r = route('10.9.9.0/24', 7)
            w.peers()[key].neighbor.rib.outgoing.add_to_rib(r)
            api_routes.append(('10.9.9.0/24', 7))
            w.turn(key)
        if not up_during_reload:
            w.disconnect(key)
        ok = w.reload(new)
        if ok is not True:
            return {'what': f'a valid new configuration was refused: {w.reactor.configuration.error}', 'input': inp}
        keys = list(w.peers())
        key2 = [k for k in keys if k in w.reactor.configuration.neighbors]
        if not key2:
            return None
        key2 = key2[0]
        if key2 != key:
            # neighbor name changed (new peer object): it connects from scratch, API routes of the old one are gone
            api_routes = []
            w.connect(key2)
        elif not up_during_reload:
            w.connect(key2)
        for _ in range(3):
            w.turn(key2)
    except Exception as e:  # noqa
        import traceback

        return {'what': f'reload path raised {type(e).__name__}: {str(e)[:200]}', 'input': inp, 'trace': traceback.format_exc()[-600:]}
    want = expected_table(new, api_routes)
    got = w.tables[key2].table
    if want != got:
        return {'what': 'after the reload the peer does not hold exactly the new configuration plus the API routes', 'input': inp, 'expected': str(sorted(want.items())), 'observed': str(sorted(got.items()))}
    return None


@bounded('C17', 'reload-pairs')
def reload_pairs(tier, seed):
    rnd = random.Random(seed)
    route_sets = [{'A': 10}, {'A': 10, 'B': None}, {'A': 20, 'B': None}, {'B': None, 'C': 5}, {'A': 10, 'B': None, 'C': 5}, {}]
    fails, evals, distinct, samples = [], 0, set(), []
    cases = []
    for old_r, new_r in itertools.product(route_sets, repeat=2):
        for hold_new in (180, 90):
            for up in (True, False):
                for api in (False, True):
                    cases.append((dict(routes=old_r, hold=180), dict(routes=new_r, hold=hold_new), up, api))
    # a family added together with a route in it
    for up in (True, False):
        cases.append((dict(routes={'A': 10}, hold=180), dict(routes={'A': 10, 'V6': None}, hold=180, families='ipv4 unicast; ipv6 unicast;'), up, False))
        cases.append((dict(routes={'A': 10}, hold=180), dict(routes={'A': 10, 'V6': None}, hold=90, families='ipv4 unicast; ipv6 unicast;'), up, True))
    # an attribute changed into one which PRINTS like it (the attribute index was the text): extended communities which
    # differ in their type octet / transitive bit / the AS field of a traffic-rate
    alike = []
    for a, b in ((('target:1:1', '0002000100000001'), ('target:1L:1', '0202000000010001')), (('0x0002000100000001', '0002000100000001'), ('0x4002000100000001', '4002000100000001')), (('0x8006000042c80000', '8006000042c80000'), ('0x8006123442c80000', '8006123442c80000'))):
        for x, y in ((a, b), (b, a)):
            for up in (True, False):
                alike.append((dict(routes={'A': 10, 'B': None}, hold=180, tail={'A': f'extended-community [ {x[0]} ]'}, ext={'A': x[1]}), dict(routes={'A': 10, 'B': None}, hold=180, tail={'A': f'extended-community [ {y[0]} ]'}, ext={'A': y[1]}), up, False))
    # a neighbor without Adj-RIB-Out cache (adj-rib-out false, route-refresh disabled): the difference must still be applied
    nocache = []
    for old_r, new_r in itertools.product(route_sets[:5], repeat=2):
        for up in (True, False):
            nocache.append((dict(routes=old_r, hold=180, nocache=True), dict(routes=new_r, hold=180, nocache=True), up, False))
    if tier == 'quick':
        rnd.shuffle(cases)
        rnd.shuffle(nocache)
        keep = [c for c in cases if 'V6' in c[1]['routes']] + nocache[:16] + alike
        cases = keep + [c for c in cases if 'V6' not in c[1]['routes']][:90]
    else:
        cases += nocache + alike
    for old, new, up, api in cases:
        evals += 1
        distinct.add(str((old, new, up, api)))
        f = one_case(old, new, up, api)
        if f:
            fails.append(f)
        if len(samples) < 3:
            samples.append({'old': old, 'new': new, 'session_up_during_reload': up, 'api_route': api})
    fails.sort(key=lambda f: len(str(f['input'])))
    return {'evaluations': evals, 'distinct_nontrivial': len(distinct), 'bound': '6 x 6 route sets (3 prefixes, attribute-only changes included) x {same, changed hold-time} x session up/down at reload x API route present/absent, plus family-added pairs, plus 12 pairs whose only change is an extended community which prints like the old one' + (' (sample of 90 + family cases in the quick tier)' if tier == 'quick' else ' (all 292)'), 'rule': 'one case = (old configuration, new configuration, session state, API route); distinct by value', 'samples': samples, 'failures': fails}


@replayer('C17', 'reload-pairs')
def _replay(f):
    i = f['input']
    return one_case(i['old'], i['new'], i['session_up_during_reload'], i['api_route']) is None


# ------------------------------------------------------------------------------------------------ reloads that FAIL

from .registry import region  # noqa: E402

N2 = """
neighbor 127.0.0.2 {{
	router-id 1.2.3.4;
	local-address 127.0.0.1;
	local-as 65000;
	peer-as 65002;
	family {{ ipv4 unicast; }}
	static {{
		route 10.7.0.0/24 next-hop {nh};
	}}
}}
"""


VALIDATE_FAULTS = {
    'undefined-process': 'api { processes [ nothere ]; }',
    'processes-and-match': 'api { processes [ nothere ]; processes-match [ "no.*" ]; }',
}


def failed_case(old, new, fault, up, api):
    """old/new: route specs of neighbor 1 (neighbor 2 is fixed); fault: where the new file is broken
    'first-block'  : syntax error inside neighbor 1's block (its routes are never applied)
    'later-block'  : neighbor 1's block is complete and valid, the error is in neighbor 2's block
    'missing-file' : the configuration file has disappeared
    'parser-raises': the parser raises while reading the new file
    A failed reload must leave neighbors, routes and sessions exactly as they were."""
    inp = {'old': old, 'new': new, 'fault': fault, 'session_up_during_reload': up, 'api_route': api, 'earlier_block_changed': old['routes'] != new['routes']}
    try:
        from exabgp.rib import RIB

        w = World(old)
        RIB._cache.clear()
        w.reactor._peers = {}
        w.reactor.configuration._configurations = [config_text(old) + N2.format(nh='192.0.2.1')]
        if w.reactor.reload() is not True:
            return {'what': f'initial two-neighbor configuration refused: {w.reactor.configuration.error}', 'input': inp}
        k1 = [k for k in w.peers() if '127.0.0.1 ' in k][0]
        k2 = [k for k in w.peers() if '127.0.0.2 ' in k][0]
        for k in (k1, k2):
            w.connect(k)
            w.turn(k)
        api_routes = []
        if api:
            w.peers()[k1].neighbor.rib.outgoing.add_to_rib(route('10.9.9.0/24', 7))
            api_routes.append(('10.9.9.0/24', 7))
            w.turn(k1)
        before_keys = sorted(w.reactor.configuration.neighbors)
        before_peers = {k: id(p) for k, p in w.peers().items()}
        if not up:
            w.disconnect(k1)
        cfg = w.reactor.configuration
        if fault == 'first-block':
            text = config_text(new).replace('\tstatic {\n', '\tstatic {\n\t\troute 10.0.9.0/24 next-hop;\n', 1) + N2.format(nh='192.0.2.1')
            cfg._configurations = [text]
        elif fault == 'later-block':
            cfg._configurations = [config_text(new) + N2.format(nh='')]
        elif fault == 'missing-file':
            cfg._text = False
            cfg._configurations = ['/nonexistent/exabgp.conf']
        elif fault == 'empty-file':
            cfg._configurations = ['']
        elif fault == 'comments-only':
            cfg._configurations = ['# everything was commented out\n# neighbor 127.0.0.1 { }\n']
        elif fault in VALIDATE_FAULTS:
            # every block is complete and valid; Configuration.validate() objects to the file as a whole
            cfg._configurations = [config_text(new) + N2.format(nh='192.0.2.1').replace('\tstatic {', '\t' + VALIDATE_FAULTS[fault] + '\n\tstatic {', 1)]
        elif fault == 'parser-raises':
            cfg._configurations = [config_text(new) + N2.format(nh='192.0.2.1')]
            real = cfg.parse_section

            def boom(name):
                raise RuntimeError('injected parser fault')

            cfg.parse_section = boom
        try:
            ok = w.reactor.reload()
        finally:
            if fault == 'parser-raises':
                cfg.parse_section = real
            cfg._text = True
        if ok is True:
            return {'what': 'a broken configuration was accepted', 'input': inp}
        if sorted(cfg.neighbors) != before_keys:
            return {'what': f'the failed reload changed the neighbor set: {len(before_keys)} -> {len(cfg.neighbors)}', 'input': inp}
        if {k: id(p) for k, p in w.peers().items()} != before_peers:
            return {'what': 'the failed reload replaced or removed peers', 'input': inp}
        if any(p._teardown for p in w.peers().values()):
            return {'what': 'the failed reload scheduled a session teardown', 'input': inp}
        if not up:
            w.connect(k1)
        for _ in range(3):
            w.turn(k1)
            w.turn(k2)
    except Exception as e:  # noqa
        import traceback

        return {'what': f'failed-reload path raised {type(e).__name__}: {str(e)[:200]}', 'input': inp, 'trace': traceback.format_exc()[-500:]}
    want = expected_table(old, api_routes)
    got = w.tables[k1].table
    if want != got:
        return {'what': 'a reload that FAILED changed the routes a peer holds', 'input': inp, 'expected_old_configuration': str(sorted(want.items())), 'observed': str(sorted(got.items()))}
    # ... and nothing of the rejected file survives: the operator corrects the file, the next reload must succeed (twice),
    # and the peer then holds exactly what the corrected file says -- no route which only the rejected file contained
    try:
        cfg._configurations = [config_text(new) + N2.format(nh='192.0.2.1')]
        for attempt in (1, 2):
            if w.reactor.reload() is not True:
                return {'what': f'after one rejected file, reload {attempt} of a CORRECT file fails: {str(cfg.error)[:160]}', 'input': inp}
            for _ in range(3):
                for k in list(w.peers()):
                    if '127.0.0.1 ' in k or '127.0.0.2 ' in k:
                        w.turn(k)
        k1b = [k for k in w.peers() if '127.0.0.1 ' in k][0]
        want2 = expected_table(new, api_routes)
        got2 = w.tables[k1b].table
        if want2 != got2:
            return {'what': 'after a rejected file and then the corrected one, the peer does not hold what the corrected file says', 'input': inp, 'expected_new_configuration': str(sorted(want2.items())), 'observed': str(sorted(got2.items()))}
    except Exception as e:  # noqa
        import traceback

        return {'what': f'reloading the corrected file raised {type(e).__name__}: {str(e)[:200]}', 'input': inp, 'trace': traceback.format_exc()[-500:]}
    return None


@region('C17-parse-time-rib-effects')
def parse_time_region(failure):
    """the recorded defect: configured routes (and RIB families) are applied to the live, per-process RIB while the file
    is being parsed, when a neighbor block completes -- before the reload is known to succeed.  It manifests exactly
    when the fault lies in a LATER block than a complete, valid block of an already configured neighbor whose route set
    differs from the running one (a file Configuration.validate() objects to as a whole is such a fault: every block
    has completed by then).  A fault inside the changed block itself, a missing file or a parser exception
    before any block completes are outside the region and stay enforced."""
    i = failure.get('input', {})
    return i.get('fault') in ('later-block',) + tuple(VALIDATE_FAULTS) and bool(i.get('earlier_block_changed')) and 'changed the routes a peer holds' in failure.get('what', '')


@bounded('C17', 'failed-reloads')
def failed_reloads(tier, seed):
    route_sets = [{'A': 10, 'B': None}, {'A': 20, 'B': None}, {'A': 10}, {'A': 10, 'B': None, 'C': 5}]
    fails, evals, distinct, samples = [], 0, set(), []
    for old_r, new_r in itertools.product(route_sets[:2] if tier == 'quick' else route_sets, route_sets):
        for fault in ('first-block', 'later-block', 'missing-file', 'parser-raises', 'empty-file', 'comments-only') + tuple(VALIDATE_FAULTS):
            for up in (True, False):
                for api in ((False,) if tier == 'quick' else (False, True)):
                    old, new = dict(routes=old_r, hold=180), dict(routes=new_r, hold=180)
                    evals += 1
                    distinct.add(str((old, new, fault, up, api)))
                    f = failed_case(old, new, fault, up, api)
                    if f:
                        fails.append(f)
                    if len(samples) < 3 and fault == 'later-block':
                        samples.append({'old': old, 'new': new, 'fault': fault, 'session_up_during_reload': up})
    return {'evaluations': evals, 'distinct_nontrivial': len(distinct), 'bound': '2 neighbors; (2 quick / 4) x 4 route sets of neighbor 1 x 8 fault kinds (inside the changed block, in a later block, missing file, parser exception, empty file, comments only, an api process which is not defined, processes together with processes-match) x session up/down (x API route in thorough)', 'rule': 'one case = (old, new, fault position, session state, API route); distinct by value', 'samples': samples, 'failures': fails}


@replayer('C17', 'failed-reloads')
def _replay_failed(f):
    i = f['input']
    return failed_case(i['old'], i['new'], i['fault'], i['session_up_during_reload'], i['api_route']) is None


# ------------------------------------------------------------------------------------------------ a neighbor removed by the reload


def _serves_connections(peer):
    """would this peer serve the remote's next connection?  The decision is the real `if self._restart:` gate of
    Peer.run(), extracted from its source and evaluated on the real object"""
    import ast
    from .extract import statements
    import exabgp.reactor.peer.peer as mod

    node = statements('reactor/peer/peer.py', 'Peer.run', 'if self._restart:')[0]
    return bool(eval(compile(ast.fix_missing_locations(ast.Expression(node.test)), '<Peer.run gate>', 'eval'), mod.__dict__, {'self': peer}))


class _LiveConnection:
    """stand-in for an open Protocol: only what Peer._stop()/_close() call on it"""

    connection = None

    def close(self, *args, **kwargs):
        self.closed = True


def removed_case(passive, up, readd=False):
    inp = {'removed_neighbor_passive': passive, 'session_up_during_reload': up, 'put_back_by_the_next_reload': readd}
    try:
        from exabgp.rib import RIB

        old1 = dict(routes={'A': 10}, hold=180)
        w = World(old1)
        RIB._cache.clear()
        w.reactor._peers = {}
        n2 = N2.format(nh='192.0.2.1').replace('\tfamily {{', '\tfamily {{') if False else N2.format(nh='192.0.2.1')
        if passive:
            n2 = n2.replace('\trouter-id 1.2.3.4;', '\trouter-id 1.2.3.4;\n\tpassive true;', 1)
        w.reactor.configuration._configurations = [config_text(old1) + n2]
        if w.reactor.reload() is not True:
            return {'what': f'initial configuration refused: {w.reactor.configuration.error}', 'input': inp}
        k2 = [k for k in w.peers() if '127.0.0.2 ' in k][0]
        p2 = w.peers()[k2]
        if up:
            w.connect(k2)
            w.turn(k2)
            p2.proto = _LiveConnection()  # a live connection exists (Reactor.active_peers looks at it)
        if not _serves_connections(p2):
            return {'what': 'harness: the configured neighbor is not served before the reload', 'input': inp}
        w.reactor.configuration._configurations = [config_text(old1)]
        if w.reactor.reload() is not True:
            return {'what': f'new configuration refused: {w.reactor.configuration.error}', 'input': inp}
        if _serves_connections(p2):
            return {'what': 'a neighbor removed by the reload would still be served (and announce the old configuration) when the remote connects', 'input': inp}
        if readd:
            # put back by the next reload, before the task of the removed peer has ended (it is still registered)
            w.reactor.configuration._configurations = [config_text(old1) + n2]
            if w.reactor.reload() is not True:
                return {'what': f'configuration with the neighbor put back refused: {w.reactor.configuration.error}', 'input': inp}
            back = [k for k in w.peers() if '127.0.0.2 ' in k]
            if not back or not _serves_connections(w.peers()[back[0]]):
                return {'what': 'a neighbor removed by one reload and put back by the next is not served any more: its peer is still the stopped one (no session, no route until yet another reload)', 'input': inp}
    except Exception as e:  # noqa
        import traceback

        return {'what': f'removal path raised {type(e).__name__}: {str(e)[:200]}', 'input': inp, 'trace': traceback.format_exc()[-500:]}
    return None


@bounded('C17', 'removed-neighbors')
def removed_neighbors(tier, seed):
    fails, evals = [], 0
    for passive in (False, True):
        for up in (True, False):
            for readd in (False, True):
                evals += 1
                f = removed_case(passive, up, readd)
                if f:
                    fails.append(f)
    return {'evaluations': evals, 'distinct_nontrivial': evals, 'exhaustive': True, 'bound': 'a second neighbor deleted by the new configuration: passive / active x session up / down x put back by the next reload (before the task of the removed peer has ended) or not', 'rule': 'one case = (passive, session state); all four distinct', 'samples': [{'removed_neighbor_passive': True, 'session_up_during_reload': False}], 'failures': fails}


@replayer('C17', 'removed-neighbors')
def _replay_removed(f):
    i = f['input']
    return removed_case(i['removed_neighbor_passive'], i['session_up_during_reload'], i.get('put_back_by_the_next_reload', False)) is None


# ---------------------------------------------------------------------------------------------------------------------
# several reloads with no turn of the peer loop in between (two SIGUSR1, an editor which writes twice: the main loop
# reloads again before the peer tasks run): the peer must end with the LAST configuration, whatever the intermediate ones
def chain_case(specs, up):
    inp = {'configurations': specs, 'session_up_during_reloads': up}
    try:
        w = World(specs[0])
        key = list(w.peers())[0]
        w.connect(key)
        w.turn(key)
        if not up:
            w.disconnect(key)
        for spec in specs[1:]:
            if w.reload(spec) is not True:
                return {'what': f'a valid new configuration was refused: {w.reactor.configuration.error}', 'input': inp}
        if key not in w.peers():
            return None
        if not up:
            w.connect(key)
        for _ in range(3):
            w.turn(key)
    except Exception as e:  # noqa
        import traceback

        return {'what': f'reload path raised {type(e).__name__}: {str(e)[:200]}', 'input': inp, 'trace': traceback.format_exc()[-600:]}
    want = expected_table(specs[-1], [])
    got = w.tables[key].table
    if want != got:
        return {'what': 'after several reloads in a row the peer does not hold exactly the last configuration', 'input': inp, 'expected': str(sorted(want.items())), 'observed': str(sorted(got.items()))}
    return None


@region('C17-attribute-flap-in-one-window')
def attribute_flap_region(failure):
    """the recorded defect C04-stale-attribute-bucket seen through reloads: within ONE flush window (reloads in a row, or
    reloads while the session is down) a prefix is queued under two different attribute sets and then changed or removed
    again; OutgoingRIB keeps the superseded entry in its old attribute bucket.  Only chains in which some prefix takes two
    different attribute values in the configurations AFTER the first; every other chain stays a violation."""
    confs = failure.get('input', {}).get('configurations') or []
    if 'after several reloads in a row' not in failure.get('what', '') or len(confs) < 4:
        return False
    for name in ('A', 'B', 'C'):
        vals = [c['routes'][name] for c in confs[1:] if name in c['routes']]
        if len(set(vals)) >= 2:
            return True
    return False


@bounded('C17', 'reloads-in-a-row')
def reloads_in_a_row(tier, seed):
    route_sets = [{'A': 10}, {'A': 10, 'B': None}, {'A': 20, 'B': None}, {'B': None, 'C': 5}, {}]
    fails, evals = [], 0
    chains = [c for c in itertools.product(route_sets, repeat=3)]
    if tier == 'thorough':
        chains += [c for c in itertools.product(route_sets[:4], repeat=4)]
    else:
        chains += [c for c in itertools.product(route_sets[:4], repeat=4)][5::17]
        chains.append((route_sets[0], route_sets[2], route_sets[0], route_sets[3]))  # the recorded attribute flap
    for chain in chains:
        for up in (True, False):
            evals += 1
            f = chain_case([dict(routes=r, hold=180) for r in chain], up)
            if f:
                fails.append(f)
    # one of the reloads also changes a session parameter (the session is re-established instead of reconfigured)
    for chain in itertools.product(route_sets[:4], repeat=3):
        for holds in ((180, 90, 90), (180, 90, 180), (180, 180, 90)):
            for up in (True, False):
                evals += 1
                f = chain_case([dict(routes=r, hold=h) for r, h in zip(chain, holds)], up)
                if f:
                    fails.append(f)
    fails.sort(key=lambda f: len(str(f['input'])))
    return {'evaluations': evals, 'distinct_nontrivial': evals, 'exhaustive': True, 'bound': f'every chain of 3 configurations (thorough: also 4) over {len(route_sets)} route sets (3 prefixes, an attribute-only change, the empty set), the reloads issued back to back with no turn of the peer loop in between, session up or down meanwhile; and 3-chains in which one reload changes the hold time (re-establishment)', 'rule': 'one case = (chain of configurations, session state)', 'samples': [{'configurations': [{'A': 10, 'B': None}, {'A': 10}, {'A': 10}]}], 'failures': fails[:20]}


@replayer('C17', 'reloads-in-a-row')
def _replay_chain(f):
    return chain_case(f['input']['configurations'], f['input']['session_up_during_reloads']) is None


# ---------------------------------------------------------------------------------------------------------------------
# routes which leave the configuration are gone for good: the watchdog they belonged to cannot bring them back
def watchdog_case(up):
    old = dict(routes={'A': 10, 'B': None, 'C': 5}, hold=180, tail={'B': 'watchdog dog', 'C': 'watchdog cat withdraw'})
    new = dict(routes={'A': 10}, hold=180)
    inp = {'old': old, 'new': new, 'session_up_during_reload': up, 'then': ['announce watchdog cat', 'withdraw watchdog dog', 'announce watchdog dog']}
    try:
        w = World(old)
        key = list(w.peers())[0]
        w.connect(key)
        w.turn(key)
        first = dict(w.tables[key].table)
        if not up:
            w.disconnect(key)
        if w.reload(new) is not True:
            return {'what': f'a valid new configuration was refused: {w.reactor.configuration.error}', 'input': inp}
        if not up:
            w.connect(key)
        for _ in range(3):
            w.turn(key)
        rib = w.peers()[key].neighbor.rib.outgoing
        rib.announce_watchdog('cat')
        rib.withdraw_watchdog('dog')
        rib.announce_watchdog('dog')
        for _ in range(3):
            w.turn(key)
    except Exception as e:  # noqa
        import traceback

        return {'what': f'reload path raised {type(e).__name__}: {str(e)[:200]}', 'input': inp, 'trace': traceback.format_exc()[-600:]}
    if up and len(first) != 2:
        return {'what': f'harness: the first table is not the two announced routes of the old configuration: {sorted(first.items())}', 'input': inp}
    want = expected_table(new, [])
    got = w.tables[key].table
    if want != got:
        return {'what': 'a route removed from the configuration was announced again through its watchdog', 'input': inp, 'expected': str(sorted(want.items())), 'observed': str(sorted(got.items()))}
    return None


def watchdog_added_case(up):
    """a reload ADDS a route which its watchdog holds back: like at start-up, it is not announced"""
    old = dict(routes={'A': 10}, hold=180)
    new = dict(routes={'A': 10, 'C': 5}, hold=180, tail={'C': 'watchdog cat withdraw'})
    inp = {'old': old, 'new': new, 'session_up_during_reload': up, 'then': []}
    try:
        w = World(old)
        key = list(w.peers())[0]
        w.connect(key)
        w.turn(key)
        if not up:
            w.disconnect(key)
        if w.reload(new) is not True:
            return {'what': f'a valid new configuration was refused: {w.reactor.configuration.error}', 'input': inp}
        if not up:
            w.connect(key)
        for _ in range(3):
            w.turn(key)
    except Exception as e:  # noqa
        return {'what': f'reload path raised {type(e).__name__}: {str(e)[:200]}', 'input': inp}
    want = expected_table(old, [])
    got = w.tables[key].table
    if want != got:
        return {'what': 'a route added by a reload and held back by its watchdog was announced (a start with the same file holds it back)', 'input': inp, 'expected': str(sorted(want.items())), 'observed': str(sorted(got.items()))}
    return None


@bounded('C17', 'watchdog-routes-removed')
def watchdog_routes_removed(tier, seed):
    fails = [f for f in (watchdog_case(True), watchdog_case(False), watchdog_added_case(True), watchdog_added_case(False)) if f]
    return {'evaluations': 4, 'distinct_nontrivial': 4, 'bound': 'a reload which adds a route held back by its watchdog (not announced, as at start-up); and one history (a configured route of watchdog dog, announced; one of watchdog cat, held back; both removed by a reload; then announce watchdog cat / withdraw watchdog dog / announce watchdog dog), session up or down during the reload', 'rule': 'one case = session state', 'samples': [{'session_up_during_reload': True}], 'failures': fails}


@replayer('C17', 'watchdog-routes-removed')
def _replay_watchdog(f):
    if not f['input'].get('then'):
        return watchdog_added_case(f['input']['session_up_during_reload']) is None
    return watchdog_case(f['input']['session_up_during_reload']) is None


# ------------------------------------------------------------------------------------------------ templates

TEMPLATES = {'t1': ['10.1.0.0/24'], 't2': ['10.2.0.0/24'], 't3': ['10.3.0.0/24', '10.3.1.0/24']}
BASE = 'local-as 65000; peer-as 65001; router-id 192.0.2.9; local-address 127.0.0.1;'


def template_text(blocks):
    """blocks: [(address, (template names), [own prefixes])] in file order"""
    out = ['template {']
    for name, prefixes in TEMPLATES.items():
        out.append(' neighbor %s { %s static { %s } }' % (name, BASE if name == 't1' else '', ' '.join(f'route {p} next-hop 192.0.2.1;' for p in prefixes)))
    out.append('}')
    for addr, names, own in blocks:
        inherit = f'inherit {names[0]};' if len(names) == 1 else 'inherit [ %s ];' % ' '.join(names)
        static = ' static { %s }' % ' '.join(f'route {p} next-hop 192.0.2.1;' for p in own) if own else ''
        out.append('neighbor %s { %s %s%s }' % (addr, inherit, '' if 't1' in names else BASE, static))
    return '\n'.join(out) + '\n'


def template_case(blocks):
    from exabgp.configuration.configuration import Configuration
    from exabgp.rib import RIB

    inp = {'blocks': [list(b[:1]) + [list(b[1]), list(b[2])] for b in blocks], 'configuration': template_text(blocks)}
    RIB._cache.clear()
    c = Configuration([template_text(blocks)], text=True)
    try:
        ok = c.reload()
    except Exception as e:  # noqa
        return {'what': f'configuration raised {type(e).__name__}: {str(e)[:160]}', 'input': inp}
    if ok is not True:
        return {'what': 'a configuration using templates in the documented forms (inherit <name>; inherit [ <name> <name> ];) was refused: ' + str(c.error).replace('\n', ' | ')[:200], 'input': inp}
    got = {k.split()[1]: sorted(str(r.nlri.cidr.prefix()) if hasattr(r.nlri, 'cidr') else str(r.nlri) for r in n.routes) for k, n in c.neighbors.items()}
    want = {addr: sorted(set(p for n in names for p in TEMPLATES[n]) | set(own)) for addr, names, own in blocks}
    if got != want:
        return {'what': 'the routes of a neighbor are not those of the templates it names plus its own (they depend on the other blocks of the file)', 'input': inp, 'expected': want, 'observed': got}
    return None


@bounded('C17', 'templates-in-any-order')
def templates_in_any_order(tier, seed):
    """PROPERTY: every peer ends up holding exactly the routes of the new configuration.  The routes of a neighbor are those of
    the templates it inherits plus its own -- whatever the other neighbors inherit, in whatever order the blocks are."""
    kinds = [(('t1',), []), (('t1', 't2'), []), (('t2',), []), (('t1', 't3'), ['10.9.0.0/24']), (('t2', 't1'), []), (('t3', 't2', 't1'), [])]
    fails, evals, distinct = [], 0, set()
    n = 2 if tier == 'quick' else 3
    for combo in itertools.permutations(range(len(kinds)), n):
        blocks = [('127.0.0.%d' % (2 + i), kinds[k][0], kinds[k][1]) for i, k in enumerate(combo)]
        evals += 1
        distinct.add(str(blocks))
        f = template_case(blocks)
        if f:
            fails.append(f)
    fails.sort(key=lambda f: len(f['input']['configuration']))
    return {'evaluations': evals, 'distinct_nontrivial': len(distinct), 'bound': f'3 templates; every ordered choice of {n} neighbor blocks out of 6 kinds (one template, two or three in list form in either order, with and without routes of their own)', 'rule': 'one case = the ordered blocks; reference = union of the named templates and the own routes', 'samples': [{'blocks': [['127.0.0.2', ['t1', 't2'], []], ['127.0.0.3', ['t1'], []]]}], 'failures': fails}


@replayer('C17', 'templates-in-any-order')
def _replay_templates(f):
    return template_case([(b[0], tuple(b[1]), list(b[2])) for b in f['input']['blocks']]) is None
