"""bounded stand-in for C20: the REAL healthcheck loop() under a scripted check / clock, every boolean history up to
a bound x option sets; what is written is compared with a reference automaton and every line is parsed by the real
route parser"""
import argparse
import itertools
import random
import re
import sys
from io import StringIO
from ipaddress import ip_network
from unittest.mock import patch

from .registry import bounded, replayer

DEFAULTS = dict(
    ips=[ip_network('192.0.2.1/32'), ip_network('192.0.2.2/32')], next_hop=None, withdraw_on_down=False, rise=2, fall=2, command='scripted', timeout=0, interval=5, fast=1,
    increase=1, up_metric=100, down_metric=1000, disabled_metric=500, local_preference=-1, community=None, disabled_community=None, extended_community=None,
    large_community=None, as_path=None, up_as_path=None, down_as_path=None, disabled_as_path=None, path_id=None, neighbors=None, disable=None, ip_dynamic=False,
    ip_setup=False, ip_ifnames={}, debounce=False, no_ack=True, label=None, label_exact_match=False, sudo=False, execute=None, up_execute=None, down_execute=None, disabled_execute=None,
)


def run(history, opts, stop='interrupt'):
    """-> (per-round lines, exit lines)"""
    from exabgp.application import healthcheck

    options = argparse.Namespace(**{**DEFAULTS, **opts})
    out = StringIO()
    marks = []
    results = list(history)

    def scripted_check(cmd, timeout):
        marks.append(len(out.getvalue()))
        return results.pop(0)

    def scripted_sleep(seconds):
        if not results:
            marks.append(len(out.getvalue()))
            raise KeyboardInterrupt

    run.last_output = out
    with patch.object(sys, 'stdout', out), patch('signal.signal'), patch.object(healthcheck, 'check', scripted_check), patch.object(healthcheck.time, 'sleep', scripted_sleep):
        healthcheck.loop(options)
    text = out.getvalue()
    marks.append(len(text))
    rounds = [[ln for ln in text[marks[i] : marks[i + 1]].split('\n') if ln] for i in range(len(history))]
    exit_lines = [ln for ln in text[marks[len(history)] :].split('\n') if ln]
    return rounds, exit_lines


_cfg = []


def parse_line(line):
    """the route text of an API line through the real route parser -> Route"""
    from exabgp.configuration.configuration import Configuration

    if not _cfg:
        _cfg.append(Configuration([], text=True))
    m = re.match(r'^(peer \*|peer [0-9a-f.:]+(?:, peer [0-9a-f.:]+)*) (announce|withdraw) (route .*)$', line)
    if not m:
        raise ValueError('not of the form `peer <sel> announce|withdraw route ...`')
    routes = _cfg[0].parse_route_text(m.group(3), m.group(2))
    if len(routes) != 1:
        raise ValueError(f'{len(routes)} routes parsed')
    return m.group(2), routes[0]


def one_case(history, opts):
    from spec.healthcheck import announced_states

    inp = {'history': ''.join('S' if h else 'F' for h in history), 'options': {k: (str(v) if k == 'ips' else v) for k, v in opts.items()}}
    try:
        rounds, exit_lines = run(history, opts)
    except Exception as e:  # noqa
        return {'what': f'loop() raised {type(e).__name__}: {e}', 'input': inp}
    o = {**DEFAULTS, **opts}
    exp = announced_states(history, o['rise'], o['fall'])
    metric_of = {'UP': o['up_metric'], 'DOWN': o['down_metric']}
    last = None
    for i, lines in enumerate(rounds):
        said = set()
        for k, ln in enumerate(lines):
            try:
                action, route = parse_line(ln)
            except Exception as e:  # noqa
                return {'what': f'line is not a valid API command: {ln!r}: {type(e).__name__}: {str(e)[:120]}', 'input': inp}
            if action == 'withdraw':
                said.add('WITHDRAW')
                continue
            med = re.search(r' med (\d+)', ln)
            med = int(med.group(1)) if med else None
            base = med - k * o['increase'] if med is not None else None
            kind = 'UP' if base == o['up_metric'] else 'DOWN' if base == o['down_metric'] else f'med={med}'
            said.add(kind)
            want_comm = o['disabled_community'] if (kind == 'DOWN' and o['disabled_community']) else o['community']
            if want_comm and f'community [ {want_comm} ]' not in ln:
                return {'what': f'round {i}: line for {kind} does not carry the configured community {want_comm}: {ln!r}', 'input': inp}
            if o['as_path'] and f'as-path [ {o["as_path"]} ]' not in ln:
                return {'what': f'round {i}: line does not carry the configured as-path: {ln!r}', 'input': inp}
            if str(route.nlri.cidr if hasattr(route.nlri, 'cidr') else route.nlri).split('/')[0] not in ln:
                return {'what': f'parsed route {route.nlri} does not match the line {ln!r}', 'input': inp}
        if o['withdraw_on_down']:
            said = {'DOWN' if s == 'WITHDRAW' else s for s in said}
        seen = history[: i + 1]
        up_ok = len(seen) >= o['rise'] and all(seen[-o['rise'] :])
        down_ok = len(seen) >= o['fall'] and not any(seen[-o['fall'] :])
        # safety: UP is only ever written after `rise` consecutive successes, DOWN after `fall` consecutive failures
        if 'UP' in said and not up_ok:
            return {'what': f'round {i}: UP announced without {o["rise"]} consecutive successes', 'input': inp, 'lines': lines}
        if 'DOWN' in said and not down_ok:
            return {'what': f'round {i}: DOWN announced / withdrawn without {o["fall"]} consecutive failures', 'input': inp, 'lines': lines}
        if said - {'UP', 'DOWN'}:
            return {'what': f'round {i}: unexpected content {sorted(said)}', 'input': inp, 'lines': lines}
        # progress: enough consecutive results always produce the announcement (once, with --debounce)
        for ok_, kind in ((up_ok, 'UP'), (down_ok, 'DOWN')):
            if ok_ and kind not in said and not (o['debounce'] and last == kind):
                return {'what': f'round {i}: {kind} not announced although the last results call for it', 'input': inp, 'lines': lines}
        if said:
            last = sorted(said)[-1]
    if len(exit_lines) != len(o['ips']) or not all(' withdraw ' in ln for ln in exit_lines):
        return {'what': f'on exit the routes are not all withdrawn: {exit_lines}', 'input': inp}
    return None


@bounded('C20', 'histories')
def histories(tier, seed):
    bound = 6 if tier == 'quick' else 10
    option_sets = [
        dict(rise=1, fall=1), dict(rise=2, fall=3), dict(rise=3, fall=2), dict(rise=3, fall=3, debounce=True), dict(rise=2, fall=2, withdraw_on_down=True),
        dict(rise=2, fall=2, community='65000:1', disabled_community='65000:666', as_path='65000 65001', local_preference=200, increase=7),
        dict(rise=2, fall=2, disabled_community='65000:666', large_community='1:2:3', extended_community='target:65000:1', path_id=4, next_hop='10.0.0.1'),
    ]
    fails, evals, distinct, samples = [], 0, set(), []
    for opts in option_sets:
        for n in range(1, bound + 1):
            for h in itertools.product((True, False), repeat=n):
                evals += 1
                distinct.add((str(opts), h))
                f = one_case(h, opts)
                if f:
                    fails.append(f)
                    break
            if fails and fails[-1]['input']['options'] == {k: (str(v) if k == 'ips' else v) for k, v in opts.items()}:
                break
        samples.append({'options': opts, 'history': 'SSFFS'})
    return {'evaluations': evals, 'distinct_nontrivial': len(distinct), 'exhaustive': True, 'bound': f'every boolean history of length 1..{bound} x 7 option sets (rise/fall, debounce, withdraw-on-down, communities, as-path, metrics, path-id, next hop), 2 addresses', 'rule': 'one case = (option set, history); all distinct', 'samples': samples[:3], 'failures': fails}


@replayer('C20', 'histories')
def _replay(f):
    h = tuple(c == 'S' for c in f['input']['history'])
    opts = {k: v for k, v in f['input']['options'].items() if k != 'ips'}
    return one_case(h, opts) is None


# ---------------------------------------------------------------------------------------------------------------------
# the lines the helper writes are API commands: whatever --neighbor options it was given, the REAL v6 dispatcher must
# route every line to exactly the neighbors named (all of them for none / '*'), never refuse it for its selector
_NEIGHBORS = ['10.0.0.2', '10.0.0.3', '10.0.0.4']


class _SelReactor:
    """the two things the dispatcher asks a reactor: the peer names of a service, and the neighbor of a name"""

    def __init__(self):
        from exabgp.configuration.configuration import Configuration

        text = 'process hc { run /bin/true; encoder json; }\n' + ''.join(
            f'neighbor {a} {{ router-id 1.2.3.4; local-address 10.0.0.1; local-as 65000; peer-as 6500{k}; family {{ ipv4 unicast; }} api {{ processes [ hc ]; }} }}\n' for k, a in enumerate(_NEIGHBORS)
        )
        self.configuration = Configuration([text], text=True)
        if not self.configuration.reload():
            raise RuntimeError(f'harness: configuration refused: {self.configuration.error}')

    def peers(self, service=''):
        return list(self.configuration.neighbors.keys())

    def neighbor(self, name):
        return self.configuration.neighbors.get(name)

    def neighbor_name(self, name):
        return name

    def neighbor_ip(self, name):
        return str(self.configuration.neighbors[name].session.peer_address)

    def __getattr__(self, name):
        raise AttributeError(name)


def _selector_case(neighbors):
    from ipaddress import ip_address
    from exabgp.reactor.api.dispatch import dispatch_v6

    opts = {'neighbors': [ip_address(n) if n != '*' else n for n in neighbors] if neighbors else None, 'rise': 1, 'fall': 1}
    inp = {'neighbors': list(neighbors)}
    rounds, exit_lines = run([True, False], opts)
    lines = [ln for r in rounds for ln in r] + exit_lines
    if not lines:
        raise RuntimeError('harness: the helper wrote nothing')
    reactor = _SelReactor()
    want = set(reactor.peers()) if (not neighbors or '*' in neighbors) else {n for n in reactor.peers() if any(f'neighbor {a} ' in n + ' ' for a in neighbors)}
    for ln in lines:
        try:
            _handler, peers, _rest = dispatch_v6(ln, reactor, 'hc')
        except Exception as e:  # noqa
            return {'what': f'a line written by the helper is refused by the API dispatcher ({type(e).__name__}: {str(e)[:80]}): {ln!r}', 'input': inp}
        if set(peers) != want:
            return {'what': f'a line written by the helper reaches {sorted(str(p)[:30] for p in peers)} instead of the {len(want)} neighbors named: {ln!r}', 'input': inp}
    return None


@bounded('C20', 'selector-of-written-lines')
def selector_of_written_lines(tier, seed):
    cases = [[], ['*'], ['10.0.0.2'], ['10.0.0.2', '10.0.0.3'], ['10.0.0.3', '10.0.0.4', '10.0.0.2']]
    fails = []
    for nb in cases:
        f = _selector_case(nb)
        if f:
            fails.append(f)
    return {'evaluations': len(cases), 'distinct_nontrivial': len(cases), 'bound': 'no / one / two / three --neighbor options and the wildcard: every line written over an up-down-exit history through the real v6 API dispatcher of a three-neighbor configuration', 'rule': 'one case = one list of --neighbor options', 'samples': [{'neighbors': ['10.0.0.2', '10.0.0.3']}], 'failures': fails}


@replayer('C20', 'selector-of-written-lines')
def _replay_selector(f):
    return _selector_case(f['input']['neighbors']) is None


# ---------------------------------------------------------------------------------------------------------------------
# "every line it writes is a syntactically valid ExaBGP API command carrying the configured metric, communities, AS path
# and next hop": the advertising options one at a time at and beyond the boundaries of the fields they end up in, through
# the REAL argument parser (a refusal there is an outcome) and the real loop; every written line through the real route
# parser, and the parsed route must say what the option said
BASE_ARGV = ['--no-ack', '--no-ip-setup', '--command', 'scripted', '--rise', '2', '--fall', '2', '--ip', '192.0.2.1/32', '--ip', '192.0.2.2/32']


def option_variations():
    v = []
    for m in ('--up-metric', '--down-metric'):
        for x in ('0', '1', '4294967294', '4294967295', '4294967296', '-1'):
            v.append([m, x])
    for x in ('0', '-1', '-200', '4294967295'):
        v.append(['--increase', x])
    v.append(['--up-metric', '4294967295', '--increase', '0'])
    for x in ('0', '1', '4294967295', '4294967296'):
        v.append(['--local-preference', x])
    for x in ('0', '1', '4294967295', '4294967296', '-1'):
        v.append(['--path-id', x])
    for x in ('65000:1', '65000:1 65000:2', 'no-export', '65535:65535', '4294967295'):
        v.append(['--community', x])
        v.append(['--disabled-community', x])
    for x in ('1:2:3', '4294967295:0:1 1:1:1'):
        v.append(['--large-community', x])
    for x in ('target:65000:1', 'origin:1.2.3.4:5', 'target:65000:1 origin:65001:2', 'target:65000:4294967295'):
        v.append(['--extended-community', x])
    for opt in ('--as-path', '--up-as-path', '--down-as-path'):
        for x in ('65000', '65000 65001', '4200000001', '4294967295 1'):
            v.append([opt, x])
    for x in ('10.0.0.1', '2001:db8::1'):
        v.append(['--next-hop', x])
    v.append(['--withdraw-on-down'])
    v.append(['--debounce'])
    v.append(['--neighbor', '10.0.0.2'])
    v.append(['--neighbor', '10.0.0.2', '--neighbor', '2001:db8::2'])
    return v


ALT_IPS = [['--ip', '2001:db8::1/128', '--ip', '2001:db8::2/128'], ['--ip', '192.0.2.0/30', '--deaggregate-networks'], ['--ip', '192.0.2.0/24'], ['--ip', '2001:db8::/64', '--ip', '192.0.2.9/32']]


def option_case(argv):
    from exabgp.application import healthcheck

    inp = {'argv': argv}
    err = StringIO()
    try:
        with patch.object(sys, 'argv', ['healthcheck'] + argv), patch.object(sys, 'stderr', err):
            options = healthcheck.parse()
    except SystemExit:
        return None  # refused by the argument parser with a message: nothing is ever written
    except Exception as e:  # noqa
        return {'what': f'the argument parser answered with {type(e).__name__}: {str(e)[:120]}', 'input': inp}
    if options.deaggregate_networks:
        options.ips = [ip_network(ip) for net in options.ips for ip in net]  # what main() does before loop()
    if options.neighbors:
        options.neighbors = [str(n) for n in options.neighbors]
    history = (True, True, False, False, True, True)
    opts = dict(vars(options))
    try:
        rounds, exit_lines = run(history, opts)
    except ValueError as e:
        if run.last_output.getvalue() == '':
            return None  # refused with a message before anything was written (main() logs it and exits 1)
        return {'what': f'loop() raised ValueError after it had written lines: {str(e)[:120]}', 'input': inp}
    except Exception as e:  # noqa
        return {'what': f'loop() raised {type(e).__name__}: {str(e)[:120]}', 'input': inp}
    o = argparse.Namespace(**opts)
    for lines in rounds + [exit_lines]:
        for k, ln in enumerate(lines):
            try:
                action, route = parse_line_any(ln)
            except Exception as e:  # noqa
                return {'what': f'a line written is not a valid API command: {ln!r}: {type(e).__name__}: {str(e)[:120]}', 'input': inp}
            if action != 'announce':
                continue
            text = route.extensive()
            med = re.search(r' med (\d+)', ln)
            state = None
            if med:
                for name in ('up', 'down', 'disabled'):
                    if int(med.group(1)) == getattr(o, f'{name}_metric') + k * o.increase:
                        state = name
            if state is None:
                return {'what': f'the metric of a line is not the configured metric of any state for address number {k}: {ln!r}', 'input': inp}
            want = [f'med {getattr(o, state + "_metric") + k * o.increase}']
            if o.local_preference >= 0:
                want.append(f'local-preference {o.local_preference}')
            if o.path_id:
                want.append('path-information ' + '.'.join(str(b) for b in o.path_id.to_bytes(4, 'big')))
            for w in want:
                if w not in text:
                    return {'what': f'the route the daemon parses from the line does not carry `{w}`: {text!r} from {ln!r}', 'input': inp}
    return None


def parse_line_any(line):
    """like parse_line, with the bracketed selector of several neighbors"""
    from exabgp.configuration.configuration import Configuration

    if not _cfg:
        _cfg.append(Configuration([], text=True))
    m = re.match(r'^(peer \*|peer [0-9a-f.:]+|peer \[ [0-9a-f.: ,]+ \]) (announce|withdraw) (route .*)$', line)
    if not m:
        raise ValueError('not of the form `peer <selector> announce|withdraw route ...`')
    routes = _cfg[0].parse_route_text(m.group(3), m.group(2))
    if len(routes) != 1:
        raise ValueError(f'{len(routes)} routes parsed: {_cfg[0].error}')
    return m.group(2), routes[0]


@bounded('C20', 'advertising-options-at-their-boundaries')
def option_sweep(tier, seed):
    fails, evals = [], 0
    cases = [BASE_ARGV + v for v in option_variations()]
    base_no_ip = BASE_ARGV[: BASE_ARGV.index('--ip')]
    for ips in ALT_IPS:
        cases.append(base_no_ip + ips)
        cases.append(base_no_ip + ips + ['--up-metric', '4294967295'])
        cases.append(base_no_ip + ips + ['--path-id', '7', '--community', '65000:1', '--as-path', '65000'])
    for argv in cases:
        evals += 1
        f = option_case(argv)
        if f:
            fails.append(f)
    return {'evaluations': evals, 'distinct_nontrivial': evals, 'bound': 'each advertising option alone at and beyond the boundary of the field it ends in (metrics and increase around 0 and 2^32, local preference, path id; attribute strings are values the route grammar accepts -- the helper passes them through unvalidated, control characters apart: communities, large and extended communities, the three as-path options, next hop of either family, neighbors), 4 address sets (IPv6, a deaggregated /30, a network, mixed families); through the real argument parser and the real loop over the history SSFFSS + exit; every line through the real route parser', 'rule': 'one case = one argument vector', 'samples': [{'argv': cases[0]}], 'failures': fails}


@replayer('C20', 'advertising-options-at-their-boundaries')
def _replay_options(f):
    return option_case(f['input']['argv']) is None


# ---------------------------------------------------------------------------------------------------------------------
# "and withdraws its routes on exit": whatever ends the loop -- ^C or an exception while the CHECK runs (not only during
# the sleep between two checks) -- the last lines written withdraw every address
def interrupted_case(kind, at):
    from exabgp.application import healthcheck

    history = [True, True, True, True]
    options = argparse.Namespace(**{**DEFAULTS, 'rise': 1, 'fall': 1})
    out = StringIO()
    calls = []

    def scripted_check(cmd, timeout):
        calls.append(1)
        if len(calls) - 1 == at:
            raise (KeyboardInterrupt() if kind == 'interrupt' else BlockingIOError(11, 'fork: resource temporarily unavailable'))
        return history[len(calls) - 1]

    def scripted_sleep(seconds):
        if len(calls) >= len(history):
            raise KeyboardInterrupt

    inp = {'ends_with': kind, 'during_check_number': at}
    with patch.object(sys, 'stdout', out), patch('signal.signal'), patch.object(healthcheck, 'check', scripted_check), patch.object(healthcheck.time, 'sleep', scripted_sleep):
        try:
            healthcheck.loop(options)
        except KeyboardInterrupt:
            return {'what': '^C while the check command runs leaves loop() as an exception: nothing is withdrawn', 'input': inp, 'written': out.getvalue().split('\n')[-4:]}
        except BlockingIOError:
            pass  # main() logs it and exits 1 -- after the withdraw
    lines = [ln for ln in out.getvalue().split('\n') if ln]
    last = lines[-len(options.ips) :]
    if at > 0 and (len(last) != len(options.ips) or not all(' withdraw route ' in ln for ln in last)):
        return {'what': f'the loop ended ({kind} during check {at}) and the last lines written do not withdraw every address', 'input': inp, 'last_lines': last}
    return None


@bounded('C20', 'ended-while-checking')
def ended_while_checking(tier, seed):
    cases = [(k, at) for k in ('interrupt', 'exception') for at in (1, 2, 3)]
    fails = [f for f in (interrupted_case(*c) for c in cases) if f]
    return {'evaluations': len(cases), 'distinct_nontrivial': len(cases), 'exhaustive': True, 'bound': '^C or an exception (fork failure) raised by the check command of round 2, 3 or 4 of an up service (rise 1): the last lines written withdraw both addresses', 'rule': 'one case = (what ends the loop, round)', 'samples': [{'ends_with': 'interrupt', 'during_check_number': 1}], 'failures': fails}


@replayer('C20', 'ended-while-checking')
def _replay_ended(f):
    return interrupted_case(f['input']['ends_with'], f['input']['during_check_number']) is None
