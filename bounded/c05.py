"""bounded stand-in for C05: traces of the REAL Peer (bounded/sessionharness.py) under fault injection in every state,
connection loss, teardown, stop, re-establishment requests and multi-session histories; the trace -- every FSM.change,
every message written with the state at that moment, every up/down handed to the API, transport closure -- is judged
against RFC 4271 section 8:
  T1 every transition is one of the RFC's;                T2 ESTABLISHED only after our OPEN was sent, the peer's OPEN and
  a KEEPALIVE were received;   T3 UPDATE / End-of-RIB / ROUTE-REFRESH are written in ESTABLISHED only;
  T4 once the session is over the transport is closed;    T5 on the API an "up" is followed by a "down" before the next "up"."""
import asyncio

from .registry import bounded, replayer, harness_canary
from . import sessionharness as S
from . import c10

RFC = {
    'IDLE': {'IDLE', 'CONNECT', 'ACTIVE'},
    'CONNECT': {'CONNECT', 'ACTIVE', 'OPENSENT', 'IDLE', 'OPENCONFIRM'},
    'ACTIVE': {'ACTIVE', 'CONNECT', 'OPENSENT', 'IDLE', 'OPENCONFIRM'},
    'OPENSENT': {'OPENSENT', 'ACTIVE', 'OPENCONFIRM', 'IDLE'},
    'OPENCONFIRM': {'OPENCONFIRM', 'ESTABLISHED', 'IDLE'},
    'ESTABLISHED': {'ESTABLISHED', 'IDLE'},
}


def judge_trace(log, received, inp, closed=None, finished=True):
    """log: the harness trace; received: list of (position in log, message type) the remote had sent"""
    inp = dict(inp)
    inp['trace'] = [(e[0], e[1], e[2]) if e[0] in ('fsm', 'sent') else e for e in log][-40:]
    sent_open = False
    ups = 0
    for i, e in enumerate(log):
        if e[0] == 'session':
            sent_open = False
        elif e[0] == 'fsm':
            a, b = e[1], e[2]
            if b not in RFC.get(a, set()):
                return {'what': f'T1: transition {a} -> {b} is not an RFC 4271 transition', 'input': inp}
            if b == 'ESTABLISHED' and a != 'ESTABLISHED':
                got = [t for pos, t in received if pos <= i and pos >= _session_start(log, i)]
                if not sent_open:
                    return {'what': 'T2: ESTABLISHED reached before our OPEN was sent', 'input': inp}
                if 1 not in got:
                    return {'what': 'T2: ESTABLISHED reached without an OPEN from the peer', 'input': inp}
                if 4 not in got:
                    return {'what': 'T2: ESTABLISHED reached without a KEEPALIVE from the peer', 'input': inp}
        elif e[0] == 'sent':
            state, typ = e[1], e[2]
            if typ == 1:
                sent_open = True
            if typ in (2, 5) and state != 'ESTABLISHED':
                return {'what': f'T3: a message of type {typ} ({"UPDATE / End-of-RIB" if typ == 2 else "ROUTE-REFRESH"}) was written in state {state}', 'input': inp}
        elif e[0] == 'api' and e[1] == 'up':
            ups += 1
            if ups > 1:
                return {'what': 'T5: the API was told "up" twice without a "down" in between', 'input': inp}
        elif e[0] == 'api' and e[1] == 'down':
            ups = 0
    if finished and ups:
        return {'what': 'T5: the session is over and the API was never told "down" after "up"', 'input': inp}
    if closed is False:
        return {'what': 'T4: the session left its connected state and the transport is still open', 'input': inp}
    return None


def _session_start(log, i):
    for j in range(i, -1, -1):
        if log[j][0] == 'session':
            return j
    return 0


class Traced(S.Session):
    """a harness session which also records what the remote sent, with its position in the trace"""

    def __init__(self, *a, **k):
        super().__init__(*a, **k)
        self.received = []
        self.log.append(('session', 1))
        real_send = self.remote.send

        async def send(data):
            pos = 0
            while pos + 19 <= len(data):
                ln = int.from_bytes(data[pos + 16 : pos + 18], 'big')
                self.received.append((len(self.log), data[pos + 18]))
                pos += max(ln, 19)
            return await real_send(data)

        self.remote.send = send

    def again(self):
        """a new transport for the same Peer object (what handle_connection does for the next incoming connection)"""
        from exabgp.protocol.family import AFI
        from exabgp.reactor.network.incoming import Incoming
        from exabgp.reactor.protocol import Protocol

        self.remote.sock.close()
        ours, theirs = S.tcp_pair()
        self.remote = S.Remote(theirs)
        real_send = self.remote.send

        async def send(data):
            pos = 0
            while pos + 19 <= len(data):
                ln = int.from_bytes(data[pos + 16 : pos + 18], 'big')
                self.received.append((len(self.log), data[pos + 18]))
                pos += max(ln, 19)
            return await real_send(data)

        self.remote.send = send
        self.log.append(('session', 2))
        self.peer.proto = Protocol(self.peer).accept(Incoming(AFI.ipv4, '127.0.0.1', '127.0.0.1', ours))
        self.conn = self.peer.proto.connection
        fsm_change = self.peer.fsm.change  # already wrapped
        self._wrap_connection_only()

    def _wrap_connection_only(self):
        import struct

        conn, log, fsm = self.conn, self.log, self.peer.fsm
        real_writer, real_close = conn.writer_async, conn.close

        async def writer_async(data):
            raw = bytes(data)
            pos = 0
            while pos + 19 <= len(raw):
                ln = struct.unpack('!H', raw[pos + 16 : pos + 18])[0]
                log.append(('sent', fsm.name(), raw[pos + 18], raw[pos + 19 : pos + ln]))
                pos += max(ln, 19)
            return await real_writer(data)

        def close():
            log.append(('closed', fsm.name()))
            return real_close()

        conn.writer_async = writer_async
        conn.close = close


async def scenario_fault(state, name, data):
    sess = Traced()
    inp = {'scenario': f'{state}: {name}'}
    try:
        try:
            await sess.to_state(state)
        except RuntimeError as e:
            return {'what': f'harness: {e}', 'input': inp, 'harness': True}
        await sess.remote.send(data)
        await sess.remote.drain_until_close(timeout=2.5)
        done = await sess.finish(timeout=4)
        over = sess.peer.fsm.name() == 'IDLE'
        return judge_trace(sess.log, sess.received, inp, closed=sess.remote.closed if over else None, finished=over and done)
    finally:
        sess.cleanup()


async def scenario_action(state, action):
    """a local event at a given point: the peer closes the connection, API teardown, stop, re-establish, reload request"""
    sess = Traced()
    inp = {'scenario': f'{state}: {action}'}
    try:
        try:
            await sess.to_state(state)
        except RuntimeError as e:
            return {'what': f'harness: {e}', 'input': inp, 'harness': True}
        if action == 'peer closes the connection':
            sess.remote.sock.close()
            sess.remote.closed = True
        elif action == 'teardown 2':
            sess.peer.teardown(2)
        elif action == 'peer closes the connection, no reconnection allowed':
            # exabgp_tcp_attempts=1 and this session was that attempt: Peer._run stops the peer for good
            sess.peer.max_connection_attempts = 1
            sess.peer.connection_attempts = 1
            sess.remote.sock.close()
            sess.remote.closed = True
        elif action == 'notification received, no reconnection allowed':
            sess.peer.max_connection_attempts = 1
            sess.peer.connection_attempts = 1
            await sess.remote.send(S.msg(3, bytes([6, 4])))
        elif action == 'shutdown':
            sess.peer.shutdown()
        elif action == 'reestablish':
            sess.peer.reestablish()
        elif action == 'reestablish with a new neighbor':
            sess.peer.reestablish(S.make_neighbor(hold=90))
        if not sess.remote.closed:
            await sess.remote.drain_until_close(timeout=2.5)
        done = await sess.finish(timeout=4)
        over = sess.peer.fsm.name() == 'IDLE'
        closed = sess.transport_closed() if action.startswith('peer closes the connection') else sess.remote.closed
        return judge_trace(sess.log, sess.received, inp, closed=closed if over else None, finished=over and done)
    finally:
        sess.cleanup()


async def scenario_no_keepalive(hold):
    """the peer's OPEN carries hold time `hold` and the peer never sends its KEEPALIVE: no ESTABLISHED, no UPDATE"""
    sess = Traced()
    inp = {'scenario': f'peer OPEN with hold time {hold}, KEEPALIVE never sent'}
    try:
        sess.start()
        got = await sess.remote.read_message()
        if got is None or got[0] != 1:
            return {'what': 'harness: no OPEN from ExaBGP', 'input': inp, 'harness': True}
        await sess.remote.send(S.open_msg(hold=hold))
        await asyncio.sleep(1.2)
        f = judge_trace(sess.log, sess.received, inp, finished=False)
        sess.remote.sock.close()
        await sess.finish(timeout=4)
        return f
    finally:
        sess.cleanup()


async def scenario_history(first, second):
    """two sessions of the same Peer object, one after the other"""
    sess = Traced()
    inp = {'scenario': f'history: {first}, then {second}'}
    try:
        for n, what in enumerate((first, second)):
            if n:
                sess.again()
            if what == 'fails in the OPEN exchange (wrong AS)':
                sess.start()
                await sess.remote.read_message()
                await sess.remote.send(S.open_msg(asn=65099))
                await sess.remote.drain_until_close(timeout=2.5)
            elif what == 'establishes and is lost':
                try:
                    await sess.to_state('ESTABLISHED')
                except RuntimeError as e:
                    return {'what': f'harness: {e}', 'input': inp, 'harness': True}
                sess.remote.sock.close()
                sess.remote.closed = True
            elif what == 'establishes and is torn down':
                try:
                    await sess.to_state('ESTABLISHED')
                except RuntimeError as e:
                    return {'what': f'harness: {e}', 'input': inp, 'harness': True}
                sess.peer.teardown(4)
                await sess.remote.drain_until_close(timeout=2.5)
            await sess.finish(timeout=4)
            # the peer object is reused the way the reactor reuses it: ready for the next connection
            sess.peer._restart = True
            sess.peer._teardown = None
        return judge_trace(sess.log, sess.received, inp, finished=True)
    finally:
        sess.cleanup()


STATES = ('OPENSENT', 'OPENCONFIRM', 'ESTABLISHED')
ACTIONS = ('peer closes the connection', 'peer closes the connection, no reconnection allowed', 'notification received, no reconnection allowed', 'teardown 2', 'shutdown', 'reestablish', 'reestablish with a new neighbor')
HISTORIES = ('fails in the OPEN exchange (wrong AS)', 'establishes and is lost', 'establishes and is torn down')


def scenarios(tier):
    out = []
    for name, (data, exp) in c10.faults().items():
        for st in STATES:
            out.append((f'{st}: {name}', lambda st=st, name=name, data=data: scenario_fault(st, name, data)))
    for st in STATES:
        for a in ACTIONS:
            out.append((f'{st}: {a}', lambda st=st, a=a: scenario_action(st, a)))
        out.append((f'{st}: notification received', lambda st=st: scenario_fault(st, 'notification 6/2', S.msg(3, bytes([6, 2])))))
    for hold in (0, 3, 180):
        out.append((f'no keepalive, hold {hold}', lambda hold=hold: scenario_no_keepalive(hold)))
    for a in HISTORIES:
        for b in HISTORIES[1:]:
            out.append((f'history: {a}, then {b}', lambda a=a, b=b: scenario_history(a, b)))
    out.append(('ESTABLISHED: second incoming connection through the listener', scenario_second_connection))
    return out


def _one(args):
    label, idx, tier = args
    try:
        f = S.run(scenarios(tier)[idx][1](), timeout=40)
    except asyncio.TimeoutError:
        f = {'what': 'the scenario did not finish within 40 s', 'input': {}}
    if f:
        f.setdefault('input', {})['case'] = label
    return f


@bounded('C05', 'session-traces')
def session_traces(tier, seed):
    import multiprocessing as mp

    sc = scenarios(tier)
    with mp.get_context('fork').Pool(12) as pool:
        res = pool.map(_one, [(label, i, tier) for i, (label, _f) in enumerate(sc)], chunksize=1)
    fails = [r for r in res if r and not r.get('harness')]
    crashes = [r for r in res if r and r.get('harness')]
    if crashes:
        raise RuntimeError('session harness failed to set a scenario up: ' + crashes[0]['what'])
    return {'evaluations': len(sc), 'distinct_nontrivial': len(sc), 'bound': f'{len(c10.faults())} faults x 3 states, a NOTIFICATION received in each state, {len(ACTIONS)} events (peer closes / sends a NOTIFICATION, with and without reconnection allowed; teardown, shutdown, re-establish with and without a new neighbor) x 3 states, a peer that never sends its KEEPALIVE with hold time 0 / 3 / 180, and {len(HISTORIES) * 2} two-session histories on one Peer object, a second incoming connection refused through the real Listener; each on the real Peer over loopback TCP; every trace judged against T1-T5', 'rule': 'one case = one scenario', 'samples': [{'case': sc[0][0]}, {'case': sc[-1][0]}], 'failures': fails}


@replayer('C05', 'session-traces')
def _replay(f):
    label = f['input'].get('case')
    for i, (lab, fn) in enumerate(scenarios('quick')):
        if lab == label:
            return _one((lab, i, 'quick')) is None
    return True


def _with_patch(obj, name, replacement, idx_label):
    real = getattr(obj, name)
    setattr(obj, name, replacement)
    try:
        sc = scenarios('quick')
        i = [k for k, (lab, _f) in enumerate(sc) if lab == idx_label][0]
        return _one((idx_label, i, 'quick')) is not None
    finally:
        setattr(obj, name, real)


@harness_canary('C05', 'UPDATE written before ESTABLISHED')
def _hc_early_update():
    from exabgp.reactor.peer import Peer

    real = Peer._send_ka

    async def early(self):
        await self.proto.new_eors()
        return await real(self)

    return _with_patch(Peer, '_send_ka', early, 'ESTABLISHED: teardown 2')


@harness_canary('C05', 'transport left open when the session ends')
def _hc_open_transport():
    from exabgp.reactor.protocol import Protocol

    return _with_patch(Protocol, 'close', lambda self, reason='': None, 'OPENCONFIRM: a second well-formed open')


@harness_canary('C05', 'down never reported')
def _hc_no_down():
    from . import sessionharness as SH

    return _with_patch(SH.Events, 'down', lambda self, neighbor, reason='': None, 'ESTABLISHED: teardown 2')


# ---------------------------------------------------------------------------------------------------------------------
# an incoming connection for a neighbor whose session is already ESTABLISHED, through the REAL Listener.new_connections
# (real accept bookkeeping, real neighbor matching, real Peer.handle_connection): the second connection must be answered
# (Cease 6/7) and CLOSED, and the established session must be left alone.
class _OnePeerReactor:
    def __init__(self, peer):
        self.peer = peer

    def peers(self, service=''):
        return ['the-peer']

    def neighbor(self, key):
        return self.peer.neighbor

    def handle_connection(self, key, connection):
        return self.peer.handle_connection(connection)


async def scenario_second_connection():
    import socket
    from exabgp.reactor.listener import Listener

    sess = Traced()
    inp = {'scenario': 'ESTABLISHED: a second incoming connection for the same neighbor, through the real Listener'}
    try:
        try:
            await sess.to_state('ESTABLISHED')
        except RuntimeError as e:
            return {'what': f'harness: {e}', 'input': inp, 'harness': True}
        lsock = socket.socket(socket.AF_INET, socket.SOCK_STREAM)
        lsock.bind(('127.0.0.1', 0))
        lsock.listen(1)
        lsock.setblocking(False)
        theirs = socket.socket(socket.AF_INET, socket.SOCK_STREAM)
        theirs.connect(lsock.getsockname())
        listener = Listener(_OnePeerReactor(sess.peer))
        listener.serving = True
        listener._sockets = {lsock: ('127.0.0.1', 0, '127.0.0.1', None)}
        await asyncio.sleep(0.05)
        listener.incoming()
        for _ in listener.new_connections():
            pass
        second = S.Remote(theirs)
        written = await second.drain_until_close(timeout=2.0)
        lsock.close()
        if not second.closed:
            theirs.close()
            return {'what': 'a connection refused because the session is already established is left open (never answered, never closed)', 'input': inp}
        if [t for t, _b in written] != [3] or written[0][1][:2] != bytes([6, 7]):
            return {'what': f'the refused connection was answered with {[(t, b[:2]) for t, b in written]}, expected one NOTIFICATION 6/7', 'input': inp}
        if sess.peer.fsm.name() != 'ESTABLISHED' or sess.remote.closed:
            return {'what': 'refusing a second connection disturbed the established session', 'input': inp}
        sess.peer.teardown(2)
        await sess.remote.drain_until_close(timeout=2.5)
        await sess.finish(timeout=4)
        return judge_trace(sess.log, sess.received, inp, finished=True)
    finally:
        sess.cleanup()


# ---------------------------------------------------------------------------------------------------------------------
# connection collision while a session is being established (RFC 4271 6.8): a second incoming connection is accepted by
# Peer.handle_connection while _establish awaits the peer's OPEN (OPENSENT) or KEEPALIVE (OPENCONFIRM, remote router-id
# higher).  The old transport is closed and the new one installed: the new one must then be DRIVEN (our OPEN arrives on it),
# never held while the FSM sits in IDLE.
async def scenario_collision(state):
    from exabgp.protocol.family import AFI
    from exabgp.reactor.network.incoming import Incoming

    sess = Traced()
    inp = {'scenario': f'collision: second incoming connection accepted in {state}'}
    try:
        try:
            # remote router-id above ours (10.0.0.2) so that the OPENCONFIRM rule keeps the NEW connection
            await sess.to_state(state, peer_open=S.open_msg(rid='10.0.0.9'))
        except RuntimeError as e:
            return {'what': f'harness: {e}', 'input': inp, 'harness': True}
        ours, theirs = S.tcp_pair()
        second = S.Remote(theirs)
        refused = sess.peer.handle_connection(Incoming(AFI.ipv4, '127.0.0.1', '127.0.0.1', ours))
        if refused is not None:
            return {'what': 'harness: the second connection was refused, not accepted', 'input': inp, 'harness': True}
        got = await second.read_message(timeout=2.5)
        state_now = sess.peer.fsm.name()
        new_open = sess.peer.proto is not None and sess.peer.proto.connection is not None and sess.peer.proto.connection.io is not None
        sess.peer.teardown(2)
        theirs.close()
        sess.remote.sock.close()
        await sess.finish(timeout=4)
        if got is None or got[0] != 1:
            return {'what': f'collision in {state}: the accepted connection was not driven: nothing arrived on it in 2.5 s (FSM {state_now}, its transport {"open" if new_open else "closed"}) -- T4: a transport is held open while the FSM is in {state_now}', 'input': inp, 'collision_state': state}
        return None
    finally:
        sess.cleanup()


def _collision(state):
    return S.run(scenario_collision(state), 30)


@bounded('C05', 'collisions-during-establishment')
def collisions_during_establishment(tier, seed):
    import multiprocessing as mp

    states = ['OPENSENT', 'OPENCONFIRM']
    with mp.get_context('fork').Pool(2) as pool:
        res = pool.map(_collision, states)
    crashes = [r for r in res if r and r.get('harness')]
    if crashes:
        raise RuntimeError('session harness failed: ' + crashes[0]['what'])
    fails = [r for r in res if r]
    return {'evaluations': len(states), 'distinct_nontrivial': len(states), 'bound': 'a second incoming connection handed to the real Peer.handle_connection while the first is in OPENSENT / OPENCONFIRM (remote router-id higher): real Peer over loopback TCP, the accepted connection observed for 2.5 s', 'rule': 'one case = the state at the collision', 'samples': [{'state': 'OPENSENT'}], 'failures': fails}


@replayer('C05', 'collisions-during-establishment')
def _replay_collision(f):
    return _collision(f['collision_state']) is None


from .registry import region  # noqa: E402


@region('C05-collision-during-establishment')
def collision_region(failure):
    """recorded defect: a connection accepted by Peer.handle_connection while Peer._establish awaits a message on the
    previous connection is installed but never driven (the establishing coroutine keeps awaiting the closed socket).
    Only the two establishing states, only this observation."""
    return failure.get('collision_state') in ('OPENSENT', 'OPENCONFIRM') and 'was not driven' in failure.get('what', '')


# ---------------------------------------------------------------------------------------------------------------------
# a passive neighbor after its first session: the peer loop (the real Peer.run) goes round again -- it must WAIT for the
# remote end, never open a connection itself, and serve the connection the remote end opens next
async def scenario_passive():
    from exabgp.protocol.family import AFI
    from exabgp.reactor.network.incoming import Incoming

    sess = Traced(extra='passive true;')
    inp = {'scenario': 'passive true: the peer ends the first session with a NOTIFICATION, then connects again'}
    outgoing = []
    real_connect = sess.peer._connect

    async def connect():
        outgoing.append(sess.peer.fsm.name())
        return await real_connect()

    sess.peer._connect = connect
    sess.start = lambda: setattr(sess, 'task', asyncio.ensure_future(sess.peer.run()))
    try:
        try:
            await sess.to_state('ESTABLISHED')
        except RuntimeError as e:
            return {'what': f'harness: {e}', 'input': inp, 'harness': True}
        await sess.remote.send(S.msg(3, bytes([6, 2])))
        sess.remote.sock.close()
        await asyncio.sleep(1.5)
        if outgoing:
            return {'what': f'a passive neighbor opened an outgoing connection after its first session ended ({len(outgoing)} attempt(s) in 1.5 s)', 'input': inp}
        ours, theirs = S.tcp_pair()
        second = S.Remote(theirs)
        refused = sess.peer.handle_connection(Incoming(AFI.ipv4, '127.0.0.1', '127.0.0.1', ours))
        if refused is not None:
            return {'what': 'the connection the peer of a passive neighbor opens after a session loss is refused', 'input': inp}
        got = await second.read_message(timeout=2.5)
        theirs.close()
        if got is None or got[0] != 1:
            return {'what': 'the connection the peer of a passive neighbor opens after a session loss is not served (no OPEN on it in 2.5 s)', 'input': inp}
        return None
    finally:
        sess.peer._restart = False
        sess.peer.stop()
        if sess.task is not None:
            sess.task.cancel()
            try:
                await sess.task
            except BaseException:  # noqa
                pass
        sess.cleanup()


@bounded('C05', 'passive-neighbor-after-a-session')
def passive_after_session(tier, seed):
    r = S.run(scenario_passive(), 40)
    if r and r.get('harness'):
        raise RuntimeError('session harness failed: ' + r['what'])
    return {'evaluations': 1, 'distinct_nontrivial': 1, 'bound': 'one history of the real Peer.run over loopback TCP: passive neighbor, session established, ended by the peer with NOTIFICATION 6/2, 1.5 s observed, then a second incoming connection observed for 2.5 s', 'rule': 'one case', 'samples': [{'scenario': 'passive true'}], 'failures': [r] if r else []}


@replayer('C05', 'passive-neighbor-after-a-session')
def _replay_passive(f):
    return S.run(scenario_passive(), 40) is None
