"""shared harness for the bounded layer: real Neighbor from configuration text, real Negotiated from two real OPENs."""
import struct

from spec import wire as W

NEIGHBOR_TMPL = """
neighbor 127.0.0.1 {{
	router-id 1.2.3.4;
	local-address 127.0.0.1;
	local-as {local_as};
	peer-as {peer_as};
	hold-time {hold};
	{extra}
	capability {{
		{capability}
	}}
	family {{
		{families}
	}}
}}
"""


def neighbor(local_as=65000, peer_as=65001, hold=180, capability='', families='ipv4 unicast; ipv6 unicast;', extra=''):
    from exabgp.configuration.configuration import Configuration

    text = NEIGHBOR_TMPL.format(local_as=local_as, peer_as=peer_as, hold=hold, capability=capability, families=families, extra=extra)
    c = Configuration([text], text=True)
    if not c.reload():
        raise ValueError(f'neighbor configuration refused: {c.error}')
    return list(c.neighbors.values())[0]


def cap(code: int, value: bytes) -> bytes:
    return bytes([code, len(value)]) + value


def peer_open_bytes(asn=65001, hold=180, router_id='9.9.9.9', caps=(), as_optional_params=True):
    """body of an OPEN message (RFC 4271 4.2); caps: list of capability TLVs (RFC 5492), one parameter per capability"""
    import socket

    params = b''.join(bytes([2, len(c)]) + c for c in caps)
    a2 = asn if asn < 65536 else 23456
    return bytes([4]) + struct.pack('!HH', a2, hold) + socket.inet_aton(router_id) + bytes([len(params)]) + params


def std_caps(asn=65001, families=((1, 1), (2, 1)), asn4=True, addpath=None, extended=False, refresh=True, nexthop=None):
    caps = [cap(1, struct.pack('!HBB', a, 0, s)) for a, s in families]
    if refresh:
        caps.append(cap(2, b''))
    if asn4:
        caps.append(cap(65, struct.pack('!L', asn)))
    if addpath:
        caps.append(cap(69, b''.join(struct.pack('!HBB', a, s, m) for a, s, m in addpath)))
    if extended:
        caps.append(cap(6, b''))
    if nexthop:
        caps.append(cap(5, b''.join(struct.pack('!HHH', a, s, n) for a, s, n in nexthop)))
    return caps


def negotiated(nb, peer_open_body: bytes, direction_in=True):
    """real Negotiated: our OPEN generated from the neighbor exactly as Protocol.new_open does, the peer's decoded from bytes"""
    from exabgp.bgp.message import Open
    from exabgp.bgp.message.direction import Direction
    from exabgp.bgp.message.open import Version
    from exabgp.bgp.message.open.capability import Capabilities, Negotiated

    neg = Negotiated(nb, Direction.IN if direction_in else Direction.OUT)
    sent = Open.make_open(Version(4), nb.session.local_as, nb.hold_time, nb.session.router_id, Capabilities().new(nb, False))
    # what goes on the wire is what the peer negotiates against: decode our own bytes back
    raw = bytes(sent.pack_message(neg))
    sent_wire = Open.unpack_message(raw[19:], neg)
    recv = Open.unpack_message(peer_open_body, neg)
    neg.sent(sent_wire)
    neg.received(recv)
    return neg, sent, recv


def session(kind='ebgp4'):
    """a few canonical session kinds: (neighbor, negotiated)"""
    kinds = {
        'ebgp4': dict(local_as=65000, peer_as=65001, asn4=True),
        'ibgp4': dict(local_as=65000, peer_as=65000, asn4=True),
        'ebgp2': dict(local_as=65000, peer_as=65001, asn4=False),
        'ibgp2': dict(local_as=65000, peer_as=65000, asn4=False),
    }
    kinds['ibgp4'] = kinds['ibgp4'] if 'ibgp4' in kinds else dict(local_as=65000, peer_as=65000, asn4=True)
    k = kinds[kind]
    nb = neighbor(local_as=k['local_as'], peer_as=k['peer_as'], capability='' if k['asn4'] else 'asn4 disable;')
    body = peer_open_bytes(k['peer_as'], 180, '9.9.9.9', std_caps(k['peer_as'], asn4=k['asn4']))
    neg, _, _ = negotiated(nb, body)
    return nb, neg
