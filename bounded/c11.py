"""bounded stand-in for C11: session loss at every point of a batch, then re-establishment.
Real Peer, real Protocol (new_update_generator / new_eors / write / send), real RIB; the connection is a stub that
records every message written.  The session-up statements of Peer._main are extracted from its source and executed
unmodified; the two send steps of its loop are the real coroutines Peer._send_route_updates / _send_eor_messages.
After the next establishment the peer must hold exactly the reported Adj-RIB-Out, followed by one End-of-RIB per
negotiated family; routes withdrawn while the session was down are not re-advertised."""
import asyncio
import itertools
import random
from collections import defaultdict

from .registry import bounded, replayer, harness_canary
from .extract import runner
from .ribharness import Peer as PeerTable, reported, route
from . import c17


class FakeConnection:
    def __init__(self):
        self.sent = []
        self.msg_size = 4096

    async def writer_async(self, raw):
        self.sent.append(bytes(raw))

    def session(self):
        return 'fake'

    def close(self):
        pass


_extracted = {}


def _loop_send():
    from .extract import async_runner

    if 'send' not in _extracted:
        _extracted['send'] = async_runner('reactor/peer/peer.py', 'Peer._main', 'new_routes, include_withdraw = await self._send_route_updates(', 'send_eor = await self._send_eor_messages(')
    return _extracted['send']


def make_proto(peer, neg):
    """the real Protocol of the real peer; only its transport is replaced by the recording stub"""
    from exabgp.reactor.protocol import Protocol

    pr = Protocol(peer)
    pr.negotiated = neg
    pr.connection = FakeConnection()
    return pr


class Sess:
    """one BGP session of the real peer object, driven the way Peer._main drives it"""

    def __init__(self, world, key, neg=None):
        self.w, self.key = world, key
        self.peer = world.peers()[key]
        self.neg = neg if neg is not None else c17._session()[1]
        self.table = PeerTable()
        self.consumed = 0
        self.up()

    def up(self):
        from exabgp.bgp.fsm import FSM

        self.peer.proto = make_proto(self.peer, self.neg)
        self.peer.fsm.change(FSM.ESTABLISHED)
        self.table = PeerTable()
        self.consumed = 0
        self.w.session_up(self=self.peer)  # extracted from Peer._main
        # initial values of the loop variables, as Peer._main sets them
        self.include_withdraw = False
        self.send_eor = not self.peer.neighbor.manual_eor
        self.new_routes = None
        self.order = []  # 'U' per UPDATE carrying routes, 'E' per End-of-RIB, in wire order

    def _absorb(self):
        sent = self.peer.proto.connection.sent
        for m in sent[self.consumed :]:
            before = len(self.table.eor)
            self.table.receive(m)
            if m[18] == 2:
                self.order.append('E' if len(self.table.eor) > before else 'U')
        self.consumed = len(sent)

    def step(self, routes_per_iteration=1):
        """one iteration of the sending part of the main loop (real coroutines)"""

        async def go():
            # the two sending statements of the loop of Peer._main, extracted from its source and executed unmodified
            # (calling the helpers by hand would hide a change in how the loop calls them)
            locs = await _loop_send()(self=self.peer, new_routes=self.new_routes, include_withdraw=self.include_withdraw, routes_per_iteration=routes_per_iteration, send_eor=self.send_eor)
            self.new_routes, self.include_withdraw, self.send_eor = locs['new_routes'], locs['include_withdraw'], locs['send_eor']

        asyncio.new_event_loop().run_until_complete(go())
        self._absorb()

    def settle(self, limit=80, per_iteration=25):
        # Peer._main uses 25 routes per iteration, or 1 when the neighbor has a rate limit
        for _ in range(limit):
            self.step(per_iteration)
            if not self.new_routes and not self.peer.neighbor.rib.outgoing.pending() and not self.send_eor and not self.peer.neighbor.eor:
                return True
        return False

    def lose(self):
        """the connection drops: real Peer._reset()"""
        from exabgp.bgp.fsm import FSM

        self.peer._reset('connection lost')
        self.peer.fsm.change(FSM.IDLE)


P = ['10.0.1.0/24', '10.0.2.0/24', '10.0.3.0/24', '2001:db8:1::/48']


def _route(k, med):
    return route(P[k], med, nh='2001:db8::1') if ':' in P[k] else route(P[k], med)


def _key(k):
    import socket

    if ':' in P[k]:
        return (2, 48, socket.inet_pton(socket.AF_INET6, P[k].split('/')[0])[:6])
    return (1, 24, socket.inet_aton(P[k].split('/')[0])[:3])


def apply(rib, op):
    if op[0] == 'ann':
        rib.add_to_rib(_route(op[1], op[2]))
    elif op[0] == 'wd':
        rib.del_from_rib(_route(op[1], None))
    elif op[0] == 'resend':
        rib.resend(False)  # what `flush adj-rib out` (and a ROUTE-REFRESH from the peer) does
    elif op[0] == 'eor':
        pass  # `announce eor ipv4 unicast`: queued on the neighbor, not in the RIB (done by one_case, which has the peer)
    elif op[0] == 'clear':
        rib.withdraw()  # `clear adj-rib out`


V6_WORLD = dict(routes={'A': 10, 'V6': None}, hold=180, families='ipv4 unicast; ipv6 unicast;')


def one_case(before_ops, cut, down_ops, per_iteration=25, after_ops=(), v6=False):
    """before_ops: API operations issued on an established session; the session then sends `cut` messages and drops;
    down_ops are issued while it is down; then it is re-established"""
    inp = {'before': [list(o) for o in before_ops], 'cut_after_messages': cut, 'while_down': [list(o) for o in down_ops], 'routes_per_iteration': per_iteration, 'after_resync': [list(o) for o in after_ops], 'ipv6_route_configured': v6}
    # building the world and the first session is harness set-up: if it fails the CHECK is broken (exception
    # propagates -> checker crash), it is never reported as a violation of the property
    w = c17.World(V6_WORLD if v6 else dict(routes={'A': 10}, hold=180))  # one configured route: 10.0.1.0/24 med 10 (v6: and 2001:db8:1::/48)
    key = list(w.peers())[0]
    s = Sess(w, key)
    if not s.settle():
        raise RuntimeError('harness: the first session of an untouched configuration never settles')
    rib = s.peer.neighbor.rib.outgoing
    try:
        for op in before_ops:
            apply(rib, op)
        for _ in range(cut):
            s.step(1)
        s.lose()
        for op in down_ops:
            apply(rib, op)
            if op[0] == 'eor':
                from exabgp.protocol.family import AFI, SAFI, Family

                s.peer.neighbor.eor.append(Family(AFI.ipv4, SAFI.unicast))  # what Configuration.inject_eor does
        s.up()
        if not s.settle(per_iteration=per_iteration):
            return {'what': 'the new session never settles (updates keep being generated or End-of-RIB never sent)', 'input': inp}
        # operations issued once the new session is in sync: they must reach the peer too (a withdraw after the first
        # window of a session is where a send loop which never switched withdraws on loses it)
        for op in after_ops:
            apply(rib, op)
        if after_ops and not s.settle(per_iteration=per_iteration):
            return {'what': 'the session never settles after operations issued once in sync', 'input': inp}
    except Exception as e:  # noqa
        import traceback

        return {'what': f'resynchronisation path raised {type(e).__name__}: {str(e)[:200]}', 'input': inp, 'trace': traceback.format_exc()[-600:]}
    # independent model of the INTENDED table, from the statement: configured routes plus API announces not since
    # withdrawn (last write wins) -- not ExaBGP's own report, which a defect could corrupt together with the wire
    import socket

    model = {0: 10}  # 10.0.1.0/24 med 10 is configured
    if v6:
        model[3] = None
    for op in list(before_ops) + list(down_ops) + list(after_ops):
        if op[0] == 'ann':
            model[op[1]] = op[2]
        elif op[0] == 'wd':
            model.pop(op[1], None)
        elif op[0] == 'clear':
            model = {}
    intended = {_key(k): ('2001:db8::1' if ':' in P[k] else '192.0.2.1', med) for k, med in model.items()}
    want = reported(rib)
    got = s.table.table
    if got != intended:
        return {'what': 'after the re-establishment the peer does not hold the intended table (configured + API routes not since withdrawn)', 'input': inp, 'intended': str(sorted(intended.items())), 'peer': str(sorted(got.items())), 'log': [str(x) for x in s.table.log][-10:]}
    if want != intended:
        return {'what': 'the Adj-RIB-Out ExaBGP reports differs from the intended table', 'input': inp, 'intended': str(sorted(intended.items())), 'reported': str(sorted(want.items()))}
    fams = sorted((int(a), int(b)) for a, b in s.neg.families)
    manual = [(1, 1)] * sum(1 for op in down_ops if op[0] == 'eor')
    if manual:
        # an End-of-RIB the operator asked for while the session was down: one more marker of that family, and like the
        # automatic ones it must not overtake the table it closes
        if sorted(s.table.eor) != sorted(fams + manual):
            return {'what': f'End-of-RIB markers {sorted(s.table.eor)}: expected one per negotiated family plus the {len(manual)} asked for through the API', 'input': inp}
    elif sorted(s.table.eor) != fams:
        return {'what': f'End-of-RIB markers {sorted(s.table.eor)} do not cover the negotiated families {fams} exactly once', 'input': inp}
    # nothing happens after the re-establishment in these histories, so every UPDATE of the new session belongs to the
    # table transfer: none may follow the first End-of-RIB
    if not after_ops and 'E' in s.order and 'U' in s.order[s.order.index('E') :]:
        return {'what': f'End-of-RIB sent before the complete Adj-RIB-Out was re-advertised (wire order {"".join(s.order)})', 'input': inp}
    return None


OPS = [('ann', 1, 10), ('ann', 1, 20), ('ann', 2, 5), ('wd', 1, None), ('wd', 0, None), ('ann', 0, 30), ('resend',), ('clear',)]


@bounded('C11', 'loss-at-every-cut')
def loss_at_every_cut(tier, seed):
    rnd = random.Random(seed)
    fails, evals, distinct, samples = [], 0, set(), []
    depth = 2 if tier == 'quick' else 3
    cases = []
    for n in range(0, depth + 1):
        for before in itertools.product(OPS, repeat=n):
            for cut in range(0, n + 2):
                for m in range(0, 2 if tier == 'quick' else 3):
                    for down in itertools.product(OPS, repeat=m):
                        cases.append((before, cut, down))
    if tier == 'quick' and len(cases) > 400:
        rnd.shuffle(cases)
        cases = cases[:400]
    work = [(before, cut, down, per) for before, cut, down in cases for per in (25, 1)]
    # `announce eor` issued while down, with a table which takes several turns of the send loop
    for down in ((('eor',),), (('ann', 2, 5), ('eor',)), (('eor',), ('ann', 2, 5))):
        for per in (25, 1):
            work.append(((('ann', 1, 20),), 2, down, per))
    # a route of another family than IPv4 unicast withdrawn while down (or changed, or left alone): the new session must
    # not start with an End-of-RIB -- an UPDATE which says nothing IS the End-of-RIB of IPv4 unicast
    for down in ((('wd', 3, None),), (('wd', 3, None), ('wd', 0, None)), (('ann', 3, 7),), (), (('wd', 3, None), ('ann', 3, 9))):
        for before in ((), (('ann', 1, 10),)):
            for cut in (0, len(before) + 1):
                for per in (25, 1):
                    work.append((before, cut, down, per, (), True))
    # a refresh (flush adj-rib out / ROUTE-REFRESH) queued while the session is down, then a withdraw of what it holds:
    # in the first window of the new session withdraws are not sent, so a stale copy in the refresh is announced for good
    for down in ((('resend',), ('wd', 1, None)), (('resend',), ('wd', 0, None)), (('resend',), ('clear',)), (('resend',), ('wd', 1, None), ('ann', 1, 20)), (('wd', 1, None), ('resend',))):
        for cut in (0, 2):
            for per in (25, 1):
                work.append(((('ann', 1, 10),), cut, down, per))
    # after the resynchronisation: a withdraw / an announce / a change, for both slice sizes and a few histories
    for after in ((('wd', 0, None),), (('ann', 1, 10), ('wd', 1, None)), (('ann', 2, 5),), (('wd', 0, None), ('ann', 0, 30))):
        for before in ((), (('ann', 1, 10),), (('ann', 1, 10), ('ann', 2, 5))):
            for per in (25, 1):
                work.append((before, len(before), (), per, after))
    if len(work) > 2000:
        # the cases are independent (each builds its own world): 14 processes
        import multiprocessing as mp

        with mp.get_context('fork').Pool(14) as pool:
            results = pool.starmap(one_case, work, chunksize=64)
    else:
        results = [one_case(*w) for w in work]
    for w, f in zip(work, results):
        evals += 1
        distinct.add(tuple(w))
        if f:
            fails.append(f)
    for before, cut, down in cases:
        if len(samples) < 3 and len(before) == 2 and down:
            samples.append({'before': [list(o) for o in before], 'cut_after_messages': cut, 'while_down': [list(o) for o in down]})
    fails.sort(key=lambda f: len(str(f['input'])))
    return {'evaluations': evals, 'distinct_nontrivial': len(distinct), 'bound': f'API histories of length <= {depth} over 8 operations (3 prefixes, attribute change, withdraw of an API route and of the configured route, flush adj-rib out, clear adj-rib out) x session loss after 0..n+1 sent messages x {25, 1} routes per loop iteration x <= {1 if tier == "quick" else 2} operations while down' + (' (sample of 700)' if tier == 'quick' else ''), 'rule': 'one case = (history before the loss, cut point, operations while down); distinct by value', 'samples': samples, 'failures': fails}


@replayer('C11', 'loss-at-every-cut')
def _replay(f):
    i = f['input']
    return one_case([tuple(o) for o in i['before']], i['cut_after_messages'], [tuple(o) for o in i['while_down']], i.get('routes_per_iteration', 25), [tuple(o) for o in i.get('after_resync', [])], i.get('ipv6_route_configured', False)) is None


# ------------------------------------------------------------------------------------------------ harness canaries

_CANARY_CASE = ([('ann', 1, 10), ('ann', 2, 5)], 1, [('wd', 1, None)])


def _with_patch(obj, name, replacement):
    real = getattr(obj, name)
    setattr(obj, name, replacement)
    try:
        return one_case(*_CANARY_CASE) is not None
    finally:
        setattr(obj, name, real)


@harness_canary('C11', 'nothing re-advertised after re-establishment')
def _hc_restart():
    from exabgp.rib.outgoing import OutgoingRIB

    return one_case(*_CANARY_CASE) is None and _with_patch(OutgoingRIB, 'replace_restart', lambda self, previous, new: None)


@harness_canary('C11', 'no End-of-RIB sent')
def _hc_eor():
    from exabgp.reactor.protocol import Protocol

    async def no_eors(self, *a, **k):
        return None

    return _with_patch(Protocol, 'new_eors', no_eors)


@harness_canary('C11', 'route withdrawn while down is re-advertised (and still reported)')
def _hc_withdrawn_down():
    from exabgp.rib.cache import Cache

    return _with_patch(Cache, 'update_cache_withdraw', lambda self, nlri: None)


# ---------------------------------------------------------------------------------------------------------------------
# no Adj-RIB-Out kept (adj-rib-out false, route-refresh disabled): the CONFIGURED routes are still part of every
# session's table ("configured routes plus API-announced routes ..., when adj-rib-out is kept": the condition is on the
# API routes); a route its watchdog holds back stays held back
def nocache_case(sessions, held):
    inp = {'adj_rib_out': False, 'sessions': sessions, 'route_held_back_by_a_watchdog': held}
    spec = dict(routes={'A': 10, 'B': None} if held else {'A': 10}, hold=180, nocache=True, tail={'B': 'watchdog cat withdraw'} if held else {})
    w = c17.World(spec)
    key = list(w.peers())[0]
    s = Sess(w, key)
    want = {_key(0): ('192.0.2.1', 10)}
    try:
        for n in range(sessions):
            if n:
                s.lose()
                s.up()
            if not s.settle():
                return {'what': f'session {n + 1} never settles', 'input': inp}
            if s.table.table != want:
                return {'what': f'session {n + 1} of a neighbor without Adj-RIB-Out cache does not carry exactly the configured routes', 'input': inp, 'intended': str(sorted(want.items())), 'peer': str(sorted(s.table.table.items())), 'wire_order': ''.join(s.order)}
            if 'E' in s.order and 'U' in s.order[s.order.index('E') :]:
                return {'what': f'session {n + 1}: End-of-RIB before the table was complete (wire order {"".join(s.order)})', 'input': inp}
    except Exception as e:  # noqa
        return {'what': f'resynchronisation path raised {type(e).__name__}: {str(e)[:200]}', 'input': inp}
    return None


@bounded('C11', 'sessions-without-adj-rib-out')
def sessions_without_cache(tier, seed):
    cases = [(n, held) for n in (1, 2, 3) for held in (False, True)]
    fails = [f for f in (nocache_case(*c) for c in cases) if f]
    for f in (cache_switched_on_case(), nocache_withdrawn_case('up'), nocache_withdrawn_case('down')):
        if f:
            fails.append(f)
    return {'evaluations': len(cases) + 3, 'distinct_nontrivial': len(cases) + 3, 'exhaustive': True, 'bound': 'one history in which a reload switches adj-rib-out on before an API announce and a session loss; a configured route withdrawn through the API (session up / down) with no Adj-RIB-Out kept; 1, 2 and 3 consecutive sessions of a neighbor with `adj-rib-out false` and route-refresh disabled, one configured route, with and without a second one held back by its watchdog; real send statements of Peer._main, recording transport', 'rule': 'one case = (number of sessions, held-back route)', 'samples': [{'sessions': 2, 'route_held_back_by_a_watchdog': False}], 'failures': fails}


@replayer('C11', 'sessions-without-adj-rib-out')
def _replay_nocache(f):
    if 'history' in f['input']:
        return cache_switched_on_case() is None
    if 'when' in f['input']:
        return nocache_withdrawn_case(f['input']['when']) is None
    return nocache_case(f['input']['sessions'], f['input']['route_held_back_by_a_watchdog']) is None


def nocache_withdrawn_case(when):
    """no Adj-RIB-Out kept: a CONFIGURED route withdrawn through the API (while the session is up, or down) stays
    withdrawn on the next session, as it does when the Adj-RIB-Out is kept"""
    inp = {'adj_rib_out': False, 'configured': ['10.0.1.0/24', '10.0.2.0/24'], 'withdrawn_through_the_api': '10.0.2.0/24', 'when': when}
    w = c17.World(dict(routes={'A': 10, 'B': None}, hold=180, nocache=True))
    key = list(w.peers())[0]
    s = Sess(w, key)
    try:
        if not s.settle():
            return {'what': 'first session never settles', 'input': inp}
        rib = s.peer.neighbor.rib.outgoing
        if when == 'up':
            apply(rib, ('wd', 1, None))
            s.settle()
        s.lose()
        if when == 'down':
            apply(rib, ('wd', 1, None))
        for n in (2, 3):
            s.up()
            if not s.settle():
                return {'what': f'session {n} never settles', 'input': inp}
            want = {_key(0): ('192.0.2.1', 10)}
            if s.table.table != want:
                return {'what': f'session {n}: a configured route withdrawn through the API is advertised again (no Adj-RIB-Out kept)', 'input': inp, 'intended': str(sorted(want.items())), 'peer': str(sorted(s.table.table.items()))}
            s.lose()
    except Exception as e:  # noqa
        return {'what': f'path raised {type(e).__name__}: {str(e)[:200]}', 'input': inp}
    return None


def cache_switched_on_case():
    """adj-rib-out false, then a reload which switches it on (the neighbor definition differs: the session is
    re-established), an API route, a session loss: the API route is part of the next session's table"""
    inp = {'history': ['adj-rib-out false', 'reload: adj-rib-out on', 'announce route 10.0.2.0/24 med 10', 'session lost', 'session re-established']}
    w = c17.World(dict(routes={'A': 10}, hold=180, nocache=True))
    key = list(w.peers())[0]
    s = Sess(w, key)
    try:
        if not s.settle():
            return {'what': 'first session never settles', 'input': inp}
        if w.reload(dict(routes={'A': 10}, hold=180)) is not True:
            return {'what': f'new configuration refused: {w.reactor.configuration.error}', 'input': inp}
        s.peer = w.peers()[key]
        s.lose()  # the changed definition tears the session down; Peer._reset installs the new neighbor
        s.up()
        if not s.settle():
            return {'what': 'session after the reload never settles', 'input': inp}
        rib = s.peer.neighbor.rib.outgoing
        apply(rib, ('ann', 1, 10))
        if not s.settle():
            return {'what': 'session never settles after the API announce', 'input': inp}
        s.lose()
        s.up()
        if not s.settle():
            return {'what': 'last session never settles', 'input': inp}
    except Exception as e:  # noqa
        return {'what': f'path raised {type(e).__name__}: {str(e)[:200]}', 'input': inp}
    want = {_key(0): ('192.0.2.1', 10), _key(1): ('192.0.2.1', 10)}
    if s.table.table != want:
        return {'what': 'adj-rib-out switched on by a reload is not honoured: an API route announced afterwards is not re-advertised on the next session', 'input': inp, 'intended': str(sorted(want.items())), 'peer': str(sorted(s.table.table.items()))}
    return None


# ---------------------------------------------------------------------------------------------------------------------
# "followed by an End-of-RIB marker for each NEGOTIATED family": also the families the peer does not list in its Graceful
# Restart capability (RFC 4724 section 2: the marker is sent whether or not the capability was exchanged)
def _neg_with_gr(listed):
    import struct
    from . import harness as H

    nb = H.neighbor(local_as=65000, peer_as=65001, families='ipv4 unicast; ipv6 unicast;', capability='graceful-restart 120;')
    caps = H.std_caps(65001) + [H.cap(64, struct.pack('!H', 120) + b''.join(struct.pack('!HBB', a, s, 0x80) for a, s in listed))]
    neg, _, _ = H.negotiated(nb, H.peer_open_bytes(65001, 180, '9.9.9.9', caps))
    return neg


def gr_case(listed):
    inp = {'families_in_the_peers_graceful_restart_capability': [list(f) for f in listed], 'negotiated': [[1, 1], [2, 1]]}
    w = c17.World(V6_WORLD)
    key = list(w.peers())[0]
    try:
        s = Sess(w, key, neg=_neg_with_gr(listed))
        if not s.settle():
            return {'what': 'the session never settles', 'input': inp}
    except Exception as e:  # noqa
        return {'what': f'path raised {type(e).__name__}: {str(e)[:200]}', 'input': inp}
    fams = sorted((int(a), int(b)) for a, b in s.neg.families)
    if fams != [(1, 1), (2, 1)]:
        return {'what': f'harness: negotiated families are {fams}', 'input': inp, 'harness': True}
    if sorted(s.table.eor) != fams:
        return {'what': f'End-of-RIB markers {sorted(s.table.eor)} do not cover the negotiated families {fams} exactly once', 'input': inp}
    if 'U' in s.order[s.order.index('E') :]:
        return {'what': f'End-of-RIB before the table was complete (wire order {"".join(s.order)})', 'input': inp}
    return None


@bounded('C11', 'end-of-rib-whatever-the-peers-graceful-restart-lists')
def eor_with_gr(tier, seed):
    cases = [(), ((1, 1),), ((2, 1),), ((1, 1), (2, 1))]
    fails = [f for f in (gr_case(c) for c in cases) if f]
    return {'evaluations': len(cases), 'distinct_nontrivial': len(cases), 'exhaustive': True, 'bound': 'a peer whose Graceful Restart capability lists none, one or both of the two negotiated families: one End-of-RIB per negotiated family, after the table', 'rule': 'one case = the families listed', 'samples': [{'families_in_the_peers_graceful_restart_capability': [[1, 1]]}], 'failures': fails}


@replayer('C11', 'end-of-rib-whatever-the-peers-graceful-restart-lists')
def _replay_gr(f):
    return gr_case(tuple(tuple(x) for x in f['input']['families_in_the_peers_graceful_restart_capability'])) is None
