"""bounded stand-in for C08: every single-attribute corruption of well-formed UPDATEs through the real decode pipeline"""
import random
import struct

from .registry import bounded, replayer
from . import pipeline as P
from spec import wire as W
from spec.render import malformed, expected_update, DISCARD_CLASS


def corruptions(tlv: bytes):
    """single-attribute corruptions of one TLV: (name, new bytes)"""
    flags, typ = tlv[0], tlv[1]
    ext = bool(flags & 0x10)
    hdr = 4 if ext else 3
    val = tlv[hdr:]
    ln = len(val)

    def mk(f, v, declared=None):
        d = len(v) if declared is None else declared
        if f & 0x10:
            return bytes([f, typ]) + struct.pack('!H', d) + v
        return bytes([f, typ, d & 0xFF]) + v

    out = [
        ('len+1 (value one byte longer)', mk(flags, val + b'\x00')),
        ('flags optional bit flipped', mk(flags ^ 0x80, val)),
        ('flags transitive bit flipped', mk(flags ^ 0x40, val)),
        ('duplicated', tlv + tlv),
        ('declared length overruns (+5)', mk(flags, val, ln + 5)),
    ]
    if ln:
        out.append(('len-1 (value one byte shorter)', mk(flags, val[:-1])))
        out.append(('declared length shorter than value', mk(flags, val, ln - 1)))
        out.append(('first value byte 0xFF', mk(flags, b'\xff' + val[1:])))
    out.append(('zero length', mk(flags, b'')))
    return out


def check(kind, body, corrupted_typ, what):
    asn4 = kind != 'ibgp2'
    inp = {'kind': kind, 'body': body.hex(), 'corruption': what, 'attribute_type': corrupted_typ}
    try:
        bad = malformed(body, asn4, P.addpath_fn(kind))
    except (ValueError, IndexError, KeyError):
        bad = [(None, 'reference cannot walk the message')]
    obs = P.observe(kind, body)
    if obs['status'] == 'exception':
        return {'what': f'decoder raised a non-NOTIFICATION error: {obs["exc"]}', 'input': inp}
    if obs['status'] == 'notify':
        if obs['code'][0] not in (1, 3):
            return {'what': f'UPDATE refused with NOTIFICATION {obs["code"]}, not an UPDATE Message / header error', 'input': inp}
        if not bad:
            return {'what': f'well-formed UPDATE refused with NOTIFICATION {obs["code"]}', 'input': inp}
        return None
    if 'json_error' in obs or 'handler_error' in obs:
        return {'what': f'event/handler failure: {obs.get("json_error") or obs.get("handler_error")}', 'input': inp}
    if obs.get('eor'):
        return None
    announced = bool(obs['update'].get('announce')) or bool(obs.get('rib'))
    if not bad:
        # the corruption produced another well-formed UPDATE: plain C02 comparison
        return P.compare_update(kind, body)
    if not announced:
        return None
    hard = [b for b in bad if b[0] not in DISCARD_CLASS]
    if hard:
        return {'what': f'route announced / stored although attribute {hard[0][0]} is malformed ({hard[0][1]})', 'input': inp, 'observed': str(obs['update'])[:400]}
    # attribute-discard class: the malformed attribute must be gone and every other attribute intact
    try:
        exp = expected_update(body, asn4, P.addpath_fn(kind))['attribute']
    except Exception:
        return None
    got = dict(obs['update'].get('attribute', {}))
    got.pop('extended-community', None)
    names = {6: 'atomic-aggregate', 7: 'aggregator', 18: 'aggregator'}
    for t, _ in bad:
        exp.pop(names[t], None)
        if t != 18 and names[t] in got:
            return {'what': f'malformed attribute {t} reported instead of discarded', 'input': inp}
        got.pop(names[t], None)
    if got != exp:
        return {'what': 'attribute discard changed the other attributes', 'input': inp, 'expected': str(exp)[:400], 'observed': str(got)[:400]}
    return None


@bounded('C08', 'single-attribute-corruption')
def single_attribute_corruption(tier, seed):
    rnd = random.Random(seed)
    n = 12 if tier == 'quick' else 200
    fails, evals, distinct, samples = [], 0, set(), []
    for kind in ('ebgp4', 'ibgp2', 'addpath'):
        for _ in range(n):
            body, attrs, wd, nlri = P.gen_update(rnd, kind)
            if not nlri and not any(a == 'mp_reach' for a, _ in attrs):
                nlri = W.prefix4('10.77.0.0', 16, 3 if kind == 'addpath' else None)
            for k, (name, tlv) in enumerate(attrs):
                for what, new in corruptions(tlv):
                    blob = b''.join(t if j != k else new for j, (_, t) in enumerate(attrs))
                    if len(blob) > 65000:
                        continue
                    b2 = W.update_body(wd, blob, nlri)
                    evals += 1
                    distinct.add((kind, b2))
                    f = check(kind, b2, tlv[1], f'{name}: {what}')
                    if f:
                        fails.append(f)
                    if len(samples) < 4 and k == 0:
                        samples.append({'kind': kind, 'corruption': f'{name}: {what}', 'body': b2.hex()[:120]})
    return {'evaluations': evals, 'distinct_nontrivial': len(distinct), 'bound': f'{n} well-formed UPDATEs x 3 session kinds x every attribute x 9 corruptions (length +/-, declared length short/overrun, flags, duplication, bad value, zero length), IPv4 and MP NLRI', 'rule': 'one case = one corrupted UPDATE body; distinct by bytes', 'samples': samples, 'failures': fails}


@replayer('C08', 'single-attribute-corruption')
def _replay(f):
    i = f['input']
    return check(i['kind'], bytes.fromhex(i['body']), i.get('attribute_type'), i.get('corruption')) is None
