"""bounded stand-in for C08: every single-attribute corruption of well-formed UPDATEs through the real decode pipeline"""
import random
import struct

from .registry import bounded, replayer
from . import pipeline as P
from spec import wire as W
from spec.render import malformed, expected_update, DISCARD_CLASS


def corruptions(tlv: bytes):
    """single-attribute corruptions of one TLV: (name, new bytes)"""
    flags, typ = tlv[0], tlv[1]
    ext = bool(flags & 0x10)
    hdr = 4 if ext else 3
    val = tlv[hdr:]
    ln = len(val)

    def mk(f, v, declared=None):
        d = len(v) if declared is None else declared
        if f & 0x10:
            return bytes([f, typ]) + struct.pack('!H', d) + v
        return bytes([f, typ, d & 0xFF]) + v

    out = [
        ('len+1 (value one byte longer)', mk(flags, val + b'\x00')),
        ('flags optional bit flipped', mk(flags ^ 0x80, val)),
        ('flags transitive bit flipped', mk(flags ^ 0x40, val)),
        # RFC 4271 4.3: the four low bits are unused and MUST be ignored when received: still the same well-formed UPDATE
        ('unused low flag bit set', mk(flags | 0x01, val)),
        ('all unused low flag bits set', mk(flags | 0x0F, val)),
        ('duplicated', tlv + tlv),
        ('declared length overruns (+5)', mk(flags, val, ln + 5)),
    ]
    if ln:
        out.append(('len-1 (value one byte shorter)', mk(flags, val[:-1])))
        out.append(('declared length shorter than value', mk(flags, val, ln - 1)))
        out.append(('first value byte 0xFF', mk(flags, b'\xff' + val[1:])))
    out.append(('zero length', mk(flags, b'')))
    return out


def check(kind, body, corrupted_typ, what):
    asn4 = kind != 'ibgp2'
    inp = {'kind': kind, 'body': body.hex(), 'corruption': what, 'attribute_type': corrupted_typ}
    try:
        bad = malformed(body, asn4, P.addpath_fn(kind))
    except (ValueError, IndexError, KeyError):
        bad = [(None, 'reference cannot walk the message')]
    obs = P.observe(kind, body)
    if obs['status'] == 'exception':
        return {'what': f'decoder raised a non-NOTIFICATION error: {obs["exc"]}', 'input': inp}
    if obs['status'] == 'notify':
        if obs['code'][0] not in (1, 3):
            return {'what': f'UPDATE refused with NOTIFICATION {obs["code"]}, not an UPDATE Message / header error', 'input': inp}
        if not bad:
            return {'what': f'well-formed UPDATE refused with NOTIFICATION {obs["code"]}', 'input': inp}
        return None
    if 'json_error' in obs or 'handler_error' in obs:
        return {'what': f'event/handler failure: {obs.get("json_error") or obs.get("handler_error")}', 'input': inp}
    if obs.get('eor'):
        return None
    announced = bool(obs['update'].get('announce')) or bool(obs.get('rib'))
    if not bad:
        # the corruption produced another well-formed UPDATE: plain C02 comparison
        return P.compare_update(kind, body)
    if not announced:
        return None
    # RFC 7606 section 3.c: flags in conflict with the type are treat-as-withdraw for EVERY attribute; "attribute discard"
    # (section 7.6, 7.7) is what is done about the malformed VALUE of ATOMIC_AGGREGATE / AGGREGATOR / AS4_AGGREGATOR
    hard = [b for b in bad if b[0] not in DISCARD_CLASS or b[1] == 'flags']
    if hard:
        return {'what': f'route announced / stored although attribute {hard[0][0]} is malformed ({hard[0][1]})', 'input': inp, 'observed': str(obs['update'])[:400]}
    # attribute-discard class: the malformed attribute must be gone and every other attribute intact
    try:
        exp = expected_update(body, asn4, P.addpath_fn(kind), discarded=frozenset(t for t, _ in bad))['attribute']
    except Exception:
        return None
    got = dict(obs['update'].get('attribute', {}))
    got.pop('extended-community', None)
    names = {6: 'atomic-aggregate', 7: 'aggregator', 18: 'aggregator'}
    for t, _ in bad:
        exp.pop(names[t], None)
        if t != 18 and names[t] in got:
            return {'what': f'malformed attribute {t} reported instead of discarded', 'input': inp}
        got.pop(names[t], None)
    if got != exp:
        return {'what': 'attribute discard changed the other attributes', 'input': inp, 'expected': str(exp)[:400], 'observed': str(got)[:400]}
    return None


@bounded('C08', 'single-attribute-corruption')
def single_attribute_corruption(tier, seed):
    rnd = random.Random(seed)
    n = 12 if tier == 'quick' else 200
    fails, evals, distinct, samples = [], 0, set(), []
    for kind in ('ebgp4', 'ibgp2', 'addpath'):
        for _ in range(n):
            body, attrs, wd, nlri = P.gen_update(rnd, kind)
            if not nlri and not any(a == 'mp_reach' for a, _ in attrs):
                nlri = W.prefix4('10.77.0.0', 16, 3 if kind == 'addpath' else None)
            for k, (name, tlv) in enumerate(attrs):
                for what, new in corruptions(tlv):
                    blob = b''.join(t if j != k else new for j, (_, t) in enumerate(attrs))
                    if len(blob) > 65000:
                        continue
                    b2 = W.update_body(wd, blob, nlri)
                    evals += 1
                    distinct.add((kind, b2))
                    f = check(kind, b2, tlv[1], f'{name}: {what}')
                    if f:
                        fails.append(f)
                    if len(samples) < 4 and k == 0:
                        samples.append({'kind': kind, 'corruption': f'{name}: {what}', 'body': b2.hex()[:120]})
    return {'evaluations': evals, 'distinct_nontrivial': len(distinct), 'bound': f'{n} well-formed UPDATEs x 3 session kinds x every attribute x 11 corruptions (length +/-, declared length short/overrun, flags, unused flag bits, duplication, bad value, zero length), IPv4 and MP NLRI', 'rule': 'one case = one corrupted UPDATE body; distinct by bytes', 'samples': samples, 'failures': fails}


@replayer('C08', 'single-attribute-corruption')
def _replay(f):
    i = f['input']
    return check(i['kind'], bytes.fromhex(i['body']), i.get('attribute_type'), i.get('corruption')) is None


# ---------------------------------------------------------------------------------------------------------------------
# two-step histories through the REAL Protocol.read_message (the pipeline above hands the decoded message to the handler
# itself, and so never ran the statements of read_message which sit between the decoder and the handler -- one of them
# used to drop every UPDATE with a discarded attribute).  A route is stored first; the second UPDATE is malformed in one
# attribute and, per RFC 7606, must end in exactly one of: its routes withdrawn / the attribute alone dropped and THE
# REST APPLIED / the session reset.  "Nothing happened" is none of them.
import asyncio  # noqa: E402
import collections  # noqa: E402
import json  # noqa: E402


class _Peer:
    def __init__(self, nb):
        self.neighbor = nb
        self.stats = collections.defaultdict(int)
        self.events = []
        outer = self

        class _Processes:
            def message(self_, msg_id, peer_, direction, message, header, body, negotiated):
                from exabgp.reactor.api.response.json import JSON

                if getattr(message, 'IS_EOR', False):
                    outer.events.append({'eor': True})
                    return
                text = JSON('6.0.0').update(nb, direction, message.data, header, body, negotiated)
                outer.events.append(json.loads(text)['neighbor']['message'].get('update', {}))

            def __getattr__(self_, name):
                return lambda *a, **k: None

        class _Reactor:
            processes = _Processes()

        self.reactor = _Reactor()

    def id(self):
        return 'peer'


class _Conn:
    def __init__(self):
        self.msg_size = 4096
        self.next = None

    def session(self):
        return 's'

    async def reader_async(self):
        return self.next


def _history_session(kind):
    from exabgp.reactor.protocol import Protocol
    from exabgp.reactor.peer.context import PeerContext
    from exabgp.bgp.message.update.attribute.collection import AttributeCollection

    nb, neg = P.get_session(kind)
    nb.rib.incoming.clear_cache()
    AttributeCollection.cached = None
    AttributeCollection.previous = b''
    saved_api, saved_rib = nb.api, nb.adj_rib_in
    nb.api = dict(nb.api or {})
    for k in ('receive-parsed', 'receive-update'):
        nb.api[k] = True
    nb.adj_rib_in = True
    peer = _Peer(nb)
    proto = Protocol(peer)
    proto.negotiated = neg
    proto.connection = _Conn()
    ctx = PeerContext(proto=proto, neighbor=nb, negotiated=neg, refresh_enhanced=False, routes_per_iteration=1, peer_id='p', stats=peer.stats)
    return proto, ctx, peer, (nb, saved_api, saved_rib)


def _feed(sess, body):
    from exabgp.reactor.peer.handlers.update import UpdateHandler

    proto, ctx, peer, _ = sess
    header = b'\xff' * 16 + struct.pack('!HB', 19 + len(body), 2)
    proto.connection.next = (19 + len(body), 2, header, body, None)
    before = len(peer.events)
    loop = asyncio.new_event_loop()
    try:
        try:
            msg = loop.run_until_complete(proto.read_message())
        except Exception as e:  # noqa
            if type(e).__name__ in ('Notify',):
                return ('notification', (e.code, e.subcode)), []
            return ('exception', f'{type(e).__name__}: {e}'[:160]), []
        h = UpdateHandler()
        if h.can_handle(msg):
            loop.run_until_complete(h.handle_async(ctx, msg))
    finally:
        loop.close()
    return ('update', None), peer.events[before:]


def _rib(sess):
    return {str(r.nlri): json.loads('{' + r.attributes.json() + '}') for r in sess[1].neighbor.rib.incoming.cached_routes()}


def _attr(flag, code, value):
    return bytes([flag, code, len(value)]) + value


def _history_cases():
    origin, aspath, nh = W.origin(0), W.as_path([65001], True), W.next_hop('192.0.2.1')
    base = origin + aspath + nh
    med10, med20 = _attr(0x80, 4, (10).to_bytes(4, 'big')), _attr(0x80, 4, (20).to_bytes(4, 'big'))
    p0, p1 = bytes([24, 10, 0, 0]), bytes([24, 10, 0, 1])
    nh6 = bytes.fromhex('20010db8000000000000000000000001')
    mp_value = struct.pack('!HB', 2, 1) + b'\x10' + nh6 + b'\x00' + bytes([32, 0x20, 0x01, 0x0D, 0xB8])
    unreach_value = struct.pack('!HB', 2, 1) + bytes([32, 0x20, 0x01, 0x0D, 0xB8])
    v4 = W.update_body(b'', base + med10, p0)
    v6 = W.update_body(b'', origin + aspath + med10 + _attr(0x80, 14, mp_value), b'')
    cases = []
    # discard class (RFC 7606 7.6, 7.7; RFC 7311 3.4): the rest of the UPDATE -- its withdraw and its announce -- applies
    for name, bad in (
        ('AGGREGATOR of 5 octets', _attr(0xC0, 7, bytes(5))),
        ('ATOMIC_AGGREGATE of 1 octet', _attr(0x40, 6, b'\x00')),
        ('AS4_AGGREGATOR of 7 octets', _attr(0xC0, 18, bytes(7))),
        ('a valid AIGP on a session without the aigp capability', _attr(0x80, 26, b'\x01\x00\x0b' + (5).to_bytes(8, 'big'))),
    ):
        cases.append(('discard', name, v4, W.update_body(p0, base + bad, p1), {'10.0.0.0/24'}, {'10.0.1.0/24'}))
    # treat-as-withdraw class: the routes of the UPDATE are WITHDRAWN -- a route stored earlier for the same prefix goes
    cases.append(('taw', 'MED of 3 octets on a re-announcement of the stored prefix', v4, W.update_body(b'', base + _attr(0x80, 4, bytes(3)), p0), {'10.0.0.0/24'}, set()))
    cases.append(('taw', 'ORIGIN with value 9, next to an explicit withdraw of the stored prefix', v4, W.update_body(p0, _attr(0x40, 1, b'\x09') + aspath + nh, p1), {'10.0.0.0/24'}, set()))
    # the MP attributes themselves malformed at header level, and a header overrun in front of MP_REACH_NLRI
    cases.append(('mp', 'MP_REACH_NLRI with the transitive bit set', v6, W.update_body(b'', origin + aspath + med20 + _attr(0xC0, 14, mp_value), b''), {'2001:db8::/32'}, set()))
    cases.append(('mp', 'MP_REACH_NLRI of length zero', v6, W.update_body(b'', origin + aspath + med20 + _attr(0x80, 14, b''), b''), {'2001:db8::/32'}, set()))
    cases.append(('mp', 'MP_UNREACH_NLRI with the transitive bit set (the peer withdraws the route)', v6, W.update_body(b'', _attr(0xC0, 15, unreach_value), b''), {'2001:db8::/32'}, set()))
    # (known finding C08-overrun-before-mp-reach) a header overrun stops the attribute walk: an MP_REACH_NLRI placed after it
    # is never read, so there is nothing to withdraw -- and nothing is reset either
    cases.append(('mp', 'MED whose header overruns the block, placed before MP_REACH_NLRI', v6, W.update_body(b'', origin + aspath + bytes([0x80, 4, 0xF0]) + _attr(0x80, 14, mp_value), b''), {'2001:db8::/32'}, set()))
    # (known finding C08-aspath-zero-length-segment) RFC 7606 7.2: a path segment of length zero is a malformed AS_PATH
    cases.append(('hard', 'AS_PATH with a segment of length zero', v4, W.update_body(b'', origin + _attr(0x40, 2, b'\x02\x00\x02\x01' + (65001).to_bytes(4, 'big')) + nh, p1), set(), set()))
    # NEXT_HOP of 16 octets for routes of the NLRI field
    cases.append(('hard', 'NEXT_HOP of 16 octets', v4, W.update_body(b'', origin + aspath + _attr(0x40, 3, bytes(range(1, 17))), p1), set(), set()))
    return cases


def _history_case(k):
    cls_, name, first, second, gone, kept = _history_cases()[k]
    sess = _history_session('ebgp4')
    nb, saved_api, saved_rib = sess[3]
    inp = {'case': k, 'second_update': name, 'first': first.hex(), 'second': second.hex()}
    try:
        st, _ev = _feed(sess, first)
        if st[0] != 'update' or not _rib(sess):
            raise RuntimeError(f'harness: the first, well-formed UPDATE was not stored ({st})')
        before = _rib(sess)
        st, ev = _feed(sess, second)
        if st[0] == 'exception':
            return {'what': f'{name}: untyped error out of read_message / the handler: {st[1]}', 'input': inp}
        if st[0] == 'notification':
            if st[1][0] != 3:
                return {'what': f'{name}: session reset with NOTIFICATION {st[1]}, not an UPDATE Message Error', 'input': inp}
            return None  # session reset: one of the three outcomes
        after = _rib(sess)
        api_announced = any(e.get('announce') for e in ev)
        if cls_ == 'discard':
            want = (set(before) - gone) | kept
            if set(after) != want:
                return {'what': f'{name} (attribute discard): only the attribute is dropped and the rest kept -- Adj-RIB-In holds {sorted(after)}, the rest of the UPDATE (withdraw {sorted(gone)}, announce {sorted(kept)}) gives {sorted(want)}', 'input': inp, 'api_events': str(ev)[:300]}
            return None
        if cls_ == 'taw':
            left = set(after) & gone
            if left or (set(after) - set(before)):
                return {'what': f'{name} (treat-as-withdraw): its routes are reported as withdrawn -- Adj-RIB-In still holds {sorted(after)}', 'input': inp, 'api_events': str(ev)[:300]}
            return None
        if cls_ == 'mp':
            if set(after) & gone and after == before and not any(e.get('withdraw') for e in ev):
                return {'what': f'{name}: marked malformed, yet nothing was withdrawn, nothing was reset: Adj-RIB-In still holds {sorted(after)} exactly as before', 'input': inp}
            return None
        if api_announced or (set(after) - set(before)):
            return {'what': f'{name}: its routes were announced / stored ({sorted(set(after) - set(before))})', 'input': inp, 'api_events': str(ev)[:300]}
        return None
    finally:
        nb.api, nb.adj_rib_in = saved_api, saved_rib
        nb.rib.incoming.clear_cache()


@bounded('C08', 'histories-through-read-message')
def histories_through_read_message(tier, seed):
    fails = []
    n = len(_history_cases())
    for k in range(n):
        f = _history_case(k)
        if f:
            fails.append(f)
    return {'evaluations': n, 'distinct_nontrivial': n, 'bound': f'{n} two-UPDATE histories through the real Protocol.read_message, JSON encoder, UpdateHandler and Adj-RIB-In: a stored route, then an UPDATE with one malformed attribute of the discard class (4 shapes, carrying a withdraw and an announce), with MP_REACH / MP_UNREACH malformed at header level (3), with a 16 octet NEXT_HOP', 'rule': 'one case = (first UPDATE, second UPDATE)', 'samples': [{'second_update': _history_cases()[0][1]}], 'failures': fails}


@replayer('C08', 'histories-through-read-message')
def _replay_hist(f):
    return _history_case(f['input']['case']) is None


from .registry import region  # noqa: E402


@region('C08-overrun-before-mp-reach')
def _region_overrun(failure):
    return failure.get('input', {}).get('second_update') == 'MED whose header overruns the block, placed before MP_REACH_NLRI' and 'nothing was withdrawn' in failure.get('what', '')


@region('C08-aspath-zero-length-segment')
def _region_zero_segment(failure):
    return failure.get('input', {}).get('second_update') == 'AS_PATH with a segment of length zero' and 'announced / stored' in failure.get('what', '')


# ---------------------------------------------------------------------------------------------------------------------
# RFC 7606 section 3.d: an UPDATE which announces routes and lacks a well-known mandatory attribute is treat-as-withdraw --
# ORIGIN, AS_PATH, NEXT_HOP (for the NLRI field), and LOCAL_PREF on an iBGP session (RFC 4271 5.1.5: "SHALL be included in
# all UPDATE messages that a given BGP speaker sends to other internal peers")
def missing_case(kind, absent):
    parts = {'ORIGIN': W.origin(0), 'AS_PATH': W.as_path([] if kind.startswith('ibgp') else [65001], kind != 'ibgp2'), 'NEXT_HOP': W.next_hop('192.0.2.1'), 'LOCAL_PREF': bytes([0x40, 5, 4, 0, 0, 0, 100])}
    blob = b''.join(v for k, v in parts.items() if k not in absent and (k != 'LOCAL_PREF' or kind.startswith('ibgp')))
    body = W.update_body(b'', blob, W.prefix4('10.77.0.0', 16, None))
    inp = {'kind': kind, 'absent': sorted(absent), 'body': body.hex()}
    obs = P.observe(kind, body)
    if obs['status'] == 'exception':
        return {'what': f'decoder raised a non-NOTIFICATION error: {obs["exc"]}', 'input': inp}
    if obs['status'] == 'notify':
        return None if absent else {'what': f'a complete UPDATE was refused with NOTIFICATION {obs["code"]}', 'input': inp}
    announced = bool(obs.get('update', {}).get('announce')) or bool(obs.get('rib'))
    if absent and announced:
        return {'what': f'routes announced / stored although the UPDATE lacks {" and ".join(sorted(absent))}', 'input': inp, 'observed': str(obs.get('update'))[:300]}
    if not absent and not announced:
        return {'what': 'a complete UPDATE was not announced', 'input': inp}
    return None


@region('C08-ibgp-missing-local-pref')
def ibgp_local_pref_region(failure):
    """recorded defect: on an iBGP session an UPDATE without LOCAL_PREF is announced and stored; only that attribute, only iBGP"""
    i = failure.get('input', {})
    return failure.get('what', '').startswith('routes announced / stored although the UPDATE lacks') and i.get('absent') == ['LOCAL_PREF'] and str(i.get('kind', '')).startswith('ibgp')


@bounded('C08', 'missing-mandatory-attributes')
def missing_mandatory(tier, seed):
    import itertools

    fails, evals = [], 0
    for kind in ('ebgp4', 'ibgp2'):
        names = ['ORIGIN', 'AS_PATH', 'NEXT_HOP'] + (['LOCAL_PREF'] if kind.startswith('ibgp') else [])
        for n in range(0, len(names) + 1):
            for absent in itertools.combinations(names, n):
                evals += 1
                f = missing_case(kind, set(absent))
                if f:
                    fails.append(f)
    return {'evaluations': evals, 'distinct_nontrivial': evals, 'exhaustive': True, 'bound': 'every subset of the well-known mandatory attributes left out of an UPDATE announcing 10.77.0.0/16, on an eBGP (ORIGIN, AS_PATH, NEXT_HOP) and an iBGP session (plus LOCAL_PREF): announced iff nothing is missing', 'rule': 'one case = (session kind, absent attributes)', 'samples': [{'kind': 'ibgp2', 'absent': ['LOCAL_PREF']}], 'failures': fails}


@replayer('C08', 'missing-mandatory-attributes')
def _replay_missing(f):
    return missing_case(f['input']['kind'], set(f['input']['absent'])) is None
