from .registry import bounded, replayer


@bounded('C12', 'keepalive-all-holdtimes')
def keepalive_all(tier, seed):
    """HoldTime.keepalive() == H // 3 for every hold time 0..65535 (complete: the domain is finite)"""
    from exabgp.bgp.message.open.holdtime import HoldTime

    fails = []
    for h in range(0, 65536):
        k = HoldTime(h).keepalive()
        if k != h // 3 or not isinstance(k, int):
            fails.append({'what': f'HoldTime({h}).keepalive() == {k}, expected {h // 3}', 'input': h})
    return {
        'evaluations': 65536,
        'distinct_nontrivial': 65536,
        'exhaustive': True,
        'bound': 'all 65536 hold times',
        'rule': 'every hold time 0..65535; each value is a distinct case',
        'samples': [{'holdtime': h, 'keepalive': HoldTime(h).keepalive()} for h in (0, 3, 90, 65535)],
        'failures': fails,
    }


# ---------------------------------------------------------------------------------------------------------------------
# the scheduling half the timer contracts leave open ("how often the main loop polls the timers"): the real Peer over
# loopback TCP (bounded/sessionharness.py) under a peer that never stops talking
@bounded('C12', 'keepalives-under-load')
def keepalives_under_load(tier, seed):
    """negotiated hold time 3 s (KEEPALIVE every second, RFC 4271 4.4: a third of the hold time); the remote sends an
    UPDATE or a KEEPALIVE every 40 ms for 3.6 s, so the main loop never has an idle turn; ExaBGP must still send its own
    KEEPALIVEs (at least 2 in that window), and must not drop the session (the remote never lets the hold time pass)"""
    import asyncio
    from . import sessionharness as S
    from spec import wire as W

    async def scenario(kind):
        sess = S.Session()
        inp = {'scenario': f'hold time 3, peer sends {kind} every 40 ms for 3.6 s'}
        try:
            try:
                await sess.to_state('ESTABLISHED', peer_open=S.open_msg(hold=3))
            except RuntimeError as e:
                return {'what': f'harness: {e}', 'input': inp, 'harness': True}
            attrs = W.origin(0) + W.as_path([65002], True) + W.next_hop('192.0.2.1')
            before = len([e for e in sess.log if e[0] == 'sent' and e[2] == 4])
            t0 = asyncio.get_event_loop().time()
            n = 0
            while asyncio.get_event_loop().time() - t0 < 3.6:
                n += 1
                if kind == 'updates':
                    await sess.remote.send(S.msg(2, W.update_body(b'', attrs, bytes([24, 10, n & 255, (n >> 8) & 255]))))
                else:
                    await sess.remote.send(S.KEEPALIVE)
                await asyncio.sleep(0.04)
                # drain what ExaBGP writes so that its socket never blocks
                try:
                    while True:
                        d = sess.remote.sock.recv(65536)
                        if not d:
                            break
                except (BlockingIOError, OSError):
                    pass
            kas = len([e for e in sess.log if e[0] == 'sent' and e[2] == 4]) - before
            nots = [e for e in sess.log if e[0] == 'sent' and e[2] == 3]
            sess.peer.teardown(2)
            await sess.finish(timeout=4)
            if nots:
                return {'what': f'the session was dropped (NOTIFICATION {nots[0][3][0]}/{nots[0][3][1]}) although the peer never was silent', 'input': inp}
            if kas < 2:
                return {'what': f'{kas} KEEPALIVE sent in 3.6 s with a negotiated hold time of 3 s (one per second is due): the peer would time the session out', 'input': inp}
            return None
        finally:
            sess.cleanup()

    fails = []
    for kind in ('updates', 'keepalives'):
        f = S.run(scenario(kind), timeout=30)
        if f and f.get('harness'):
            raise RuntimeError(f['what'])
        if f:
            fails.append(f)
    return {'evaluations': 2, 'distinct_nontrivial': 2, 'bound': 'two 3.6 s sessions of the real Peer with a negotiated hold time of 3 s under a peer sending every 40 ms', 'rule': 'one case = one kind of load', 'samples': [{'load': 'updates'}], 'failures': fails}


@replayer('C12', 'keepalives-under-load')
def _replay_load(f):
    r = keepalives_under_load('quick', 1)
    return not any(x['input'] == f['input'] for x in r['failures'])


# ---------------------------------------------------------------------------------------------------------------------
# a peer slow to confirm the OPEN and never silent for H: the KEEPALIVE which confirms the OPEN restarts the hold timer
@bounded('C12', 'slow-confirmation')
def slow_confirmation(tier, seed):
    """negotiated hold time 3 s; the remote sends its first KEEPALIVE `delay` seconds after its OPEN and then one every
    2 s (never silent for 3 s): the session must still be up 2.5 s after the first KEEPALIVE -- a hold timer still
    counting from the OPEN would fire at 3 s"""
    import asyncio
    import multiprocessing as mp

    delays = (0.0, 1.0, 2.2) if tier == 'quick' else (0.0, 0.5, 1.0, 1.5, 2.2, 2.6)
    with mp.get_context('fork').Pool(len(delays)) as pool:
        res = pool.map(_slow_case, delays)
    crashes = [r for r in res if r and r.get('harness')]
    if crashes:
        raise RuntimeError('session harness failed: ' + crashes[0]['what'])
    fails = [r for r in res if r]
    return {'evaluations': len(delays), 'distinct_nontrivial': len(delays), 'bound': f'hold time 3 s, first KEEPALIVE of the peer {list(delays)} s after its OPEN, then one every 2 s for 4.5 s: real Peer over loopback TCP', 'rule': 'one case = one delay', 'samples': [{'first_keepalive_after_s': 2.2}], 'failures': fails}


def _slow_case(delay):
    import asyncio
    from . import sessionharness as S

    async def go():
        sess = S.Session()
        inp = {'first_keepalive_after_s': delay, 'hold': 3}
        try:
            try:
                await sess.to_state('OPENCONFIRM', peer_open=S.open_msg(hold=3))
            except RuntimeError as e:
                return {'what': f'harness: {e}', 'input': inp, 'harness': True}
            await asyncio.sleep(delay)
            t0 = asyncio.get_event_loop().time()
            await sess.remote.send(S.KEEPALIVE)
            last = t0
            while asyncio.get_event_loop().time() - t0 < 4.5:
                await asyncio.sleep(0.1)
                now = asyncio.get_event_loop().time()
                if now - last >= 2.0:
                    await sess.remote.send(S.KEEPALIVE)
                    last = now
                try:
                    while sess.remote.sock.recv(65536):
                        pass
                except (BlockingIOError, OSError):
                    pass
                nots = [e for e in sess.log if e[0] == 'sent' and e[2] == 3]
                if nots or sess.transport_closed():
                    break
            nots = [e for e in sess.log if e[0] == 'sent' and e[2] == 3]
            state = sess.peer.fsm.name()
            since = asyncio.get_event_loop().time() - last
            sess.peer.teardown(2)
            await sess.finish(timeout=4)
            if nots or state != 'ESTABLISHED':
                return {'what': f'the session ended' + (f' with NOTIFICATION {nots[0][3][0]}/{nots[0][3][1]}' if nots else f' in state {state}') + f' {since:.1f} s after the last KEEPALIVE of a peer which was never silent for the 3 s hold time (first KEEPALIVE {delay} s after its OPEN)', 'input': inp}
            return None
        finally:
            sess.cleanup()

    return S.run(go(), timeout=40)


@replayer('C12', 'slow-confirmation')
def _replay_slow(f):
    return _slow_case(f['input']['first_keepalive_after_s']) is None


# ---------------------------------------------------------------------------------------------------------------------
# the hold timer runs as soon as the hold time is negotiated (RFC 4271 8.2.2, OpenConfirm): a peer which sends its OPEN
# and then nothing gets 4/0 after H, not before, and is not waited for for ever
def _silent_case(hold):
    import asyncio
    from . import sessionharness as S

    async def go():
        sess = S.Session()
        inp = {'state': 'OPENCONFIRM', 'hold': hold}
        try:
            try:
                await sess.to_state('OPENCONFIRM', peer_open=S.open_msg(hold=hold))
            except RuntimeError as e:
                return {'what': f'harness: {e}', 'input': inp, 'harness': True}
            t0 = asyncio.get_event_loop().time()
            fired = None
            while asyncio.get_event_loop().time() - t0 < hold + 2.5:
                await asyncio.sleep(0.05)
                nots = [e for e in sess.log if e[0] == 'sent' and e[2] == 3]
                if nots or sess.transport_closed():
                    fired = asyncio.get_event_loop().time() - t0
                    break
            nots = [e for e in sess.log if e[0] == 'sent' and e[2] == 3]
            sess.peer.teardown(2)
            await sess.finish(timeout=4)
            if fired is None:
                return {'what': f'a peer silent in OPENCONFIRM for {hold + 2.5:.1f} s with a negotiated hold time of {hold} s is still waited for (no NOTIFICATION 4/0, connection open)', 'input': inp}
            if fired < hold - 0.2:
                return {'what': f'the session was closed after {fired:.1f} s of silence, less than the hold time of {hold} s', 'input': inp}
            if not nots or (nots[0][3][0], nots[0][3][1]) != (4, 0):
                return {'what': f'silence in OPENCONFIRM ended the session without NOTIFICATION 4/0 (sent: {[(n[3][0], n[3][1]) for n in nots]})', 'input': inp}
            return None
        finally:
            sess.cleanup()

    return S.run(go(), timeout=40)


@bounded('C12', 'silent-in-openconfirm')
def silent_in_openconfirm(tier, seed):
    import multiprocessing as mp

    holds = (3,) if tier == 'quick' else (3, 4, 6)
    with mp.get_context('fork').Pool(len(holds)) as pool:
        res = pool.map(_silent_case, holds)
    crashes = [r for r in res if r and r.get('harness')]
    if crashes:
        raise RuntimeError('session harness failed: ' + crashes[0]['what'])
    fails = [r for r in res if r]
    return {'evaluations': len(holds), 'distinct_nontrivial': len(holds), 'bound': f'negotiated hold time {list(holds)} s, the peer sends its OPEN and nothing else: real Peer over loopback TCP, observed for H + 2.5 s', 'rule': 'one case = one hold time', 'samples': [{'hold': 3}], 'failures': fails}


@replayer('C12', 'silent-in-openconfirm')
def _replay_silent(f):
    return _silent_case(f['input']['hold']) is None


# ---------------------------------------------------------------------------------------------------------------------
# the hold time is the one negotiated for THIS session: two sessions of one Peer object which negotiate different hold
# times, the remote then goes silent on the second one
def _two_sessions_case(first_hold, second_hold):
    import asyncio
    from . import sessionharness as S
    from .c05 import Traced

    async def go():
        sess = Traced()
        inp = {'first_session_hold': first_hold, 'second_session_hold': second_hold}
        try:
            try:
                await sess.to_state('ESTABLISHED', peer_open=S.open_msg(hold=first_hold))
            except RuntimeError as e:
                return {'what': f'harness: {e}', 'input': inp, 'harness': True}
            await sess.remote.send(S.msg(3, bytes([6, 2])))  # the remote ends the first session with a Cease
            await sess.remote.drain_until_close(timeout=2.5)
            await sess.finish(timeout=4)
            sess.peer._restart = True
            sess.peer._teardown = None
            sess.again()
            mark = len(sess.log)
            try:
                await sess.to_state('ESTABLISHED', peer_open=S.open_msg(hold=second_hold))
            except RuntimeError as e:
                return {'what': f'harness: second session: {e}', 'input': inp, 'harness': True}
            t0 = asyncio.get_event_loop().time()
            silent_for = min(second_hold, 3) + 2.0
            fired = None
            while asyncio.get_event_loop().time() - t0 < silent_for:
                await asyncio.sleep(0.05)
                try:
                    while sess.remote.sock.recv(65536):
                        pass
                except (BlockingIOError, OSError):
                    pass
                nots = [e for e in sess.log[mark:] if e[0] == 'sent' and e[2] == 3]
                if nots:
                    fired = asyncio.get_event_loop().time() - t0
                    break
            nots = [e for e in sess.log[mark:] if e[0] == 'sent' and e[2] == 3]
            sess.peer.teardown(2)
            await sess.finish(timeout=4)
            if second_hold <= 3:
                if fired is None:
                    return {'what': f'second session of the same peer, hold time {second_hold} s (the first had {first_hold} s): {silent_for:.1f} s of silence and no NOTIFICATION 4/0', 'input': inp}
                if fired < second_hold - 0.3 or (nots[0][3][0], nots[0][3][1]) != (4, 0):
                    return {'what': f'second session, hold time {second_hold} s: NOTIFICATION {nots[0][3][0]}/{nots[0][3][1]} after {fired:.1f} s of silence', 'input': inp}
            elif fired is not None:
                return {'what': f'second session of the same peer, hold time {second_hold} s (the first had {first_hold} s): closed with NOTIFICATION {nots[0][3][0]}/{nots[0][3][1]} after only {fired:.1f} s of silence', 'input': inp}
            return None
        finally:
            sess.cleanup()

    return S.run(go(), timeout=60)


def two_session_hold_times(tier, seed):
    import multiprocessing as mp

    cases = [(180, 3), (3, 180)] if tier == 'quick' else [(180, 3), (3, 180), (3, 3), (9, 3), (3, 9)]
    with mp.get_context('fork').Pool(len(cases)) as pool:
        res = pool.starmap(_two_sessions_case, cases)
    crashes = [r for r in res if r and r.get('harness')]
    if crashes:
        raise RuntimeError('session harness failed: ' + crashes[0]['what'])
    fails = [r for r in res if r]
    return {'evaluations': len(cases), 'distinct_nontrivial': len(cases), 'bound': f'two consecutive sessions of one Peer object negotiating the hold times {cases}; the remote ends the first with a Cease and goes silent on the second: real Peer over loopback TCP', 'rule': 'one case = (hold time of the first session, of the second)', 'samples': [{'first_session_hold': 180, 'second_session_hold': 3}], 'failures': fails}


bounded('C12', 'two-session-hold-times')(two_session_hold_times)
bounded('C10', 'two-session-hold-times')(two_session_hold_times)


def _replay_two(f):
    return _two_sessions_case(f['input']['first_session_hold'], f['input']['second_session_hold']) is None


replayer('C12', 'two-session-hold-times')(_replay_two)
replayer('C10', 'two-session-hold-times')(_replay_two)


# ---------------------------------------------------------------------------------------------------------------------
# the clock the timers read.  The timer contracts REQUIRE `last_read <= int(now)` ("an earlier reading of the same
# non-decreasing clock"); the code reads time.time(), the wall clock, which an operator or NTP can step.
from .registry import region  # noqa: E402


def _clock_case(kind):
    """the real ReceiveTimer / SendTimer with exabgp.bgp.timer's clock replaced by a scripted one"""
    import exabgp.bgp.timer as T
    from exabgp.bgp.message import KeepAlive, _NOP
    from exabgp.bgp.message.notification import Notify
    from exabgp.bgp.message.open.holdtime import HoldTime

    class Clock:
        now = 1_000_000.0

        def time(self):
            return self.now

    clock, real = Clock(), T.time
    T.time = clock
    inp = {'scenario': kind}
    try:
        if kind == 'forward-step-on-a-live-session':
            timer = T.ReceiveTimer(lambda: 'probe', HoldTime(90), 4, 0, 'hold timer expired')
            timer.check_ka(KeepAlive())  # a KEEPALIVE just arrived
            clock.now += 0.4
            clock.now += 120  # the wall clock is stepped forward by two minutes
            try:
                timer.check_ka(_NOP)
            except Notify:
                return {'what': 'hold time 90 s, a KEEPALIVE received 0.4 s ago, the wall clock stepped forward by 120 s: the session is closed with 4/0 for a silence shorter than the hold time', 'input': inp}
            return None
        if kind == 'backward-step-with-a-silent-peer':
            timer = T.ReceiveTimer(lambda: 'probe', HoldTime(3), 4, 0, 'hold timer expired')
            timer.check_ka(KeepAlive())
            clock.now -= 60  # the wall clock is stepped back by a minute
            for _ in range(50):  # 50 s of silence, looked at every second
                clock.now += 1
                try:
                    timer.check_ka(_NOP)
                except Notify:
                    return None
            return {'what': 'hold time 3 s, the wall clock stepped back by 60 s, then 50 s of silence: the hold timer does not fire', 'input': inp}
        if kind == 'backward-step-keepalives':
            send = T.SendTimer(lambda: 'probe', HoldTime(3))
            clock.now -= 60
            for _ in range(50):
                clock.now += 1
                if send.need_ka():
                    return None
            return {'what': 'hold time 3 s (a KEEPALIVE is due every second), the wall clock stepped back by 60 s: no KEEPALIVE is due for 50 s', 'input': inp}
    finally:
        T.time = real
    return None


@region('C12-wall-clock-step')
def clock_step_region(failure):
    """recorded: bgp/timer.py computes with int(time.time()), the wall clock.  A step of that clock (an operator, NTP) is taken
    for elapsed time: forward, a live session is closed with 4/0; backward, neither timer fires until the clock has caught
    up.  Only the three stepped-clock scenarios of `clock-steps`."""
    return failure.get('input', {}).get('scenario') in ('forward-step-on-a-live-session', 'backward-step-with-a-silent-peer', 'backward-step-keepalives')


@bounded('C12', 'clock-steps')
def clock_steps(tier, seed):
    kinds = ['forward-step-on-a-live-session', 'backward-step-with-a-silent-peer', 'backward-step-keepalives']
    fails = [f for f in (_clock_case(k) for k in kinds) if f]
    return {'evaluations': len(kinds), 'distinct_nontrivial': len(kinds), 'bound': 'the real ReceiveTimer / SendTimer with a scripted clock: one forward step of 120 s on a live session (hold time 90), one backward step of 60 s with a silent peer / with KEEPALIVEs due (hold time 3), 50 s observed', 'rule': 'one case = one scenario', 'samples': [{'scenario': kinds[0]}], 'failures': fails}


@replayer('C12', 'clock-steps')
def _replay_clock(f):
    return _clock_case(f['input']['scenario']) is None
