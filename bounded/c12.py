from .registry import bounded


@bounded('C12', 'keepalive-all-holdtimes')
def keepalive_all(tier, seed):
    """HoldTime.keepalive() == H // 3 for every hold time 0..65535 (complete: the domain is finite)"""
    from exabgp.bgp.message.open.holdtime import HoldTime

    fails = []
    for h in range(0, 65536):
        k = HoldTime(h).keepalive()
        if k != h // 3 or not isinstance(k, int):
            fails.append({'what': f'HoldTime({h}).keepalive() == {k}, expected {h // 3}', 'input': h})
    return {
        'evaluations': 65536,
        'distinct_nontrivial': 65536,
        'exhaustive': True,
        'bound': 'all 65536 hold times',
        'rule': 'every hold time 0..65535; each value is a distinct case',
        'samples': [{'holdtime': h, 'keepalive': HoldTime(h).keepalive()} for h in (0, 3, 90, 65535)],
        'failures': fails,
    }
