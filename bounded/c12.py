from .registry import bounded, replayer


@bounded('C12', 'keepalive-all-holdtimes')
def keepalive_all(tier, seed):
    """HoldTime.keepalive() == H // 3 for every hold time 0..65535 (complete: the domain is finite)"""
    from exabgp.bgp.message.open.holdtime import HoldTime

    fails = []
    for h in range(0, 65536):
        k = HoldTime(h).keepalive()
        if k != h // 3 or not isinstance(k, int):
            fails.append({'what': f'HoldTime({h}).keepalive() == {k}, expected {h // 3}', 'input': h})
    return {
        'evaluations': 65536,
        'distinct_nontrivial': 65536,
        'exhaustive': True,
        'bound': 'all 65536 hold times',
        'rule': 'every hold time 0..65535; each value is a distinct case',
        'samples': [{'holdtime': h, 'keepalive': HoldTime(h).keepalive()} for h in (0, 3, 90, 65535)],
        'failures': fails,
    }


# ---------------------------------------------------------------------------------------------------------------------
# the scheduling half the timer contracts leave open ("how often the main loop polls the timers"): the real Peer over
# loopback TCP (bounded/sessionharness.py) under a peer that never stops talking
@bounded('C12', 'keepalives-under-load')
def keepalives_under_load(tier, seed):
    """negotiated hold time 3 s (KEEPALIVE every second, RFC 4271 4.4: a third of the hold time); the remote sends an
    UPDATE or a KEEPALIVE every 40 ms for 3.6 s, so the main loop never has an idle turn; ExaBGP must still send its own
    KEEPALIVEs (at least 2 in that window), and must not drop the session (the remote never lets the hold time pass)"""
    import asyncio
    from . import sessionharness as S
    from spec import wire as W

    async def scenario(kind):
        sess = S.Session()
        inp = {'scenario': f'hold time 3, peer sends {kind} every 40 ms for 3.6 s'}
        try:
            try:
                await sess.to_state('ESTABLISHED', peer_open=S.open_msg(hold=3))
            except RuntimeError as e:
                return {'what': f'harness: {e}', 'input': inp, 'harness': True}
            attrs = W.origin(0) + W.as_path([65002], True) + W.next_hop('192.0.2.1')
            before = len([e for e in sess.log if e[0] == 'sent' and e[2] == 4])
            t0 = asyncio.get_event_loop().time()
            n = 0
            while asyncio.get_event_loop().time() - t0 < 3.6:
                n += 1
                if kind == 'updates':
                    await sess.remote.send(S.msg(2, W.update_body(b'', attrs, bytes([24, 10, n & 255, (n >> 8) & 255]))))
                else:
                    await sess.remote.send(S.KEEPALIVE)
                await asyncio.sleep(0.04)
                # drain what ExaBGP writes so that its socket never blocks
                try:
                    while True:
                        d = sess.remote.sock.recv(65536)
                        if not d:
                            break
                except (BlockingIOError, OSError):
                    pass
            kas = len([e for e in sess.log if e[0] == 'sent' and e[2] == 4]) - before
            nots = [e for e in sess.log if e[0] == 'sent' and e[2] == 3]
            sess.peer.teardown(2)
            await sess.finish(timeout=4)
            if nots:
                return {'what': f'the session was dropped (NOTIFICATION {nots[0][3][0]}/{nots[0][3][1]}) although the peer never was silent', 'input': inp}
            if kas < 2:
                return {'what': f'{kas} KEEPALIVE sent in 3.6 s with a negotiated hold time of 3 s (one per second is due): the peer would time the session out', 'input': inp}
            return None
        finally:
            sess.cleanup()

    fails = []
    for kind in ('updates', 'keepalives'):
        f = S.run(scenario(kind), timeout=30)
        if f and f.get('harness'):
            raise RuntimeError(f['what'])
        if f:
            fails.append(f)
    return {'evaluations': 2, 'distinct_nontrivial': 2, 'bound': 'two 3.6 s sessions of the real Peer with a negotiated hold time of 3 s under a peer sending every 40 ms', 'rule': 'one case = one kind of load', 'samples': [{'load': 'updates'}], 'failures': fails}


@replayer('C12', 'keepalives-under-load')
def _replay_load(f):
    r = keepalives_under_load('quick', 1)
    return not any(x['input'] == f['input'] for x in r['failures'])
