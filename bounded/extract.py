"""mechanical extraction of statement groups from the REAL source of a function, so that a harness which cannot run the
whole function (Peer._main needs a live session) still executes the real text of the parts it needs.
What is dropped is everything outside the extracted group; the group itself is executed unmodified."""
import ast
import importlib
import os

SRC = os.path.join(os.environ.get('PYVC_REPO', '/repo'), 'src', 'exabgp')


def _find(node, qualname):
    for part in qualname.split('.'):
        for n in ast.walk(node):
            if n is not node and isinstance(n, (ast.FunctionDef, ast.AsyncFunctionDef, ast.ClassDef)) and n.name == part:
                node = n
                break
        else:
            raise LookupError(f'{qualname}: {part} not found')
    return node


def statements(file, qualname, first_prefix, last_prefix=None):
    """consecutive sibling statements of `qualname`, from the one whose source starts with first_prefix through the one
    starting with last_prefix (or only the first one).  Fails loudly when the anchors no longer match the tree."""
    with open(os.path.join(SRC, file)) as f:
        tree = ast.parse(f.read())
    fn = _find(tree, qualname)
    for parent in ast.walk(fn):
        for field in ('body', 'orelse', 'finalbody'):
            body = getattr(parent, field, None)
            if not isinstance(body, list):
                continue
            texts = [ast.unparse(s) if isinstance(s, ast.stmt) else '' for s in body]
            for i, t in enumerate(texts):
                if t.startswith(first_prefix):
                    if last_prefix is None:
                        return body[i : i + 1]
                    for j in range(i, len(body)):
                        if texts[j].startswith(last_prefix):
                            return body[i : j + 1]
                    raise LookupError(f'{qualname}: end anchor `{last_prefix}` not found after `{first_prefix}`')
    raise LookupError(f'{qualname}: anchor `{first_prefix}` not found in the current tree')


def runner(file, qualname, first_prefix, last_prefix=None):
    """-> callable(**locals) executing the extracted statements in the module's globals"""
    stmts = statements(file, qualname, first_prefix, last_prefix)
    mod = importlib.import_module('exabgp.' + file[:-3].replace('/', '.'))
    code = compile(ast.fix_missing_locations(ast.Module(body=list(stmts), type_ignores=[])), f'<extracted {qualname}>', 'exec')
    text = '\n'.join(ast.unparse(s) for s in stmts)

    def run(**locs):
        exec(code, mod.__dict__, locs)
        return locs

    run.text = text
    return run


def async_runner(file, qualname, first_prefix, last_prefix=None):
    """like runner(), for statements which contain `await`: they are wrapped, unmodified, in `async def extracted(**locals)`
    whose parameters are the names the caller passes; returns an async callable(**locals)"""
    stmts = statements(file, qualname, first_prefix, last_prefix)
    mod = importlib.import_module('exabgp.' + file[:-3].replace('/', '.'))
    text = '\n'.join(ast.unparse(s) for s in stmts)

    def build(names):
        args = ast.arguments(posonlyargs=[], args=[ast.arg(arg=n) for n in names], kwonlyargs=[], kw_defaults=[], defaults=[])
        # the statements, unmodified, followed by `return locals()` so that the caller sees what they assigned
        ret = ast.Return(value=ast.Call(func=ast.Name(id='locals', ctx=ast.Load()), args=[], keywords=[]))
        fn = ast.AsyncFunctionDef(name='extracted', args=args, body=list(stmts) + [ret], decorator_list=[], returns=None, type_comment=None)
        try:
            fn.type_params = []
        except Exception:  # noqa
            pass
        code = compile(ast.fix_missing_locations(ast.Module(body=[fn], type_ignores=[])), f'<extracted {qualname}>', 'exec')
        ns = {}
        exec(code, mod.__dict__, ns)
        return ns['extracted']

    cache = {}

    async def run(**locs):
        names = tuple(sorted(locs))
        if names not in cache:
            cache[names] = build(names)
        return await cache[names](**locs)

    run.text = text
    return run
