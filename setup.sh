#!/bin/sh
# Builds /verif/.venv offline: python 3.12 + z3-solver, cvc5, crosshair-tool, icontract, deal, jsonschema
# from /opt/veriftools/wheels, overlaid on /venv's site-packages so that `exabgp` (from /repo/src) imports.
set -e
cd "$(dirname "$0")"
V=.venv
if [ -x "$V/bin/python" ] && "$V/bin/python" -c "import z3, cvc5, jsonschema" 2>/dev/null; then
  echo "setup: $V already usable"; exit 0
fi
rm -rf "$V"
PY=/root/.pyenv/versions/3.12.1/bin/python
[ -x "$PY" ] || PY=$(readlink -f /venv/bin/python)
"$PY" -m venv "$V"
PIP_NO_INDEX=1 "$V/bin/pip" install -q --no-index --find-links /opt/veriftools/wheels z3-solver cvc5 crosshair-tool deal icontract jsonschema hypothesis
echo "import site; site.addsitedir('/venv/lib/python3.12/site-packages')" > "$V/lib/python3.12/site-packages/repo_overlay.pth"
PYTHONPATH=/repo/src exabgp_log_enable=false "$V/bin/python" -c "import z3, cvc5, exabgp; print('setup: ok', z3.get_version_string())"
