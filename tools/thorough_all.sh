#!/bin/sh
# tools/thorough_all.sh: every registered thorough command once, in a scratch copy of /verif (evidence of /verif untouched);
# one line per property with the real exit status of ./check.  /repo is read through a detached worktree of its HEAD, so
# that editing /repo meanwhile cannot reach a run which takes an hour (a half-edited import once showed as a checker crash)
S=/tmp/thor.$$; rm -rf $S; mkdir -p $S
git -C /repo worktree prune; git -C /repo worktree add --detach $S/repo HEAD -q || exit 2
export PYVC_REPO=$S/repo
rsync -a --exclude .git --exclude .venv --exclude .tmp --exclude replays /verif/ $S/verif/
ln -s /verif/.venv $S/verif/.venv; mkdir -p $S/verif/.tmp $S/verif/replays
cd $S/verif
# PROPS="C11 C12": these properties only (two halves can run side by side, each in its own scratch copy)
for p in ${PROPS:-C01 C02 C03 C04 C05 C06 C07 C08 C09 C10 C11 C12 C13 C14 C15 C16 C17 C18 C19 C20}; do
  ./check $p --tier thorough > $S/out.$p 2>&1; rc=$?
  grep -a -E "^VIOLATION|^UNDECIDED|CRASH|UNSOUND|tier=" $S/out.$p | cut -c1-220
  echo "  exit=$rc for $p"
done
git -C /repo worktree remove --force $S/repo; rm -rf $S
