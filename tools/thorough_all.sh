#!/bin/sh
# tools/thorough_all.sh: every registered thorough command once, in a scratch copy of /verif (evidence of /verif untouched);
# one line per property with the real exit status of ./check
S=/tmp/thor.$$; rm -rf $S; mkdir -p $S
rsync -a --exclude .git --exclude .venv --exclude .tmp --exclude replays /verif/ $S/verif/
ln -s /verif/.venv $S/verif/.venv; mkdir -p $S/verif/.tmp $S/verif/replays
cd $S/verif
for p in C01 C02 C03 C04 C05 C06 C07 C08 C09 C10 C11 C12 C13 C14 C15 C16 C17 C18 C19 C20; do
  ./check $p --tier thorough > $S/out.$p 2>&1; rc=$?
  grep -a -E "^VIOLATION|^UNDECIDED|CRASH|UNSOUND|tier=" $S/out.$p | cut -c1-220
  echo "  exit=$rc for $p"
done
rm -rf $S
