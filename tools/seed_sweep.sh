#!/bin/sh
# tools/seed_sweep.sh [shard-index shard-count]: every stored seed against the check of its own property, in SCRATCH copies
# of /repo (a git worktree) and /verif (rsync), so that /repo and /verif stay usable meanwhile; prints one line per seed;
# removes the copies at the end.  With two arguments only the seeds whose ordinal % count == index are run, one scratch
# pair per shard:   for i in 0 1 2 3; do sh tools/seed_sweep.sh $i 4 > .tmp/sweep.$i.log 2>&1 & done
I=${1:-0}; N=${2:-1}
S=/tmp/sweep.$I; rm -rf $S; mkdir -p $S
git -C /repo worktree prune
git -C /repo worktree add --detach $S/repo HEAD -q || exit 2
rsync -a --exclude .git --exclude .venv --exclude .tmp --exclude replays /verif/ $S/verif/
ln -s /verif/.venv $S/verif/.venv; mkdir -p $S/verif/.tmp $S/verif/replays
export REPO=$S/repo VERIF=$S/verif
cd /verif
k=0
for d in seeded/*/; do
  id=$(basename $d); p=${id%-*}
  # ONLY="C14 C17": the seeds of these properties only
  if [ -n "$ONLY" ]; then case " $ONLY " in *" $p "*) ;; *) continue;; esac; fi
  k=$((k+1)); [ $((k % N)) -eq $I ] || continue
  case $id in
    C06-3) p="C07 C06";; C12-3) p="C07 C12";; C01-3) p="C01 C07";; C15-1) p="C15 C16";; C15-3) p="C15 C01";;
  esac
  if ! git -C $REPO apply --check /verif/$d/patch.diff 2>/dev/null; then echo "$id NOAPPLY"; continue; fi
  out=$(/verif/tools/seedtest.sh $id $p 2>&1)
  v=$(echo "$out" | grep -c "^VIOLATION"); u=$(echo "$out" | grep -c "^UNDECIDED"); c=$(echo "$out" | grep -c "CRASH\\|UNSOUND")
  echo "$id vs [$p]: violations=$v undecided=$u crash_or_unsound=$c"
done
git -C /repo worktree remove --force $S/repo; rm -rf $S
