#!/bin/sh
# tools/seed_sweep.sh: every stored seed against the check of its own property (and the ones seed_meta names); prints one line per seed
cd /verif
for d in seeded/*/; do
  id=$(basename $d); p=${id%-*}
  case $id in
    C06-3) p="C07 C06";; C12-3) p="C07 C12";; C01-2) p="C01";; C01-3) p="C01 C07";; C08-3) p="C08";; C15-1) p="C15 C16";; C15-3) p="C15 C01";;
  esac
  if ! git -C /repo apply --check /verif/$d/patch.diff 2>/dev/null; then echo "$id NOAPPLY"; continue; fi
  out=$(tools/seedtest.sh $id $p 2>&1)
  v=$(echo "$out" | grep -c "^VIOLATION"); u=$(echo "$out" | grep -c "^UNDECIDED"); c=$(echo "$out" | grep -c "CRASH\|UNSOUND")
  echo "$id vs [$p]: violations=$v undecided=$u crash_or_unsound=$c"
done
