"""tools/gen_rte_table.py — (re)generate contracts/rte_table.json, the table behind contracts/rte_sweep.py.

NOT run by any check: the table is committed, the checks only read it.  Run by hand after the decoders of /repo change
shape (new decoder, new loop), review the diff, commit.

For every function of the decoding tree that takes bytes chosen by the peer (a `data` / `bgp` / Buffer parameter) and
reads them (index, slice, struct.unpack, int.from_bytes), it builds the contract

    params  : the buffer is ANY byte string of 0..65535 bytes; bool / int parameters any value; every other
              parameter an unconstrained object
    raises  : only the exception classes the CALLER converts (Notify; plus ValueError / IndexError below
              AttributeCollection._parse_one, which turns them into the RFC 7606 action)
    callees : a callee without a contract returns an unconstrained value and is assumed to raise nothing outside the
              allowed set -- discharged by the callee's own row when it has one, listed as an assumption otherwise
    loops   : invariant / variant found here by candidate elimination (Houdini): candidates `0 <= v`, `v <= len(buf)`
              for the integers the loop assigns, variants `len(buf)` / `len(buf) - v`; kept only when the engine proves
              them (entry, step, decrease), so a wrong candidate can not make anything pass

and keeps the functions the engine verifies completely on the current tree.  The others are listed with the reason
(out of reach of the engine, or refuted under these weakest assumptions and in need of a hand-written contract).
"""

import ast
import itertools
import json
import os
import sys
import time

os.environ.setdefault('exabgp_log_enable', 'false')
ROOT = os.path.dirname(os.path.dirname(os.path.abspath(__file__)))
sys.path.insert(0, ROOT)

from contracts.common import REG, Contract  # noqa: E402
import contracts.all  # noqa: E402,F401
from contracts.rte_sweep import build_contract, allowed_for, CLS_OVERRIDE, SKIP, ROOTS, TOKEN_ROOTS  # noqa: E402
from pyvc.verify import verify_function  # noqa: E402
from pyvc.contract import SRC  # noqa: E402

BUF_ANN = ('Buffer', 'bytes', 'memoryview', 'bytes | memoryview')
BUF_NAMES = ('data', 'bgp', 'packed', 'value')


def candidates():
    out = []
    for root in ROOTS + TOKEN_ROOTS:
        base = os.path.join(SRC, root)
        walk = os.walk(base) if os.path.isdir(base) else [(os.path.dirname(base), [], [os.path.basename(base)])]
        for dp, dn, fn in walk:
            for f in sorted(fn):
                if not f.endswith('.py'):
                    continue
                path = os.path.join(dp, f)
                rel = os.path.relpath(path, SRC)
                tree = ast.parse(open(path).read())

                def visit(node, prefix):
                    for n in node.body:
                        if isinstance(n, ast.ClassDef):
                            visit(n, prefix + [n.name])
                        elif isinstance(n, ast.FunctionDef):
                            names = [a.arg for a in n.args.args]
                            anns = {a.arg: (ast.unparse(a.annotation) if a.annotation else '') for a in n.args.args}
                            if names and names[0] == 'self':
                                continue
                            bufs = [a for a in names if anns[a] in BUF_ANN or (a in BUF_NAMES and anns[a] in ('', 'Any'))]
                            tokens = root in TOKEN_ROOTS and 'tokeniser' in names
                            if tokens:
                                bufs = []
                            elif not bufs or root in TOKEN_ROOTS:
                                continue
                            body = [s for s in n.body if not (isinstance(s, ast.Expr) and isinstance(s.value, ast.Constant))]
                            if len(body) == 1 and isinstance(body[0], ast.Raise):
                                continue  # abstract stub
                            reads = False
                            for sub in ast.walk(n):
                                if isinstance(sub, ast.Subscript) and isinstance(sub.value, ast.Name) and sub.value.id in bufs:
                                    reads = True
                                if isinstance(sub, ast.Call) and ast.unparse(sub.func) in ('unpack', 'struct.unpack', 'int.from_bytes', 'unpack_from'):
                                    reads = True
                            if not reads and not tokens:
                                continue
                            params = {}
                            for a in names:
                                an = anns[a]
                                if a == 'cls':
                                    params[a] = 'cls'
                                elif a == 'tokeniser' and tokens:
                                    params[a] = 'tokens'
                                elif a in bufs:
                                    params[a] = 'bytes'
                                elif an == 'bool':
                                    params[a] = 'bool'
                                elif an == 'int':
                                    params[a] = 'int'
                                else:
                                    params[a] = 'opaque'
                            loops = [s for s in ast.walk(n) if isinstance(s, (ast.While, ast.For))]
                            out.append({'file': rel, 'qualname': '.'.join(prefix + [n.name]), 'params': params, 'bufs': bufs, 'nloops': len(loops), 'node': n})

                visit(tree, [])
    return out


def verdict(rep):
    st = [cl['status'] for cl in rep.clauses().values()]
    if rep.out_of_reach:
        return 'out', rep.out_of_reach
    if 'refuted' in st:
        bad = [cl for cl in rep.clauses().values() if cl['status'] == 'refuted']
        return 'refuted', '; '.join(f'{cl["clause"]}: {cl["text"][:80]}' for cl in bad[:3])
    if 'undecided' in st:
        return 'undecided', ''
    return 'ok', ''


def loop_candidates(entry):
    """per loop ordinal: candidate invariants and variants from the names the loop assigns"""
    node = entry['node']
    loops = []

    def collect(n):
        for s in ast.iter_child_nodes(n):
            if isinstance(s, (ast.FunctionDef, ast.AsyncFunctionDef, ast.Lambda)) and s is not node:
                continue
            if isinstance(s, (ast.While, ast.For)):
                loops.append(s)
            collect(s)

    collect(node)
    specs = {}
    for k, lp in enumerate(loops):
        assigned = set()
        for sub in ast.walk(lp):
            if isinstance(sub, (ast.Assign, ast.AugAssign, ast.AnnAssign)):
                tg = sub.targets if isinstance(sub, ast.Assign) else [sub.target]
                for t in tg:
                    for nm in ast.walk(t):
                        if isinstance(nm, ast.Name):
                            assigned.add(nm.id)
        before = set()
        for sub in ast.walk(node):
            if isinstance(sub, (ast.Assign, ast.AugAssign, ast.AnnAssign)) and sub.lineno < lp.lineno:
                tg = sub.targets if isinstance(sub, ast.Assign) else [sub.target]
                for t in tg:
                    for nm in ast.walk(t):
                        if isinstance(nm, ast.Name):
                            before.add(nm.id)
        for sub in ast.walk(node):
            if isinstance(sub, ast.For) and sub.lineno < lp.lineno:
                for nm in ast.walk(sub.target):
                    if isinstance(nm, ast.Name):
                        before.add(nm.id)
        ints = sorted(a for a in assigned if a in before and a in ('offset', 'pos', 'position', 'index', 'idx', 'i', 'cursor', 'off', 'consumed', 'remaining', 'left', 'length'))
        bufs = entry['bufs']
        inv = []
        for v in ints:
            inv.append(f'0 <= {v}')
            for b in bufs:
                inv.append(f'{v} <= len({b})')
        variants = []
        if isinstance(lp, ast.While):
            for b in bufs:
                if b in assigned:
                    variants.append(f'len({b})')
            for a in sorted(assigned):
                if a not in bufs and a not in ints and a in before | set(entry['params']):
                    variants.append(f'len({a})')
            for v in ints:
                for b in bufs:
                    variants.append(f'len({b}) - {v}')
                variants.append(v)
        specs[k] = {'inv': inv, 'variants': variants, 'while': isinstance(lp, ast.While)}
    return specs


def try_entry(entry, loops):
    c = build_contract({'file': entry['file'], 'qualname': entry['qualname'], 'params': entry['params'], 'loops': loops}, register=False)
    return verify_function(REG, c)


def houdini(entry):
    cands = loop_candidates(entry)
    if not cands:
        rep = try_entry(entry, {})
        return {}, rep
    cur = {k: {'inv': list(v['inv'])} for k, v in cands.items()}
    # 1. eliminate invariant candidates which fail (entry or step), without variants
    for _ in range(12):
        rep = try_entry(entry, cur)
        if rep.out_of_reach:
            return cur, rep
        bad = set()
        for cl in rep.clauses().values():
            if cl['status'] != 'proved' and cl['kind'] in ('inv-entry', 'inv-step'):
                _, tag, idx = cl['clause'].split(':')[:3]
                bad.add((int(tag), int(idx)))
        if not bad:
            break
        for k in cur:
            cur[k]['inv'] = [x for j, x in enumerate(cur[k]['inv']) if (k, j) not in bad]
    # 2. a variant for every while loop: first candidate the engine proves
    for k, v in cands.items():
        if not v['while']:
            continue
        chosen = None
        for var in v['variants']:
            trial = {kk: dict(vv) for kk, vv in cur.items()}
            trial[k]['decreases'] = var
            try:
                rep = try_entry(entry, trial)
            except Exception:
                continue
            if rep.out_of_reach:
                continue
            ok = all(cl['status'] == 'proved' for cl in rep.clauses().values() if cl['clause'] == f'variant:{k}')
            has = any(cl['clause'] == f'variant:{k}' for cl in rep.clauses().values())
            if ok and has:
                chosen = var
                break
        if chosen:
            cur[k]['decreases'] = chosen
    rep = try_entry(entry, cur)
    return cur, rep


def find_canaries(entry, loops):
    """guard mutations of the real text which the engine refutes: proof that the row's verdict depends on the guards
    (a row without any is still sound -- e.g. a decoder which only slices -- but says so in the table)"""
    import re

    c = build_contract({'file': entry['file'], 'qualname': entry['qualname'], 'params': entry['params'], 'loops': {str(k): v for k, v in loops.items()}}, register=False)
    key = (entry['file'], entry['qualname'])
    REG.contracts.setdefault(key, c)
    try:
        seg = REG.segment(*key)
    except Exception:
        return []
    out = []
    cands = []
    for m in re.finditer(r'(if|while|elif) ([^\n]*?len\([a-z_]+\)[^\n]*?):', seg):
        line = m.group(0)
        cands.append((line, f'{m.group(1)} False:' if m.group(1) != 'while' else None))
    for m in re.finditer(r'\n( +)(cls\.check_length\([^\n]*\)|cls\._check_size\([^\n]*\)|cls\.check\([^\n]*\))\n', seg):
        cands.append((m.group(2), 'pass'))
    for m in re.finditer(r'len\(([a-z_]+)\) (<|<=|!=|>=|>) ([A-Za-z_.0-9]+)', seg):
        txt = m.group(0)
        if True:
            op = m.group(2)
            new = {'<': f'len({m.group(1)}) < 0', '<=': f'len({m.group(1)}) < 0', '!=': f'len({m.group(1)}) < 0', '>=': f'len({m.group(1)}) >= 0', '>': f'len({m.group(1)}) >= 0'}[op]
            cands.append((txt, new))
    if 'tokens' in entry['params'].values():
        # token parsers: the refusal itself, raised as something Section.parse does not convert
        for m in re.finditer(r'raise ValueError\(', seg):
            cands.append(('raise ValueError(', 'raise KeyError('))
            break
        for m in re.finditer(r'int\(tokeniser\(\)\)', seg):
            cands.append(('int(tokeniser())', '[1, 2][int(tokeniser())]'))
            break
    for old, new in cands:
        if new is None or len(out) >= 2:
            continue
        REG.source_override[key] = seg.replace(old, new, 1)
        try:
            r2 = verify_function(REG, c)
            killed = any(cl['status'] == 'refuted' for cl in r2.clauses().values())
        except Exception:
            killed = False
        finally:
            del REG.source_override[key]
        if killed:
            out.append([old, new])
    if REG.contracts.get(key) is c:
        del REG.contracts[key]
    return out


def main():
    flt = sys.argv[1] if len(sys.argv) > 1 else ''
    rows, rejected = [], []
    t0 = time.time()
    for e in candidates():
        label = f'{e["file"]}:{e["qualname"]}'
        if flt not in label:
            continue
        if (e['file'], e['qualname']) in REG.contracts and not getattr(REG.contracts[(e['file'], e['qualname'])], 'opaque_calls', False):
            rejected.append({'function': label, 'why': 'already under a hand-written (stronger) contract'})
            continue
        if label in SKIP:
            rejected.append({'function': label, 'why': SKIP[label]})
            continue
        try:
            loops, rep = houdini(e)
            v, why = verdict(rep)
        except Exception as ex:  # noqa
            v, why, loops = 'error', f'{type(ex).__name__}: {str(ex)[:120]}', {}
        unterminated = [k for k, sp in loops.items() if loop_candidates(e)[k]['while'] and 'decreases' not in sp]
        if v == 'ok' and unterminated and 'tokens' not in e['params'].values():
            # (token parsers: termination is not claimed -- it depends on the token stream ending, which the model of the
            # tokeniser does not express)
            v, why = 'no-variant', f'while loop(s) {unterminated} without a proved variant'
        print(f'{v:10s} {label} {why[:140]}', flush=True)
        canaries = []
        if v == 'ok':
            canaries = find_canaries(e, loops)
        if v == 'ok':
            rows.append({'file': e['file'], 'qualname': e['qualname'], 'params': e['params'], 'loops': {str(k): sp for k, sp in loops.items()}, 'assumed_callees': sorted(rep.assumed_calls), 'canaries': canaries})
        else:
            rejected.append({'function': label, 'why': f'{v}: {why[:200]}'})
    if flt:
        return
    out = {'generated_by': 'tools/gen_rte_table.py', 'functions': rows, 'not_covered': rejected}
    with open(os.path.join(ROOT, 'contracts', 'rte_table.json'), 'w') as f:
        json.dump(out, f, indent=1, sort_keys=True)
    print(f'{len(rows)} functions verified, {len(rejected)} not covered, {time.time() - t0:.0f}s')


if __name__ == '__main__':
    main()
