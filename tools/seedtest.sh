#!/bin/sh
# tools/seedtest.sh <seed-id> <Cnn> [more Cnn...]: apply seeded/<seed-id>/patch.diff to /repo, run the checks, undo straight afterwards
ID=$1; shift
cd /repo && git apply /verif/seeded/$ID/patch.diff || { echo "patch does not apply to /repo"; exit 2; }
cd /verif
rm -rf .tmp/ev.save; mkdir -p .tmp/ev.save; cp evidence/*.json .tmp/ev.save/ 2>/dev/null
for P in "$@"; do ./check $P 2>&1 | grep -E "VIOLATION|UNDECIDED|CRASH|UNSOUND|tier=" | head -8; echo "  -> $ID vs $P exit=$?"; done
git -C /repo checkout -- .
cp .tmp/ev.save/*.json evidence/ 2>/dev/null
rm -f /verif/replays/*.json
