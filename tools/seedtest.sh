#!/bin/sh
# tools/seedtest.sh <seed-id> <Cnn> [more Cnn...]: apply seeded/<seed-id>/patch.diff to the repository, run the checks, undo straight afterwards
# REPO / VERIF may point at scratch copies (tools/seed_sweep.sh does that); the default is the real /repo and /verif
REPO=${REPO:-/repo}; VERIF=${VERIF:-/verif}
ID=$1; shift
cd $REPO && git apply /verif/seeded/$ID/patch.diff || { echo "patch does not apply to $REPO"; exit 2; }
cd $VERIF
rm -rf .tmp/ev.save; mkdir -p .tmp/ev.save; cp evidence/*.json .tmp/ev.save/ 2>/dev/null
for P in "$@"; do PYVC_REPO=$REPO ./check $P 2>&1 | grep -E "VIOLATION|UNDECIDED|CRASH|UNSOUND|tier=" | head -8; echo "  -> $ID vs $P"; done
git -C $REPO checkout -- .
cp .tmp/ev.save/*.json evidence/ 2>/dev/null
rm -f $VERIF/replays/*.json
