#!/usr/bin/env python3
"""regenerates MANIFEST.json from the table below (kept next to the code so it stays current)"""
import json, os

ROOT = os.path.dirname(os.path.dirname(os.path.abspath(__file__)))
BASE = json.load(open('/root/.vp/BASELINE.json'))['cmd'] if os.path.exists('/root/.vp/BASELINE.json') else 'cd /repo && /venv/bin/python -m pytest -ra -q -p no:cacheprovider --timeout=900 --continue-on-collection-errors'
BASE = BASE.replace(' --junitxml=<file>', '')

PYVC = 'contract-based deductive verification: VCs generated from the real AST of /repo (pyvc), sidecar contracts, discharged by z3 5.1 / cvc5'

CLAIMED = {
    'C12': dict(
        category='proof',
        text='Pre/postconditions on the real ReceiveTimer/SendTimer/HoldTime methods (ghost real-valued clock): fires 4/0 iff the floored silence exceeds H, never early in real time, always by H+1 s; H=0 never fires and never sends periodic keepalives; every non-scheduling message restarts the timer. All obligations discharged by z3 for all hold times and all clock values; keepalive()==H//3 additionally evaluated natively for all 65536 hold times (bounded, complete).',
        note='Assumes time.time() is a non-decreasing real clock and floats behave as reals; how often the main loop polls the timers (schedules) is not decided — clauses are stated at the next call. Logger calls dropped.',
        ref='DESIGN.md §6 C12',
        technique=PYVC + '; exhaustive native evaluation of the finite keepalive() domain as bounded complement',
    ),
}

CLAIMED['C06'] = dict(
    category='proof',
    text='Contracts on the real Connection._reader_async / reader_async, Protocol.read_message and Message.unpack with a ghost byte stream and consumed-position: for EVERY way recv splits the stream (the segmentation is the universally quantified return value of the recv callee; loop invariant + variant) the reader returns exactly the next length-delimited message and consumes exactly its bytes; marker fault -> 1/1, length below 19 / above the negotiated maximum / outside the type bounds -> 1/2, unknown type -> 1/3, and the decoder is never entered after a header fault. All obligations discharged by z3. Bounded complement: the real reader over a socketpair under enumerated and sampled segmentations against an RFC framing spec function.',
    note='Assumes the kernel delivers the stream faithfully (recv callee contract) and no interference at await. The generator twins _reader/reader (not called from src/) are not under contract. The copy of negotiated.msg_size into connection.msg_size in Peer._establish is not covered here.',
    ref='DESIGN.md §6 C06',
    technique=PYVC + '; loop invariant over a nondeterministic recv callee with ghost stream state; socketpair replay',
)

CLAIMED['C09'] = dict(
    category='proof',
    text='Contracts on the real UpdateCollection.messages (IPv4 section and MP section as two segment contracts), MPNLRICollection.packed_reach_attributes / packed_unreach_attributes / _attr_len / _attribute_header, UpdateCollection.prefix / split and Message._message: every yielded UPDATE is at most negotiated.msg_size bytes, carries a consistent length field and both section lengths stay inside it (so split accepts it); every MP attribute is at most the room given, with the RFC 4271 attribute header; ghost byte counters with prefix-sum spec functions prove that no packed NLRI is lost unless it cannot fit even alone; no exception escapes. Linear integer arithmetic, all obligations discharged by z3 for all lengths and list sizes (loop invariants, no unrolling). Bounded complement: the real messages() at sizes straddling 4096/65535 with mixed IPv4/IPv6 unicast/multicast and extended-next-hop routes, decoded by an RFC reference decoder.',
    note='Segment contracts: the route classification prefix of messages() and the next-hop grouping prefix of packed_reach_attributes are abstracted into arbitrary lists (stated in the evidence notes); those prefixes are covered by the bounded layer only. NLRI encoders are used through an assumed contract (non-empty byte string per NLRI). Completeness is proved on byte counts, not on content.',
    ref='DESIGN.md §6 C09',
    technique=PYVC + '; loop invariants + ghost prefix sums over generator code; bounded differential against an RFC reference decoder',
)

CLAIMED['C16'] = dict(
    category='proof',
    text='Contracts on the real nlri/flow.py: Flow._encode_length and the length decode of Flow.unpack_nlri against RFC 8955 4.1 (one byte below 240, 0xFnnn up to 4095, refusal above / when truncated); CommonOperator.eol/operator/length and _len_to_bit/_bit_to_len against the operator-byte layout; the three value encoders (shortest allowed width, big-endian) and IOperation.pack for each width class; Flow._parse_operations (loop invariant: each operator/value pair is read from exactly the next 1+width bytes of the same buffer, stops at the first end-of-list, refuses truncation) and Flow._parse_rules (a rule is returned only when the whole payload was walked: an undefined component or truncated value can never leave a shorter rule). All discharged by z3. Bounded complement: generated configuration text through the real parser against an RFC reference encoder, and reference-encoded rules with structured mutations through the real decoder.',
    note='Text parser (configuration/flow/*), Flow._pack_from_rules (EOL placement, ordering), prefix components (IPrefix4/6.make) and the traffic-action extended communities are covered by the bounded layer only; prefix components enter _parse_rules through an assumed contract.',
    ref='DESIGN.md §6 C16',
    technique=PYVC + '; sub-view loop invariants over the NLRI buffer; bounded differential against an RFC 8955 reference encoder/decoder',
)

CLAIMED['C02'] = dict(
    category='proof',
    text='Contracts on the real decode kernel: UpdateCollection.split (exactly the three RFC 4271 sections for every byte string, 1/2 and 3/1 refusals), AttributeCollection._parse_one / parse (each attribute is decoded from exactly data[hdr:hdr+length] of the same buffer, the remainder is exactly the suffix after it, the whole block is walked, loop variant), AttributeCollection.unpack (the collection returned is a decode of these bytes under this session context, cache invariant), the fixed-shape attribute decoders Origin/MED/LocalPreference/NextHop/AtomicAggregate/OriginatorID/ClusterList/Communities/Aggregator.from_packet (accepted iff the RFC length/value rule holds, object keeps exactly the bytes). Discharged by z3. Bounded complement (the composition, NLRI/MP decoders, RFC 6793 merge, JSON rendering, Adj-RIB-In): generated well-formed UPDATEs x 3 session kinds through the real Message.unpack -> JSON encoder -> UPDATE handler, compared field by field with an independent RFC reference decoder; histories folded into the expected Adj-RIB-In; End-of-RIB markers.',
    note='NLRI decoders (INET/MP_REACH/MP_UNREACH), AS_PATH decoding/merge and the JSON renderer are bounded only in this check. Attribute classes enter _parse_one through uninterpreted class flags and an assumed decoder callee.',
    ref='DESIGN.md §6 C02',
    technique=PYVC + '; sub-view loop invariants for the TLV walk; bounded differential against an RFC reference decoder',
)
CLAIMED['C03'] = dict(
    category='proof',
    text='Run-time-error freedom and termination obligations on the decoders under contract: only declared exceptions escape (Notify; and for the attribute walk the re-raised decoder error that the reactor catch-all answers), every loop has a strictly decreasing variant (attribute walk, FlowSpec component/operator walks, socket reader), the attribute walk is iterative (depth 1). Framing layer: header faults never reach a decoder. Discharged by z3. Bounded complement: structured mutations of valid messages of every type (UPDATE, OPEN, NOTIFICATION, KEEPALIVE, ROUTE-REFRESH, OPERATIONAL) through the real decoders with every lazy part forced (parsed collection, JSON event, UPDATE handler); 300/1300-attribute valid UPDATEs; a per-message time bound.',
    note='"time proportional to the message size" is decided only as: termination, per-loop linear iteration bounds, depth 1, plus a bounded wall-clock guard. OPEN/capability, NOTIFICATION, REFRESH, OPERATIONAL decoders and the EVPN/BGP-LS/SR/MUP/MVPN families are bounded only.',
    ref='DESIGN.md §6 C03',
    technique=PYVC + ' (rte / variant obligations); bounded structured-mutation sweep',
)
CLAIMED['C08'] = dict(
    category='proof',
    text='Contracts on the real AttributeCollection._parse_one (a truncated header or a declared length overrunning the block adds the treat-as-withdraw marker, ends the walk and is never decoded from the shorter slice; a failing decoder never leaves a decoded attribute behind), the final conversion of UpdateCollection._parse_payload (marker present => nothing announced, NLRI moved to withdraws), AttributeCollection.unpack (cache never serves a stale or marked collection), the fixed-shape attribute decoders (refusal iff the RFC rule is broken) and UpdateCollection.split. Discharged by z3. Bounded complement: every attribute of generated UPDATEs x 9 single-attribute corruptions x 3 session kinds through the real pipeline: no announced/stored route unless the message is well-formed per an RFC 7606 reference checker (discard class: attribute gone, rest intact).',
    note='RFC 7606 class of each attribute type is read from the live class flags in the bounded layer and is an uninterpreted function in the deductive part. Protocol.read_message turns an attribute-discard UPDATE into a NOP (route neither announced nor withdrawn): accepted by the bounded oracle as the statement allows dropping the attribute; not flagged.',
    ref='DESIGN.md §6 C08',
    technique=PYVC + '; bounded single-attribute corruption sweep against an RFC 7606 reference checker',
)
CLAIMED['C19'] = dict(
    category='proof',
    text='Deductive (z3): contract on the real AttributeCollection.unpack with the class-level cache as state: the collection returned is a decode of THESE bytes under THIS session context (asn4, aigp) whether fresh or cached, and the cache only ever holds a clean decode of the bytes and context recorded next to it (invariant required and re-established on every path, including exceptional ones); Aggregator.from_packet keeps the width it was decoded with. STATIC frame obligation (shared-state-table): every statement inside a function of bgp/message/** and protocol/** which writes class-level or module-level state (~58 sites, AST scan of the current tree on every run: cls.X = / ClassName.X[...] = / mutating calls on those / an UPPERCASE attribute written on a non-self object / global) must be one of the justified sites (registration at import time; caches keyed by their whole input; the cache under contract above); a new site is a violation. Bounded: (sequence-vs-fresh) every message of a mixed sequence over four differently negotiated sessions (4-byte eBGP, 2-byte iBGP, iBGP with and without AIGP), with repeated / back-to-back / cross-session / malformed-repeat attribute blocks, shared AIGP values, with and without withdrawn routes, decode caches switched on as application/server.py does, decodes (JSON event, markers, Adj-RIB-In) as it does alone in a fresh interpreter; (open-sequences) every ordered triple of peer OPENs using standard and Cisco capability codes leaves each OPEN event and our own next OPEN unchanged.',
    note='The static table cannot see an attribute written on an object fetched from a cache (what NetMask did; found by C18 and fixed); Capability.klass and Attribute.klass do rewrite a class constant while decoding: justified by open-sequences (no observable effect) and by registration under a single id respectively, not by proof. Functions outside bgp/message and protocol (reactor handlers, RIB) are not scanned.',
    ref='DESIGN.md §6 C19, §11.18, §11.22',
    technique=PYVC + ' (class-state invariant with ghost decode provenance); static write-frame table over all class-level / module-level writes; bounded sequence-vs-fresh-process differential',
)

CLAIMED['C07'] = dict(
    category='proof',
    text='Contracts on the real Negotiated._negotiate (segment up to the paths-limit handling): hold time = minimum; asn4 / operational / link-local next hop in force iff both sides advertised them; message size 65535 iff both advertised extended message else 4096; refresh flavour; BOTH true AS numbers (ASN4 capability when the 2-byte field is AS_TRANS); families and extended-next-hop entries = exactly the received entries we advertised too (loop invariants with a ghost counter and per-append membership obligations); and on Negotiated.validate: 2/2 bad peer AS, 2/3 zero or colliding identifier, 2/6 hold time 1-2, and no refusal otherwise. Discharged by z3 for all capability combinations (if-conversion keeps the 2^12 combinations symbolic). Bounded complement: sampled (configuration, peer OPEN) pairs through the real configuration parser, OPEN encoder/decoder and Negotiated against an RFC reference negotiation computed from the wire bytes of both OPENs; OPEN > 255 bytes (RFC 9072) both ways.',
    note='The per-family body of RequirePath.setup (ADD-PATH direction pairing, RFC 7911 section 4: we send iff we advertised send and the peer receive) is under a segment contract for all mode values; the union of families around it is bounded only. Capabilities objects are abstract in the deductive part (announced(code) as a boolean per side and code). RequirePath.setup (ADD-PATH send/receive), Open/Capabilities encode/decode and Capabilities.new are bounded only. paths-limit and multisession handling are not under contract.',
    ref='DESIGN.md §6 C07',
    technique=PYVC + '; if-conversion of pure conditionals; bounded differential against an RFC reference negotiation',
)

CLAIMED['C20'] = dict(
    category='proof',
    text='Contracts on the real nested functions of healthcheck.loop (extracted from the AST, closures as parameters): loop.one against ghost success/failure streaks (counter invariant RISING => checks == ok_streak < rise, FALLING => checks == ko_streak < fall; UP only with rise consecutive successes, DOWN only with fall consecutive failures; a single contrary result only moves to FALLING/RISING when fall/rise > 1; disable file forces DISABLED; announce exactly once per iteration, with --debounce only on a change), loop.trigger (rise/fall <= 1 shortcut), loop.exabgp (nothing written for INIT/RISING/FALLING/END, one line per address otherwise; EXIT always withdraws; each line equals the reference TEMPLATE <peer> <action> route <ip> next-hop <nh|self> [med = metric + k*increase, local-preference, community or disabled-community for DOWN/DISABLED, extended/large community, per-state as-path] [path-information], compared piece by piece), loop.sigterm_handler and the main loop segment (SIGTERM / KeyboardInterrupt => exabgp(EXIT)). All discharged by z3 for every rise/fall, every metric and every option combination of the two option variants. Bounded complement: the real loop() under a scripted check for EVERY boolean history up to length 6 (10 thorough) x 7 option sets, every written line parsed by the real route parser.',
    note='exabgp() is verified under two option variants (a: next-hop, local-preference, community, disabled-community, as-path; b: extended/large community, path-id) with neighbors unset (peer *); strings are symbolic templates (f-string structure), not character sequences; the disable-file toggles and command execution hooks are abstract.',
    ref='DESIGN.md §6 C20',
    technique=PYVC + ' on nested closures; string templates as symbolic parts; exhaustive bounded histories',
)

CLAIMED['C04'] = dict(
    category='exploration',
    text='BOUNDED ONLY so far (no deductive obligations yet: the nested-dictionary representation invariant of OutgoingRIB is not under contract). The real OutgoingRIB is driven by every operation sequence of length <= 3 (4 thorough) over announce (2 prefixes x 2 attribute sets), withdraw with/without attributes, flush, partial consumption of the update generator, clear adj-rib-out and resend, plus sampled longer ones; every UPDATE is encoded by the real UpdateCollection.messages() and applied in order to a peer table rebuilt with an RFC reference decoder; after the queue drains the peer table must equal the reported Adj-RIB-Out.',
    note='Exploration level, not proof. One genuine defect is a recorded known finding (stale attribute bucket, region predicate C04-stale-attribute-bucket in bounded/c04.py): sequences in which a prefix gets two different attribute sets within one flush window are reported as KNOWN-FINDING, everything else as VIOLATION. Watchdog operations and interleavings with a live event loop are not explored.',
    ref='DESIGN.md §6 C04, §11',
    technique='bounded stand-in only: exhaustive short operation sequences on the real RIB with an RFC reference decoder as peer model (contract-based proof of the RIB invariant not built yet)',
)

CLAIMED['C17'] = dict(
    category='proof',
    text='FAILURE HALF (proof): contracts on the real Configuration._reload and Configuration.reload with the neighbors dictionary as an identity-carrying object: a reload that does not return True leaves self.neighbors identical on every exit -- missing file, set_text/set_file false, clean syntax error, and any exception raised by the parser callees (restored by the exception arms of reload()); a committed reload is never undone. Discharged by z3; counter-models name the failing exit. DIFFERENCE HALF (bounded only): the real Configuration + Reactor.reload + Peer + RIB objects, with the two RIB-handling statement groups of Peer._main extracted from its source at run time and executed unmodified: 6x6 route sets (attribute-only changes included) x changed/unchanged neighbor parameters x session up/down x API route, plus family-added pairs; after the reload the peer holds exactly the new configuration plus the API routes. Failed reloads with the fault inside the changed block, in a later block, missing file, parser exception: neighbors, peers, sessions and peer tables unchanged.',
    note='replace_reload / replace_restart / Reactor.reload / _commit_reload have NO deductive obligations: that half is bounded. One genuine defect is a recorded known finding (region C17-parse-time-rib-effects: a fault in a later neighbor block after an earlier changed block completed). Assumed: _link()/validate() do not raise after the commit. Only the first neighbor carries route changes in the two-neighbor cases.',
    ref='DESIGN.md §6 C17, §11.7-11.8',
    technique=PYVC + ' on Configuration._reload/reload (identity of the neighbors object, exceptional exits); bounded reload pairs on the real Reactor with mechanically extracted Peer._main statements',
)

CLAIMED['C11'] = dict(
    category='exploration',
    text='BOUNDED ONLY (no deductive obligations yet). Real Peer, real Protocol (new_update_generator, new_eors, write, send), real RIB; only the transport is a stub recording every message. The session-up statements of Peer._main are extracted from its source at run time and executed unmodified; the two send steps of its loop are the real coroutines Peer._send_route_updates / _send_eor_messages; a loss is the real Peer._reset(). API histories of length <= 2 (3 thorough) over announce / attribute change / withdraw of API and configured routes x session loss after every number of sent messages x operations issued while down; after the next establishment the peer must hold the INTENDED table (an independent fold of the operations: configured routes plus API announces not since withdrawn), ExaBGP must report the same table, and exactly one End-of-RIB per negotiated family must follow the table transfer.',
    note='Exploration level, not proof: the crash-point quantifier is enumerated, not eliminated by an invariant argument (the plan of DESIGN §6 C11 needs the RIB representation invariant under contract first). Three in-memory harness canaries (nothing re-advertised, no End-of-RIB, withdrawn-while-down re-advertised consistently with the report) must be reported on every run, otherwise the check exits 3. Loss during establishment (before the first UPDATE) is the cut 0 case only.',
    ref='DESIGN.md §6 C11, §11.9',
    technique='bounded stand-in only: real send coroutines against a recording transport, session loss at every cut, independent intended-table oracle (contract-based proof not built yet)',
)

CLAIMED['C14'] = dict(
    category='proof',
    text='Deductive (z3): (1) chunking independence: contract on the line reassembly of the real Processes._async_reader_callback, with text as a view of code points into one array S = kept buffer ++ chunk: every command queued is a complete line of S (starts where the previous line ended, is followed by the first newline after its start, holds no newline), and the buffer stored for the next read is exactly the newline-free text after the LAST newline of S (loop invariant + variant; class invariant "the kept buffer holds no newline" required and re-established); the induction over reads gives independence from the chunking. (2) selectors: contract on the real match_neighbor: selected iff EVERY term is the wildcard or matches, each term searched with the whole-word pattern (^|\\s)<escaped term>($|\\s|,). Bounded: the real callback over a real os.pipe() under cuts at and around every newline and EVERY chunking of a short stream; every 1-3 term selector x 5 neighbors against a reference matcher; and (command-bursts) the command-processing statements of Reactor._async_main_loop -- extracted from its source at run time and executed unmodified -- on a real Reactor with two real Peers, a real Processes fed through a real pipe and answering through a real pipe, the real API dispatcher (v6 syntax) and the real ASYNC scheduler: every ordered pair of 8 commands (accepted for all / one neighbor, unknown, unparsable, value out of range, selector matching nobody, incomplete route) coalesced in one read plus sampled longer sequences at 1 / 2 / 3 / all lines per read: exactly one terminal done / error per command, in command order, and each neighbor RIB holds exactly the routes of the accepted commands addressed to it (a refused command changes no RIB, a selector reaches only its neighbors).',
    note='The acknowledgement-order, no-side-effect and selector-scope clauses at the dispatcher level are BOUNDED ONLY (the API dispatcher, the command callbacks and the ASYNC scheduler have no deductive obligation). The v4 command syntax, group commands, and commands other than announce route are not exercised by command-bursts. extract_neighbors is bounded only. The oversize-line memory guard is chunking-dependent by construction and excluded. Two genuine defects repaired (wildcard selector term; a v6 selector matching no peer selected every peer).',
    ref='DESIGN.md §6 C14, §11.10, §11.19',
    technique=PYVC + '; text as code-point views (absolute-index quantifiers); bounded real-pipe chunkings, selector enumeration, and command bursts through mechanically extracted main-loop statements on a real Reactor',
)

CLAIMED['C18'] = dict(
    category='proof',
    text='Contracts on the value functions of the real configuration/static/parser.py -- med, local_preference, path_information, _community -- with a token as an opaque string whose integer value is an unconstrained integer: the function raises ValueError (never struct.error / IndexError / OverflowError) IF AND ONLY IF the written value does not fit the field, and an accepted value is carried big-endian exactly as written (nothing wrapped or truncated). Discharged by z3 for all integers. Bounded complement, two checks: (boundary-values) attribute keywords at 2^16 / 2^32 / 2^64 through the real Configuration.parse_route_text; (api-and-file) ~130 route / attributes / ipv4 / ipv6 / flow / vpls definitions at and beyond the boundary of labels, route distinguishers, prefix lengths, generic attributes, extended communities, prefix-sid, flow components, VPLS fields, with and without the mandatory next-hop / label / rd, through the real API command handlers on the real ASYNC scheduler and through a configuration file; accepted => encoded by the real UpdateCollection.messages() for eBGP/iBGP x 2-/4-byte AS x 4096/65535-byte sessions and the written value found by an RFC reference decoder; refused => exactly one error reply, nothing handed to the RIB, a non-empty error for a file; and ordered pairs of commands on one API object must give the second command the outcome it has alone.',
    note='The deductive part covers four value functions only: as_path, _large_community, label, route_distinguisher, extended communities, prefix-sid, the flow and VPLS parsers, the tokeniser and Section.parse are BOUNDED ONLY (string splitting / slicing outside the engine). Count and size limits (number of communities, an attribute larger than a message) are not swept here (C09 covers the encoder side). EVPN / MUP / MVPN / BGP-LS / SR-policy text is not exercised. Thirteen genuine defects repaired (known_findings.json, DESIGN 11.12).',
    ref='DESIGN.md §6 C18, §11.12',
    technique=PYVC + '; opaque tokens with an uninterpreted integer value; bounded boundary sweeps through the real parser, API handlers and encoder against an RFC reference decoder, history pairs on one API object',
)

CLAIMED['C13'] = dict(
    category='exploration',
    text='STATIC, for all values (json-fragment-typing, pyvc/fragtype.py + contracts/jsonfrag.py): a path-enumerating abstract interpreter over the real AST of class JSON gives every expression a fragment kind (literal text, escaped-safe string content, number, JSON value, member list with its literal keys, raw string); for every path of JSON.up / connected / down / shutdown / negotiated / fsm / signal / notification / packets / keepalive / open / refresh / operational (with _header, _neighbor and the _operational_* helpers inlined) the returned f-string template is DERIVED in the JSON grammar with its holes as nonterminals -- holes between quotes must be escaped-safe, holes elsewhere values / numbers / member lists, a possibly-empty member list never next to a comma -- so the event is a well-formed object for every value of the holes, peer text included; literal keys of one object are pairwise distinct; literal text is ASCII; json.dumps keeps its default ASCII escaping; JSON._string returns a JSON value for a fragment, a number and any other object (92 obligations, decided by a grammar check, no SMT). BOUNDED: (events-from-wire) every raw message recorded under /repo/qa, the same with printable runs replaced by hostile bytes, generated OPEN / NOTIFICATION / OPERATIONAL / BGP-LS messages with hostile strings and generated UPDATEs with one or two malformed attributes, through the real decoders, the four real encoders and the real Processes.write, against an independent oracle (ASCII, one line, parses, no duplicate key, envelope; text: no control character, line count and JSON key structure unchanged by a peer string); (oneline-every-code-point) the real oneline() on all 1,114,112 one-character strings.',
    note='Exploration level. The static part does NOT cover JSON.update / _update (string surgery in loops) nor the json() methods of the ~200 message / attribute / NLRI classes, which enter as assumed VALUE fragments; its other assumptions (listed in the evidence on every run): json.dumps and hexstring behave as documented, the local host name, the neighbor configuration and a fixed table of message names need no escaping. The text encoders have no static obligation: their holes are typed fields of message objects, covered by the bounded checks and by oneline() being complete per code point. Seven in-memory / edited-source canaries must be reported on every run. One genuine defect repaired (c02f9be).',
    ref='DESIGN.md §6 C13, §11.13, §11.20',
    technique='static fragment typing of f-string templates over the real AST (grammar derivation with typed holes; contract-based, decided without SMT) for the JSON assemblers; bounded QA-corpus + hostile-string sweep through the real decoders, encoders and Processes.write; exhaustive oneline() per code point',
)

CLAIMED['C01'] = dict(
    category='exploration',
    text='BOUNDED at the property level, with deductive obligations on the small encoders only. Bounded (text-to-wire): a generator writes route text AND the values it means (IPv4/IPv6 unicast, multicast, labelled, VPN; next hop IPv4 / IPv6 / self; path-information; origin, one- and two-segment as-path with 2- and 4-byte AS numbers, med, local-preference, atomic-aggregate, aggregator, communities, large and extended communities, originator-id, cluster-list; values at field boundaries); the text goes through the real Configuration and Neighbor.resolve_self, each route is encoded alone by the real UpdateCollection.messages() for nine session kinds (eBGP/iBGP x 2-/4-byte AS, ADD-PATH both ways / we-send-only / peer-sends-only, extended next hop, 65535-byte messages) and decoded by an RFC reference decoder: prefixes, path identifiers, labels, RD, next hop (NEXT_HOP vs MP_REACH, RD-padded for VPN, local address for self) and every attribute must be exactly what was written plus the RFC defaults for that session (ORIGIN IGP; AS_PATH empty / local AS; LOCAL_PREF 100 on iBGP, absent on eBGP; AS_TRANS + AS4_PATH / AS4_AGGREGATOR towards 2-byte peers). Bounded (grouped-routes): 700-3000 routes with one attribute set in one collection per session kind: every UPDATE within the negotiated size and decodable under the session rules, the union exactly the written prefixes. Deductive (discharged by z3, all inputs): Attribute._attribute (RFC 4271 TLV header, extended length iff > 255), INETBase / LabelBase / IPVPNBase.pack_nlri (path identifier present iff ADD-PATH send negotiated: kept, stripped, or 0 prepended), ASN.pack_asn (width by asn4, refusal above 65535 in 2 bytes), CIDR.decode and CIDR.pack_nlri (RFC 4271 <length, prefix>: mask octet, ceil(mask/8) prefix octets, zero padding; together pack_nlri(decode(b)) == b[:1+ceil(b[0]/8)]), plus Negotiated._negotiate, MPNLRICollection._attribute_header, UpdateCollection.prefix, Message._message and the text value functions shared with C07 / C09 / C18.',
    note='Exploration level: AttributeCollection.pack_attribute (the defaults), ASPath.pack_attribute (AS_TRANS / AS4_PATH), MPNLRICollection next-hop encoding, Neighbor.resolve_self, CIDR / Labels / RouteDistinguisher packing and the route text parser have NO deductive obligation; they are covered by the bounded sweep only. Confederation segments, AIGP, PMSI, prefix-SID, tunnel encapsulation and non-unicast-like families (flow, VPLS, EVPN, ...) are not generated here (see C15/C16/C18). One genuine defect repaired (5c926ef: IPv4 multicast routes were sent in the IPv4 unicast NLRI field).',
    ref='DESIGN.md §6 C01, §11.14',
    technique='bounded stand-in at the property level: generated (text, meaning) pairs through the real parser, resolve_self and encoder for nine negotiated session kinds against an RFC reference decoder; ' + PYVC + ' on the TLV header, ADD-PATH adjustment and AS-number width',
)

CLAIMED['C15'] = dict(
    category='exploration',
    text='BOUNDED at the property level, with deductive obligations on leaf encoders. (corpus-roundtrip) every distinct NLRI (~200, 16 families: unicast, labelled, VPN, flow, flow-vpn, mcast-vpn, MUP, SR-policy, BGP-LS, EVPN, VPLS) and every attribute collection of the UPDATEs recorded under /repo/qa, decoded by the real decoders, re-encoded by the real encoders, decoded again: equal object, equal hash and index, same bytes on the second encoding, same str()/json(); attributes on an iBGP 4-byte session (only the mandatory defaults may be added). (equality-hash-index) each corpus NLRI with 8 (thorough 24) one-bit variants of its encoding that still decode, all pairs: a == b implies equal hash and equal index; prefix-like routes that differ in family, path identifier, prefix or RD never share an index. (factory-pairs) EVPN MAC/IP routes from MAC.make_mac with one and two labels, varying ESI: round trip and all pairs. (aspath-roundtrip) small-scope exhaustive: every canonical AS path of up to 2 (thorough 3) segments over 2- and 4-byte AS numbers x 4-byte and 2-byte sessions through ASPath.pack_attribute and AttributeCollection.unpack (AS4_PATH merge). Deductive (z3, all inputs), shared with C01 / C16: Attribute._attribute, INETBase / LabelBase / IPVPNBase.pack_nlri, ASN.pack_asn, CIDR.decode / CIDR.pack_nlri (the <length, prefix> round trip by substitution of the two contracts; CIDR.size, a table lookup, enters by assumed contract checked exhaustively by cidr-size-table), the FlowSpec length and operator encoders and decoders (Flow._encode_length, IOperation*.encode, CommonOperator, _parse_operations).',
    note='Exploration level. One recorded known finding (region C15-mvpn-eq-narrower-than-index: MVPN route types 5/6/7 compare equal with different indexes; the repair breaks an existing test). Families with no example in the QA corpus (RTC, MVPN types other than 5/6/7, some BGP-LS TLVs) and attribute values not present in it (PMSI, tunnel encapsulation variants) are not exercised; text renderings are compared between two decodes only, not against a specification. Six genuine defects repaired (b67d2c7, a5ac5e4, 6b728dd, 48c071e, and the AS4_PATH merge).',
    ref='DESIGN.md §6 C15, §11.15',
    technique='bounded stand-in at the property level: QA-corpus round trips, one-bit variants for equality / hash / index consistency, factory-built routes, small-scope exhaustive AS paths; ' + PYVC + ' on leaf encoders',
)

CLAIMED['C10'] = dict(
    category='exploration',
    text='BOUNDED at the property level (faults-in-every-state): 26 faults -- bad marker, lengths 18 / 4097 / keepalive with a body / OPEN of 24 bytes, unknown types 9 / 200 / 252, OPERATIONAL without its capability, OPEN with version 3 / wrong AS / router-id 0.0.0.0 / hold time 1 / 2, a second OPEN, KEEPALIVE / UPDATE / ROUTE-REFRESH too early, UPDATEs with overrunning attribute or withdrawn lengths / 3-byte body / prefix length 33 / truncated MP_REACH, ROUTE-REFRESH of 3 bytes / reserved subtype -- each injected in OPENSENT, OPENCONFIRM and ESTABLISHED where RFC 4271 / 6608 / 7313 define the answer, plus a NOTIFICATION (well-formed; 20 bytes long) received in each state, API teardown 2 / 3 / 4 with and without a peer that announced graceful restart, and hold-timer expiry with a negotiated hold time of 3 s. Each case is a fresh REAL Peer._run() (real FSM, Protocol, Incoming connection, timers) over loopback TCP against a scripted remote; from the injection until close: at most one NOTIFICATION, it is the last message, nothing follows it, its code / subcode names the class, and a NOTIFICATION is never answered. STATIC (raise-site-table, complete for what it covers): every place in the source where Notify / NotifyError is built with a literal code (~244 sites, AST scan of the current tree on every run) carries the error class of its layer -- 3/x under bgp/message/update, 2/x under bgp/message/open, 7/x in refresh.py, 1/x in connection.py and message.py, 4/0 and 2/6 in the timers, 5/1 in read_open, 5/2 in read_keepalive, 6/x at teardown -- with five named exceptions (length errors 1/2 of a too-short OPEN / UPDATE; three 2/4 sites guarded by a registration check). Deductive obligations shared with C06 / C07 / C12 (discharged by z3): header classification 1/1, 1/2, 1/3 in Connection.reader_async / Protocol.read_message / Message.unpack, OPEN validation 2/x in Negotiated.validate, hold timer 4/0 in ReceiveTimer.check_ka_timer.',
    note='Exploration level: the raise-site table fixes the CODE of every literal site but not the subcode inside class 3 (which 3/x for which malformation is left to C08 and to the fault sweep), says nothing about reachability, and leaves the four sites which forward a code undecided; the exception arms of Peer._run (which decide that exactly one NOTIFICATION is written) are covered by the fault sweep only. Cells where two classes apply (a malformed OPEN that is also out of place) accept either; an OPEN or an unnegotiated OPERATIONAL received in ESTABLISHED may be ignored (the session does not end). Closing without a NOTIFICATION when graceful restart is configured and announced by ExaBGP is taken as intended (RFC 4724) and not exercised. One genuine defect repaired (OPERATIONAL / type 252 ended the session silently).',
    ref='DESIGN.md §6 C10, §11.16',
    technique='bounded stand-in at the property level: fault injection in every session state of the real Peer over loopback TCP, oracle = RFC 4271 section 6 class table; ' + PYVC + ' on the header / OPEN / hold-timer classification shared with C06, C07, C12',
)

CLAIMED['C05'] = dict(
    category='exploration',
    text='BOUNDED ONLY (session-traces). Traces of the REAL Peer._run() (real FSM, Protocol, Incoming connection, timers; bounded/sessionharness.py, loopback TCP, scripted remote) recorded from outside -- every FSM.change, every message written with the FSM state at that moment, every up / down handed to the API, transport closure -- for: 26 faults (the C10 table) x OPENSENT / OPENCONFIRM / ESTABLISHED, a NOTIFICATION received in each state, the peer closing the connection or sending a NOTIFICATION with and without reconnection allowed, API teardown, shutdown, re-establishment requests with and without a new neighbor definition, each in the three states; a peer which never sends its KEEPALIVE with hold time 0 / 3 / 180; and six two-session histories on one Peer object (failed OPEN exchange / established and lost / established and torn down, in pairs). Every trace is judged against RFC 4271 section 8: T1 only RFC transitions; T2 ESTABLISHED only after our OPEN was sent and the peer OPEN and a KEEPALIVE were received; T3 UPDATE / End-of-RIB / ROUTE-REFRESH written in ESTABLISHED only; T4 transport closed once the session is over; T5 on the API every up is followed by a down before the next up.',
    note='Exploration level: scripted scenarios, not all interleavings. Not explored: an incoming connection arriving while a session is being established or is up (Peer.handle_connection collision resolution by router-id; a hang on the closed socket in that case was reported by a seeding agent and is not examined), reload through the Reactor, outgoing connection establishment (the harness hands the peer an accepted connection), time-outs other than the hold timer. The FSM object does not enforce its own transition table (FSM.change has the check commented out): there is no function whose contract could carry T1, which is why no deductive obligation is claimed. Three in-memory harness canaries. One genuine defect repaired (down not reported when the last allowed session is lost).',
    ref='DESIGN.md §6 C05, §11.17',
    technique='bounded stand-in only: traces of the real Peer over loopback TCP under scripted faults, local events and two-session histories, judged against the RFC 4271 transition table and four trace invariants (no contract within reach carries the property: the FSM is a projection of the control flow of Peer._run)',
)

NOT_YET = 'check not built yet in this session (planned in DESIGN.md §6); not claimed until its obligations are discharged'
NA = {}

props = [json.loads(l)['id'] for l in open(os.path.join(ROOT, 'properties.jsonl'))]
checks = []
for pid in props:
    if pid not in CLAIMED:
        continue
    c = CLAIMED[pid]
    checks.append({
        'property_id': pid,
        'quick_cmd': f'./check {pid} --tier quick',
        'thorough_cmd': f'./check {pid} --tier thorough',
        'evidence_file': f'evidence/{pid}.json',
        'replay_cmd_template': f'./check {pid} --replay {{path}}',
        'engine': 'pyvc',
        'level_claimed': {'category': c['category'], 'text': c['text'], 'design_ref': c['ref']},
        'level_note': c['note'],
        'technique': c['technique'],
    })
man = {
    'version': 1,
    'setup_cmd': './setup.sh',
    'hooks': {
        'guard': 'EXABGP_VERIF',
        'enable': 'no source hooks: contracts are sidecar files under /verif/contracts and the verified text is extracted from /repo on every run',
        'baseline_off_cmd': BASE,
        'source_commits': [],
        'add_only': True,
    },
    'engines': [
        {'name': 'pyvc', 'path': 'pyvc/', 'serves_properties': sorted(CLAIMED), 'kind_free_text': 'AST-level path-wise symbolic executor for the real Python functions of /repo with sidecar contracts (requires/ensures/raises/loop invariants/variants/frames), obligations discharged by z3 (cvc5 on unknown, and as second opinion in the thorough tier); in-memory mutation canaries guard the engine; counter-models are replayed on the real code'},
        {'name': 'bounded', 'path': 'bounded/', 'serves_properties': sorted(CLAIMED), 'kind_free_text': 'runtime evaluation of the same contracts/spec functions over stated finite universes; labelled bounded, never counted as proved'},
    ],
    'checks': checks,
    'not_applicable': [{'property_id': p, 'reason': NA.get(p, NOT_YET)} for p in props if p not in CLAIMED],
    'notes': 'Exit codes of ./check: 0 held, 1 VIOLATION (replayed counterexample or named obligation), 2 undecided (never reported as violation), 3 checker crash / engine-soundness canary survived.',
}
json.dump(man, open(os.path.join(ROOT, 'MANIFEST.json'), 'w'), indent=1)
print('MANIFEST.json:', len(checks), 'checks,', len(man['not_applicable']), 'not_applicable')
