#!/usr/bin/env python3
"""regenerates MANIFEST.json from the table below (kept next to the code so it stays current)"""
import json, os

ROOT = os.path.dirname(os.path.dirname(os.path.abspath(__file__)))
BASE = json.load(open('/root/.vp/BASELINE.json'))['cmd'] if os.path.exists('/root/.vp/BASELINE.json') else 'cd /repo && /venv/bin/python -m pytest -ra -q -p no:cacheprovider --timeout=900 --continue-on-collection-errors'
BASE = BASE.replace(' --junitxml=<file>', '')

PYVC = 'contract-based deductive verification: VCs generated from the real AST of /repo (pyvc), sidecar contracts, discharged by z3 5.1 / cvc5'

CLAIMED = {
    'C12': dict(
        category='proof',
        text='Pre/postconditions on the real ReceiveTimer/SendTimer/HoldTime methods (ghost real-valued clock): fires 4/0 iff the floored silence exceeds H, never early in real time, always by H+1 s; H=0 never fires and never sends periodic keepalives; every non-scheduling message restarts the timer. All obligations discharged by z3 for all hold times and all clock values; keepalive()==H//3 additionally evaluated natively for all 65536 hold times (bounded, complete).',
        note='Assumes time.time() is a non-decreasing real clock and floats behave as reals; how often the main loop polls the timers (schedules) is not decided — clauses are stated at the next call. Logger calls dropped.',
        ref='DESIGN.md §6 C12',
        technique=PYVC + '; exhaustive native evaluation of the finite keepalive() domain as bounded complement',
    ),
}

CLAIMED['C06'] = dict(
    category='proof',
    text='Contracts on the real Connection._reader_async / reader_async, Protocol.read_message and Message.unpack with a ghost byte stream and consumed-position: for EVERY way recv splits the stream (the segmentation is the universally quantified return value of the recv callee; loop invariant + variant) the reader returns exactly the next length-delimited message and consumes exactly its bytes; marker fault -> 1/1, length below 19 / above the negotiated maximum / outside the type bounds -> 1/2, unknown type -> 1/3, and the decoder is never entered after a header fault. All obligations discharged by z3. Bounded complement: the real reader over a socketpair under enumerated and sampled segmentations against an RFC framing spec function.',
    note='Assumes the kernel delivers the stream faithfully (recv callee contract) and no interference at await. The generator twins _reader/reader (not called from src/) are not under contract. The copy of negotiated.msg_size into connection.msg_size in Peer._establish is not covered here.',
    ref='DESIGN.md §6 C06',
    technique=PYVC + '; loop invariant over a nondeterministic recv callee with ghost stream state; socketpair replay',
)

CLAIMED['C09'] = dict(
    category='proof',
    text='Contracts on the real UpdateCollection.messages (IPv4 section and MP section as two segment contracts), MPNLRICollection.packed_reach_attributes / packed_unreach_attributes / _attr_len / _attribute_header, UpdateCollection.prefix / split and Message._message: every yielded UPDATE is at most negotiated.msg_size bytes, carries a consistent length field and both section lengths stay inside it (so split accepts it); every MP attribute is at most the room given, with the RFC 4271 attribute header; ghost byte counters with prefix-sum spec functions prove that no packed NLRI is lost unless it cannot fit even alone; no exception escapes. Linear integer arithmetic, all obligations discharged by z3 for all lengths and list sizes (loop invariants, no unrolling). Bounded complement: the real messages() at sizes straddling 4096/65535 with mixed IPv4/IPv6 unicast/multicast and extended-next-hop routes, decoded by an RFC reference decoder.',
    note='Segment contracts: the route classification prefix of messages() and the next-hop grouping prefix of packed_reach_attributes are abstracted into arbitrary lists (stated in the evidence notes); those prefixes are covered by the bounded layer only. NLRI encoders are used through an assumed contract (non-empty byte string per NLRI). Completeness is proved on byte counts, not on content.',
    ref='DESIGN.md §6 C09',
    technique=PYVC + '; loop invariants + ghost prefix sums over generator code; bounded differential against an RFC reference decoder',
)

CLAIMED['C16'] = dict(
    category='proof',
    text='Contracts on the real nlri/flow.py: Flow._encode_length and the length decode of Flow.unpack_nlri against RFC 8955 4.1 (one byte below 240, 0xFnnn up to 4095, refusal above / when truncated); CommonOperator.eol/operator/length and _len_to_bit/_bit_to_len against the operator-byte layout; the three value encoders (shortest allowed width, big-endian) and IOperation.pack for each width class; Flow._parse_operations (loop invariant: each operator/value pair is read from exactly the next 1+width bytes of the same buffer, stops at the first end-of-list, refuses truncation) and Flow._parse_rules (a rule is returned only when the whole payload was walked: an undefined component or truncated value can never leave a shorter rule). All discharged by z3. Bounded complement: generated configuration text through the real parser against an RFC reference encoder, and reference-encoded rules with structured mutations through the real decoder.',
    note='Text parser (configuration/flow/*), Flow._pack_from_rules (EOL placement, ordering), prefix components (IPrefix4/6.make) and the traffic-action extended communities are covered by the bounded layer only; prefix components enter _parse_rules through an assumed contract.',
    ref='DESIGN.md §6 C16',
    technique=PYVC + '; sub-view loop invariants over the NLRI buffer; bounded differential against an RFC 8955 reference encoder/decoder',
)

NOT_YET = 'check not built yet in this session (planned in DESIGN.md §6); not claimed until its obligations are discharged'
NA = {}

props = [json.loads(l)['id'] for l in open(os.path.join(ROOT, 'properties.jsonl'))]
checks = []
for pid in props:
    if pid not in CLAIMED:
        continue
    c = CLAIMED[pid]
    checks.append({
        'property_id': pid,
        'quick_cmd': f'./check {pid} --tier quick',
        'thorough_cmd': f'./check {pid} --tier thorough',
        'evidence_file': f'evidence/{pid}.json',
        'replay_cmd_template': f'./check {pid} --replay {{path}}',
        'engine': 'pyvc',
        'level_claimed': {'category': c['category'], 'text': c['text'], 'design_ref': c['ref']},
        'level_note': c['note'],
        'technique': c['technique'],
    })
man = {
    'version': 1,
    'setup_cmd': './setup.sh',
    'hooks': {
        'guard': 'EXABGP_VERIF',
        'enable': 'no source hooks: contracts are sidecar files under /verif/contracts and the verified text is extracted from /repo on every run',
        'baseline_off_cmd': BASE,
        'source_commits': [],
        'add_only': True,
    },
    'engines': [
        {'name': 'pyvc', 'path': 'pyvc/', 'serves_properties': sorted(CLAIMED), 'kind_free_text': 'AST-level path-wise symbolic executor for the real Python functions of /repo with sidecar contracts (requires/ensures/raises/loop invariants/variants/frames), obligations discharged by z3 (cvc5 on unknown, and as second opinion in the thorough tier); in-memory mutation canaries guard the engine; counter-models are replayed on the real code'},
        {'name': 'bounded', 'path': 'bounded/', 'serves_properties': sorted(CLAIMED), 'kind_free_text': 'runtime evaluation of the same contracts/spec functions over stated finite universes; labelled bounded, never counted as proved'},
    ],
    'checks': checks,
    'not_applicable': [{'property_id': p, 'reason': NA.get(p, NOT_YET)} for p in props if p not in CLAIMED],
    'notes': 'Exit codes of ./check: 0 held, 1 VIOLATION (replayed counterexample or named obligation), 2 undecided (never reported as violation), 3 checker crash / engine-soundness canary survived.',
}
json.dump(man, open(os.path.join(ROOT, 'MANIFEST.json'), 'w'), indent=1)
print('MANIFEST.json:', len(checks), 'checks,', len(man['not_applicable']), 'not_applicable')
