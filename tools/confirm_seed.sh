#!/bin/sh
# tools/confirm_seed.sh <worktree> <k> <dest-id>: confirm a seeded defect in a scratch worktree, then store it under seeded/<dest-id>/
# (a) suite passes with the change (same stable_pass set as BASELINE.json) (b) demo fails with it (c) demo passes without it
WT=$1; K=$2; DEST=$3
OUT=$WT/_out/$K
cd $WT || exit 2
git checkout -q -- src tests 2>/dev/null
git apply --check $OUT/patch.diff || { echo "patch does not apply"; exit 2; }
DEMO=$OUT/demo.py; RUN="/venv/bin/python $DEMO"
[ -f $DEMO ] || { DEMO=$OUT/demo_test.py; RUN="/venv/bin/python -m pytest -q -p no:cacheprovider $DEMO"; }
PYTHONPATH=$WT/src $RUN >/tmp/demo_clean.$$ 2>&1; C=$?
git apply $OUT/patch.diff
PYTHONPATH=$WT/src $RUN >/tmp/demo_mut.$$ 2>&1; M=$?
PYTHONPATH=$WT/src /venv/bin/python -m pytest -q -p no:cacheprovider --timeout=900 --continue-on-collection-errors -n 8 --junitxml=/tmp/seed.$$.xml tests >/tmp/seed.$$.log 2>&1
/venv/bin/python - /tmp/seed.$$.xml <<'PY'
import json, sys, xml.etree.ElementTree as ET
base = set(json.load(open('/root/.vp/BASELINE.json'))['stable_pass'])
passed = set()
for tc in ET.parse(sys.argv[1]).getroot().iter('testcase'):
    if not any(ch.tag in ('failure', 'error', 'skipped') for ch in tc):
        passed.add(f"{tc.get('classname')}::{tc.get('name')}")
missing = sorted(base - passed)
print(f'suite with change: passed={len(passed)} missing_from_baseline={len(missing)}', missing[:5])
sys.exit(1 if missing else 0)
PY
S=$?
git checkout -q -- src tests 2>/dev/null
echo "demo clean exit=$C  demo mutated exit=$M  suite=$S"
if [ $C -eq 0 ] && [ $M -ne 0 ] && [ $S -eq 0 ]; then
  mkdir -p /verif/seeded/$DEST
  cp $OUT/patch.diff /verif/seeded/$DEST/patch.diff
  cp $DEMO /verif/seeded/$DEST/
  cp $OUT/notes.md /verif/seeded/$DEST/notes.md 2>/dev/null
  echo "CONFIRMED -> seeded/$DEST"
else
  echo "NOT CONFIRMED"; tail -5 /tmp/demo_clean.$$ /tmp/demo_mut.$$
fi
rm -f /tmp/demo_clean.$$ /tmp/demo_mut.$$ /tmp/seed.$$.xml /tmp/seed.$$.log
