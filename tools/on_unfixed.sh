#!/bin/sh
# tools/on_unfixed.sh <Cnn> [...]: run the checks against /repo WITHOUT its uncommitted changes (git stash), to see that a
# check fails before a repair is committed; the evidence files and replays of /verif are put back afterwards, so that a
# violating run is never committed as evidence
cd /verif; rm -rf .tmp/ev.save; mkdir -p .tmp/ev.save; cp evidence/*.json .tmp/ev.save/
git -C /repo stash -q || exit 2
for P in "$@"; do ./check $P 2>&1 | grep -E "^VIOLATION|^UNDECIDED|CRASH|UNSOUND|tier=" | head -6; done
git -C /repo stash pop -q
cp .tmp/ev.save/*.json evidence/; rm -f replays/*.json
