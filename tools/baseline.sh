#!/bin/sh
# runs the repository's baseline test command (guard off) and compares with BASELINE.json's stable_pass list
OUT=${1:-/tmp/baseline.junit.xml}
cd /repo && /venv/bin/python -m pytest -ra -q -p no:cacheprovider --timeout=900 --continue-on-collection-errors -n ${JOBS:-8} --junitxml=$OUT >/tmp/baseline.log 2>&1
tail -3 /tmp/baseline.log
# tests/unit/test_gates_are_wired.py (not in the stable set: needs uv) leaves this probe behind in the tree
rm -f /repo/compat_corpus.py
/venv/bin/python - "$OUT" <<'PY'
import json, sys, xml.etree.ElementTree as ET
base = set(json.load(open('/root/.vp/BASELINE.json'))['stable_pass'])
passed = set()
for tc in ET.parse(sys.argv[1]).getroot().iter('testcase'):
    if not any(ch.tag in ('failure', 'error', 'skipped') for ch in tc):
        passed.add(f"{tc.get('classname')}::{tc.get('name')}")
missing = sorted(base - passed)
print(f'baseline stable_pass={len(base)} passed_now={len(passed)} missing={len(missing)}')
for m in missing[:20]:
    print('  MISSING', m)
sys.exit(1 if missing else 0)
PY
