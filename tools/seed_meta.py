#!/usr/bin/env python3
"""writes seeded/<id>/meta.json from the table below (what each seeded change breaks, needs, and which check catches it)"""
import json, os

ROOT = os.path.dirname(os.path.dirname(os.path.abspath(__file__)))
RAN = 'confirmed with tools/confirm_seed.sh in a scratch worktree (full suite == BASELINE stable_pass with the change; demo fails with it, passes without); checks run with tools/seedtest.sh (git apply on /repo, ./check, git checkout)'
T = {
    'C06-1': ('C06', '_reader_async re-requests `number` bytes after a short read and clamps: over-reads into the next message', 'a header/body split across reads with the rest of the stream already queued', ['C06: bounded reader-segmentations (VIOLATION, replayed); deductive part UNDECIDED (function restructured to sock_recv, outside the callee contract)']),
    'C06-2': ('C06', 'header-only fast path moved above the per-type length check: UPDATE/NOTIFICATION/OPEN/REFRESH of length 19 accepted', 'a 19-byte message of a type whose minimum is larger', ['C06: deductive, clause post:2 of Connection.reader_async (replayed on a socketpair)']),
    'C06-3': ('C06', 'msg_size 65535 as soon as the PEER advertises extended message', 'local extended-message disabled + peer capability 6 + a message > 4096', ['C07/C06: deductive, Negotiated._negotiate msg_size clause (see DESIGN §11)']),
    'C09-1': ('C09', 'MP_REACH budget computed once from the header-only payload (ignores the 4th header byte above 255)', 'an MP family filled exactly to the boundary', ['C09: deductive, clause inv-step:2:1 of MPNLRICollection.packed_reach_attributes (no native input: segment contract)']),
    'C09-2': ('C09', 'MP withdrawals of a family with no announces are dropped when another MP family announces', 'announce in MP family F1 and withdraw in F2 in one collection', ['C09: bounded sizes-straddling-limits (mixed-family shapes); the classification prefix of messages() is abstracted in the deductive part']),
    'C09-3': ('C09', 'IPv4 prefixes with an IPv6 next hop are put in the classic NLRI field and lose their next hop', 'RFC 8950 route: IPv4 unicast with IPv6 next hop', ['C09: bounded sizes-straddling-limits (v4nh6 shapes)']),
    'C12-1': ('C12', 'send timer polled only on idle turns of Peer._main', 'a peer sending messages < 0.1 s apart for longer than H/3', ['missed so far: scheduling of the main loop (see DESIGN §7/§11)']),
    'C12-2': ('C12', 'hold timer restarted only by KEEPALIVE and UPDATE', 'a stretch > H with only ROUTE-REFRESH / OPERATIONAL traffic', ['C12: deductive, clauses post:2, post:3, raises:Notify:classified of ReceiveTimer.check_ka_timer (replayed)']),
    'C12-3': ('C12', 'negotiated hold time clamped to >= 3: a negotiated 0 becomes 3', 'hold time 0 on either side', ['C07/C12: deductive, Negotiated._negotiate holdtime clause (see DESIGN §11)']),
    'C16-1': ('C16', 'one-byte NLRI length used for exactly 240 bytes', 'a rule of exactly 240 bytes', ['C16: deductive, clause post:1 of Flow._encode_length (replayed); bounded text-to-wire']),
    'C16-2': ('C16', 'AND bit carried over to the following OR terms of a bracketed list', 'a list with an a&b term followed by another term', ['C16: bounded text-to-wire (text parser is bounded only)']),
    'C16-3': ('C16', 'undefined trailing component type keeps the shorter rule (break instead of refusal)', 'a rule followed by a component type above the family maximum', ['C16: deductive, clause post:0 of Flow._parse_rules (whole payload walked); bounded wire-decode (replayed)']),
    'C02-1': ('C02', 'MP_REACH next hop taken as the LAST 16 bytes: a 32-byte global+link-local next hop is reported as the link-local', 'an MP_REACH with a 32-byte IPv6 next hop', ['C02: bounded decode-vs-reference (replayed)']),
    'C02-2': ('C02', 'Cache.update_cache keeps the old route when attributes.index() is unchanged: an MP route re-announced with a new next hop keeps the old one in Adj-RIB-In', 'two-step history on an MP family with identical attributes and different next hops', ['C02: bounded rib-history (replayed)']),
    'C02-3': ('C02', 'JSON._update hoists m out of the per-family loop: IPv4 prefixes repeated under "ipv6 unicast"', 'one UPDATE announcing two families', ['C02: bounded decode-vs-reference (replayed)']),
    'C08-1': ('C08', 'zero-length rule narrowed to treat-as-withdraw classes: a zero-length COMMUNITY etc. is decoded as a valid empty attribute', 'a zero-length attribute of a class without the flag', ['C08: bounded single-attribute-corruption (zero length)']),
    'C08-2': ('C08', 'cls.previous = data moved before the parse: a malformed block seen twice is served the earlier good collection', 'three-step history: good, malformed, same malformed again', ['C08/C19: deductive, clause final:0 / post:2 (cache invariant) of AttributeCollection.unpack']),
    'C08-3': ('C08', 'ORIGIN value 3 accepted (> 3 instead of > 2)', 'an UPDATE with ORIGIN = 3', ['C08/C02: deductive, clause raises:ValueError:0:if of Origin.from_packet (replayed)']),
    'C07-1': ('C07', 'ADD-PATH receive loses the & SEND mask on the peer value', 'we receive, peer advertises receive-only for a family', ['C07: bounded open-pairs (RequirePath.setup is bounded only)']),
    'C07-2': ('C07', 'RFC 9072 extended OPEN writes the non-extended length in front of the extended parameters', 'an OPEN with >= 255 bytes of optional parameters', ['C07: bounded rfc9072-long-open']),
    'C07-3': ('C07', '2/6 test uses the negotiated hold time (min) instead of the received one', 'local hold-time 0 and peer hold time 1 or 2', ['C07: deductive, clauses post:2/post:3 of Negotiated.validate']),
    'C20-1': ('C20', 'RISING->FALLING keeps the success count: DOWN after fewer than fall failures', 'rise >= 3, a failure after >= 2 successes in RISING', ['C20: deductive, clause post:11 (counter invariant) of loop.one; bounded histories']),
    'C20-2': ('C20', 'no withdraw when stopped in INIT/RISING/FALLING', 'stop (SIGTERM / Ctrl-C) during a transient state', ['C20: deductive, clause final:0 of loop.sigterm_handler and post:0 of loop#main; bounded histories']),
    'C20-3': ('C20', '--disabled-community ignored unless --community is set', 'disabled-community without community, reaching DOWN/DISABLED', ['C20: deductive, clause line:template of loop.exabgp#a; bounded histories']),
    'C04-1': ('C04', 'a withdraw cancels the queued announce using the WITHDRAW\'s attribute index instead of the queued route\'s', 'announce p med 50 then withdraw p with different non-empty attributes in one window', ['C04: bounded operation-sequences (outside the known-finding region: one attribute set per window)']),
    'C04-2': ('C04', 'announce queues snapshotted late in updates()', 'generator suspended after a withdraw, then withdraw p + announce p', ['C04: bounded operation-sequences (partial consumption points)']),
    'C04-3': ('C04', 'clear adj-rib-out drops the withdraw of a route whose re-announce is still queued', 'p sent, re-announced with new attributes, then clear in the same window', ['C04: bounded operation-sequences']),
    'C17-1': ('C17', 'Neighbor.previous only linked when the neighbor definition is unchanged: routes removed by a reload that also changes a session parameter come back after the re-establishment', 'a reload that changes hold-time (re-establish) AND removes a route', ['C17: bounded reload-pairs']),
    'C17-2': ('C17', 'a reused Adj-RIB-Out does not get its families refreshed: routes of a family added by the reload are never sent', 'a reload adding ipv6 unicast together with a route in it', ['C17: bounded reload-pairs (family-added pairs)']),
    'C17-3': ('C17', 'removed neighbors are only looked for among active peers: a removed passive neighbor whose session is down keeps serving the old configuration', 'passive neighbor, session down at reload time, deleted by the new file', ['C17: bounded removed-neighbors (added after this seed was missed)']),
}
for sid, (pid, what, needs, caught) in T.items():
    d = os.path.join(ROOT, 'seeded', sid)
    if not os.path.isdir(d):
        continue
    json.dump({'id': sid, 'property': pid, 'breaks': what, 'needs': needs, 'caught_by': caught, 'ran': RAN, 'patch_base': 'current /repo HEAD (ported where a fix: commit touched the same hunk; original kept by the seeding agent)'}, open(os.path.join(d, 'meta.json'), 'w'), indent=1)
print('meta written for', len(T))
