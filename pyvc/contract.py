"""pyvc.contract — sidecar contract data, parameter specs, registry and mechanical extraction from /repo's tree."""

from __future__ import annotations

import ast
import importlib
import os
import textwrap

REPO = os.environ.get('PYVC_REPO', '/repo')
SRC = os.path.join(REPO, 'src', 'exabgp')


class PSpec:
    def __init__(self, kind, **kw):
        self.kind = kind
        self.lo = kw.get('lo')
        self.hi = kw.get('hi')
        self.bkind = kw.get('bkind', 'bytes')
        self.cls = kw.get('cls')
        self.fields = kw.get('fields', {})
        self.value = kw.get('value')
        self.elem = kw.get('elem')


def int_(lo=None, hi=None):
    return PSpec('int', lo=lo, hi=hi)


def bool_():
    return PSpec('bool')


def real_():
    return PSpec('real')


def bytes_(lo=0, hi=None, kind='bytes'):
    return PSpec('bytes', lo=lo, hi=hi, bkind=kind)


def str_():
    return PSpec('str')


def const(v):
    return PSpec('const', value=v)


def obj(cls=None, **fields):
    return PSpec('obj', cls=cls, fields=fields)


def seq(elem, hi=None):
    return PSpec('seq', elem=elem, hi=hi)


def tuple_(*elems):
    return PSpec('tuple', elem=list(elems))


def custom(builder):
    return PSpec('custom', value=builder)


class Contract:
    def __init__(
        self,
        file=None,
        qualname=None,
        props=(),
        params=None,
        ghost=None,
        requires=(),
        ensures=(),
        raises=(),
        escapes=(),
        callees=None,
        loops=None,
        yields=(),
        lets=None,
        canaries=(),
        replay=None,
        modifies=(),
        result=None,
        result_value=None,
        effect=None,
        on_yield=None,
        nested=None,
        param_names=None,
        setup=None,
        covers=(),
        final=None,
        notes=(),
        cover_raises=True,
        ghost_final=None,
        segment=None,
        specfns=None,
        pure_calls=(),
        opaque_calls=False,
    ):
        self.opaque_calls = opaque_calls
        self.file, self.qualname = file, qualname
        self.props = tuple(props)
        self.params = params or {}
        self.ghost = ghost or {}
        self.requires, self.ensures = list(requires), list(ensures)
        self.raises = list(raises)
        self.escapes = list(escapes)
        self.callees = callees or {}
        self.loops = loops or {}
        self.yields = list(yields)
        self.lets = lets or {}
        self.canaries = list(canaries)
        self.replay = replay
        self.modifies = list(modifies)
        self.result = result
        self.result_value = result_value
        self.effect = effect
        self.on_yield = on_yield
        self.nested = nested or {}
        self.param_names = param_names
        self.setup = setup
        self.covers = list(covers)
        self.final = final
        self.notes = list(notes)
        self.cover_raises = cover_raises
        self.ghost_final = ghost_final
        self.segment = segment
        self.specfns = specfns or {}
        self.pure_calls = tuple(pure_calls)  # callees declared pure and total: lets the engine merge (not fork) simple conditionals

    @property
    def key(self):
        return (self.file, self.qualname)

    def raise_cases(self):
        return self.raises

    def as_inline(self):
        """contract view used for nested/inlined helper frames: same callees, no loops of its own"""
        c = Contract(self.file, self.qualname, callees=self.callees, loops={}, pure_calls=self.pure_calls)
        return c


class Registry:
    def __init__(self):
        self.contracts = {}
        self.inline = set()  # (file, qualname)
        self.native = {}  # (file, qualname) -> handler
        self.pure_native = set()  # python callables allowed to be called natively on concrete arguments
        self.record_classes = set()
        self.source_override = {}  # (file, qualname) -> replacement source text of the function
        self._ast = {}
        self._src = {}
        self.drops = {}  # (file, qualname) -> list of dropped constructs (reported)

    # ------------------------------------------------------------- registration
    def add(self, c):
        if c.key in self.contracts:
            raise ValueError(f'duplicate contract {c.key}')
        self.contracts[c.key] = c
        return c

    def mark_inline(self, file, *qualnames):
        for q in qualnames:
            self.inline.add((file, q))

    def mark_native(self, file, qualname, handler):
        self.native[(file, qualname)] = handler

    def allow_native(self, *callables):
        for f in callables:
            self.pure_native.add(_ident(f))

    def is_pure_native(self, f):
        return _ident(f) in self.pure_native

    # ------------------------------------------------------------- lookup
    def key_of(self, func):
        code = getattr(func, '__code__', None)
        if code is None:
            return None
        fn = code.co_filename
        if not fn.startswith(SRC):
            fn = os.path.realpath(fn)
            if not fn.startswith(SRC):
                return None
        return (os.path.relpath(fn, SRC), func.__qualname__.replace('.<locals>', ''))

    def for_function(self, func):
        k = self.key_of(func)
        if k is None:
            return None
        if k in self.native:
            return ('native', self.native[k])
        if k in self.contracts and k not in self.inline:
            return ('contract', self.contracts[k])
        if k in self.inline:
            return ('inline', k)
        return None

    def module_name(self, file):
        return 'exabgp.' + file[:-3].replace('/', '.').removesuffix('.__init__')

    def module_for(self, file):
        return importlib.import_module(self.module_name(file))

    def globals_for(self, c):
        file = c.file if hasattr(c, 'file') else c
        return self.module_for(file).__dict__

    def source(self, file):
        if file not in self._src:
            with open(os.path.join(SRC, file)) as f:
                self._src[file] = f.read()
        return self._src[file]

    def tree(self, file):
        if file not in self._ast:
            self._ast[file] = ast.parse(self.source(file))
        return self._ast[file]

    def find_node(self, file, qualname):
        ov = self.source_override.get((file, qualname))
        qualname = qualname.split('#')[0]  # `Class.method#tag`: a second (segment) contract on the same function
        if ov is not None:
            t = ast.parse(textwrap.dedent(ov))
            return t.body[0]
        node = self.tree(file)
        for part in qualname.split('.'):
            found = None
            for n in ast.walk(node) if not isinstance(node, ast.Module) else node.body:
                if n is node:
                    continue
                if isinstance(n, (ast.FunctionDef, ast.AsyncFunctionDef, ast.ClassDef)) and n.name == part:
                    found = n
                    break
            if found is None:
                # nested deeper (e.g. inside if/try at module level)
                for n in ast.walk(node):
                    if n is not node and isinstance(n, (ast.FunctionDef, ast.AsyncFunctionDef, ast.ClassDef)) and n.name == part:
                        found = n
                        break
            if found is None:
                raise LookupError(f'{file}:{qualname} not found in the current tree')
            node = found
        return node

    def segment(self, file, qualname):
        """source text of the function in the current tree (used by canaries and evidence)"""
        ov = self.source_override.get((file, qualname))
        if ov is not None:
            return ov
        node = self.find_node(file, qualname.split('#')[0])
        lines = self.source(file).splitlines(keepends=True)
        start = min([node.lineno] + [d.lineno for d in node.decorator_list]) - 1
        return ''.join(lines[start : node.end_lineno])

    def node_for(self, c):
        return self.find_node(c.file, c.qualname)

    def vfunc_for(self, func):
        from .interp import VFunc, Frame

        k = self.key_of(func)
        node = self.find_node(*k)
        mod = self.module_for(k[0])
        fr = Frame(mod.__dict__, {}, None, self.contracts.get(k).as_inline() if k in self.contracts else None, k[0], '<module>')
        vf = VFunc(node, fr, k[1], module=k[0], contract_key=None)
        # inlined helpers see the *caller-independent* inline contract (their own callees / loops if declared)
        c = self.contracts.get(k)
        if c is not None:
            fr.contract = c
            vf.contract_key = k
        return vf

    def vfunc_for_lambda(self, func):
        """a live lambda of the repository (e.g. the validators in Message.Length) is inlined from its real source line"""
        from .interp import VFunc, Frame

        code = func.__code__
        fn = os.path.realpath(code.co_filename)
        if not fn.startswith(SRC):
            return None
        file = os.path.relpath(fn, SRC)
        cands = [n for n in ast.walk(self.tree(file)) if isinstance(n, ast.Lambda) and n.lineno == code.co_firstlineno]
        if len(cands) != 1:
            return None
        mod = self.module_for(file)
        fr = Frame(mod.__dict__, {}, None, None, file, '<module>')
        return VFunc(cands[0], fr, f'<lambda@{file}:{code.co_firstlineno}>', module=file)

    def resolve_class(self, spec):
        mod, name = spec.split(':')
        m = importlib.import_module(mod)
        o = m
        for p in name.split('.'):
            o = getattr(o, p)
        return o

    def resolve_exc(self, name, c=None):
        import builtins
        import struct
        import socket

        if isinstance(name, type):
            return name
        if ':' in name:
            return self.resolve_class(name)
        if hasattr(builtins, name):
            return getattr(builtins, name)
        if name == 'struct.error':
            return struct.error
        if name == 'socket.timeout':
            return socket.timeout
        if c is not None and getattr(c, 'file', None):
            g = self.globals_for(c)
            if name in g:
                return g[name]
        for modname in ('exabgp.bgp.message.notification', 'exabgp.reactor.network.error'):
            m = importlib.import_module(modname)
            if hasattr(m, name):
                return getattr(m, name)
        raise LookupError(f'exception class {name}')


def _ident(f):
    return (getattr(f, '__module__', None), getattr(f, '__qualname__', None) or repr(f))
