"""pyvc.values — symbolic value domain.

Scalars: Python int/bool/float/None/str when concrete, z3 ArithRef / BoolRef when symbolic.
Bytes-like values are ROPES of pieces; a piece is a literal, a single symbolic byte, or a VIEW
(array, offset, length) so that slicing and indexing are linear integer arithmetic (no sequence theory).
Objects are meta-level records with concrete identity.
"""

from __future__ import annotations

import z3

I = z3.IntSort()
B = z3.BoolSort()
ARR = z3.ArraySort(I, I)


def is_sym(x):
    return isinstance(x, z3.ExprRef)


def is_int(x):
    return (isinstance(x, int) and not isinstance(x, bool)) or (is_sym(x) and z3.is_int(x))


def is_boolish(x):
    return isinstance(x, bool) or (is_sym(x) and z3.is_bool(x))


def is_real(x):
    return isinstance(x, float) or (is_sym(x) and z3.is_real(x))


class Unsupported(Exception):
    """construct outside the subset / missing contract: the function is out of reach, never silently skipped"""


def to_z3(x):
    if is_sym(x):
        return x
    if isinstance(x, bool):
        return z3.BoolVal(x)
    if isinstance(x, int):
        return z3.IntVal(int(x))
    if isinstance(x, float):
        return z3.RealVal(repr(x))
    if type(x).__name__ == 'VObj' and x.fields.get('opaque!'):
        raise Unsupported(f'arithmetic / index use of the unconstrained value {x.name}')
    raise TypeError(f'to_z3: {x!r}')


def simp(x):
    """simplify; fold to Python scalars when the result is a literal."""
    if not is_sym(x):
        return x
    x = z3.simplify(x)
    if z3.is_true(x):
        return True
    if z3.is_false(x):
        return False
    if z3.is_int_value(x):
        return x.as_long()
    return x


def z_and(*xs):
    out = []
    for x in xs:
        if x is True:
            continue
        if x is False:
            return False
        out.append(to_z3(x))
    if not out:
        return True
    if len(out) == 1:
        return out[0]
    return z3.And(*out)


def z_or(*xs):
    out = []
    for x in xs:
        if x is False:
            continue
        if x is True:
            return True
        out.append(to_z3(x))
    if not out:
        return False
    if len(out) == 1:
        return out[0]
    return z3.Or(*out)


def z_not(x):
    if isinstance(x, bool):
        return not x
    return z3.Not(x)


def z_implies(a, b):
    if a is True:
        return b
    if a is False:
        return True
    if b is True:
        return True
    return z3.Implies(to_z3(a), to_z3(b))


def z_ite(c, a, b):
    if c is True:
        return a
    if c is False:
        return b
    if a is b:
        return a
    if isinstance(a, (VBytes, VIte)) or isinstance(b, (VBytes, VIte)):
        return VIte(c, a, b)
    if a is None or b is None or isinstance(a, (VObj, VTuple, VList, str)) or isinstance(b, (VObj, VTuple, VList, str)):
        if not is_sym(a) and not is_sym(b) and type(a) is type(b) and a == b:
            return a
        return VIte(c, a, b)
    if is_boolish(a) and is_boolish(b):
        return z3.If(c, to_z3(a), to_z3(b))
    if is_real(a) or is_real(b):
        return z3.If(c, to_real(a), to_real(b))
    return z3.If(c, to_z3(a), to_z3(b))


def to_real(x):
    if is_sym(x):
        return z3.ToReal(x) if z3.is_int(x) else x
    return z3.RealVal(repr(float(x)))


class VIte:
    """lazy conditional over non-scalar values (spec mode only)."""

    def __init__(self, c, a, b):
        self.c, self.a, self.b = c, a, b

    def map(self, f):
        return z_ite(self.c, lift(self.a, f), lift(self.b, f))


def lift(v, f):
    if isinstance(v, VIte):
        return v.map(f)
    return f(v)


def lift2(a, b, f):
    if isinstance(a, VIte):
        return z_ite(a.c, lift2(a.a, b, f), lift2(a.b, b, f))
    if isinstance(b, VIte):
        return z_ite(b.c, lift2(a, b.a, f), lift2(a, b.b, f))
    return f(a, b)


# ---------------------------------------------------------------------------------------- bytes / ropes


class VBuf:
    """a mutable byte buffer (bytearray); `arr` is replaced on write."""

    _n = 0

    def __init__(self, arr, length):
        self.arr = arr
        self.length = length
        VBuf._n += 1
        self.ident = VBuf._n


class Piece:
    __slots__ = ('kind', 'a', 'off', 'len')

    def __init__(self, kind, a, off=0, length=None):
        self.kind = kind  # 'lit' (a: bytes) | 'byte' (a: int expr) | 'view' (a: z3 array or VBuf)
        self.a = a
        self.off = off
        if kind == 'lit':
            length = len(a)
        elif kind == 'byte':
            length = 1
        self.len = length

    def arr(self):
        return self.a.arr if isinstance(self.a, VBuf) else self.a

    def at(self, i):
        """element i (0 <= i < len assumed)"""
        if self.kind == 'lit':
            if isinstance(i, int):
                # out of range only inside a rope's If-chain, on the arm the guard excludes: value irrelevant
                return self.a[i] if 0 <= i < len(self.a) else 0
            if len(self.a) == 1:
                return self.a[0]
            e = z3.IntVal(self.a[-1])
            for k in range(len(self.a) - 2, -1, -1):
                e = z3.If(i == k, z3.IntVal(self.a[k]), e)
            return e
        if self.kind == 'byte':
            return self.a
        return simp(z3.Select(self.arr(), to_z3(simp(self.off + i))))


class VBytes:
    """immutable bytes-like value: a rope of pieces. `kind` remembers bytes/bytearray/memoryview for isinstance."""

    def __init__(self, pieces, kind='bytes'):
        ps = []
        for p in pieces:
            if p.kind == 'lit' and len(p.a) == 0:
                continue
            if p.kind == 'view' and isinstance(p.len, int) and p.len == 0:
                continue
            if ps and p.kind == 'lit' and ps[-1].kind == 'lit':
                ps[-1] = Piece('lit', ps[-1].a + p.a)
                continue
            ps.append(p)
        self.pieces = ps
        self.kind = kind

    @staticmethod
    def lit(b):
        return VBytes([Piece('lit', bytes(b))])

    @staticmethod
    def view(arr, off, length, kind='bytes'):
        return VBytes([Piece('view', arr, off, length)], kind)

    def length(self):
        t = 0
        for p in self.pieces:
            t = t + p.len
        return simp(t)

    def concrete(self):
        """bytes if the rope is fully literal else None"""
        if not self.pieces:
            return b''
        if len(self.pieces) == 1 and self.pieces[0].kind == 'lit':
            return self.pieces[0].a
        return None

    def is_single_view(self):
        return len(self.pieces) == 1 and self.pieces[0].kind == 'view'

    def at(self, i):
        """element i (0 <= i < length assumed), nested ite over pieces"""
        if not self.pieces:
            return 0
        if len(self.pieces) == 1:
            return self.pieces[0].at(i)
        if isinstance(i, int):
            base = 0
            for p in self.pieces:
                if isinstance(p.len, int) and isinstance(base, int):
                    if i < base + p.len:
                        return p.at(i - base)
                    base += p.len
                else:
                    break
            else:
                return 0
        # general
        bases = []
        base = 0
        for p in self.pieces:
            bases.append(base)
            base = simp(base + p.len)
        e = to_z3(self.pieces[-1].at(simp(i - bases[-1])))
        for k in range(len(self.pieces) - 2, -1, -1):
            p = self.pieces[k]
            e = z3.If(to_z3(i) < to_z3(simp(bases[k] + p.len)), to_z3(p.at(simp(i - bases[k]))), e)
        return simp(e)

    def as_array(self):
        """(array, offset) such that element i is array[offset+i]; materialises multi-piece ropes with a lambda."""
        if self.is_single_view():
            p = self.pieces[0]
            return p.arr(), p.off
        j = z3.Int('j!mat')
        body = to_z3(self.at(j))
        return z3.Lambda([j], body), 0

    def slice(self, lo, hi):
        """rope for self[lo:hi] with 0 <= lo <= hi <= length already established"""
        n = simp(hi - lo)
        if isinstance(n, int) and n == 0:
            return VBytes([], self.kind)
        if len(self.pieces) == 1:
            p = self.pieces[0]
            if p.kind == 'lit' and isinstance(lo, int) and isinstance(hi, int):
                return VBytes([Piece('lit', p.a[lo:hi])], self.kind)
            if p.kind == 'view':
                return VBytes([Piece('view', p.a, simp(p.off + lo), n)], self.kind)
            if p.kind == 'byte' and isinstance(lo, int) and isinstance(hi, int):
                return VBytes([p] if (lo == 0 and hi >= 1) else [], self.kind)
        # piecewise when boundaries are concrete
        if isinstance(lo, int) and isinstance(hi, int) and all(isinstance(p.len, int) for p in self.pieces):
            out = []
            base = 0
            for p in self.pieces:
                a, b = max(lo, base), min(hi, base + p.len)
                if a < b:
                    out.extend(VBytes([p]).slice(a - base, b - base).pieces)
                base += p.len
            return VBytes(out, self.kind)
        # prefix of concrete pieces then the rest: common for header ++ payload
        if isinstance(lo, int):
            base = 0
            for k, p in enumerate(self.pieces):
                if not isinstance(p.len, int):
                    break
                if lo < base + p.len:
                    break
                base += p.len
            else:
                k = len(self.pieces)
            if k and base <= lo:
                rest = VBytes(self.pieces[k:], self.kind)
                return rest.slice(simp(lo - base), simp(hi - base))
        arr, off = self.as_array()
        return VBytes([Piece('view', arr, simp(off + lo), n)], self.kind)

    def concat(self, other):
        kind = self.kind if self.kind != 'memoryview' else 'bytes'
        if self.pieces and other.pieces:
            a, b = self.pieces[-1], other.pieces[0]
            if a.kind == b.kind == 'view' and (a.a is b.a or (is_sym(a.a) and is_sym(b.a) and z3.eq(a.a, b.a))):
                if z3.eq(to_z3(simp(a.off + a.len)), to_z3(simp(b.off))):
                    # two adjacent windows of the same buffer are one window
                    merged = Piece('view', a.a, a.off, simp(a.len + b.len))
                    return VBytes(self.pieces[:-1] + [merged] + other.pieces[1:], kind)
        return VBytes(self.pieces + other.pieces, kind)


def bytes_eq(a: VBytes, b: VBytes):
    """formula a == b (Python bytes equality)"""
    la, lb = a.length(), b.length()
    if isinstance(la, int) and isinstance(lb, int) and la != lb:
        return False
    ca, cb = a.concrete(), b.concrete()
    if ca is not None and cb is not None:
        return ca == cb
    # same piece structure?
    if len(a.pieces) == len(b.pieces):
        same = True
        conj = []
        for p, q in zip(a.pieces, b.pieces):
            if p.kind == q.kind == 'view' and p.a is q.a and z3.eq(to_z3(p.off), to_z3(q.off)) and z3.eq(to_z3(p.len), to_z3(q.len)):
                continue
            if p.kind == q.kind == 'byte':
                conj.append(to_z3(p.a) == to_z3(q.a))
                continue
            if p.kind == 'lit' and q.kind == 'lit' and p.a == q.a:
                continue
            same = False
            break
        if same:
            return simp(z_and(*conj))
    n = la if isinstance(la, int) else lb
    if isinstance(n, int) and n <= 64:
        conj = [to_z3(la) == to_z3(lb)] if not (isinstance(la, int) and isinstance(lb, int)) else []
        for i in range(n):
            conj.append(to_z3(a.at(i)) == to_z3(b.at(i)))
        return simp(z_and(*conj))
    i = z3.Int('i!eq')
    body = z3.Implies(z3.And(i >= 0, i < to_z3(la)), to_z3(a.at(i)) == to_z3(b.at(i)))
    return z3.And(to_z3(la) == to_z3(lb), z3.ForAll([i], body))


# ---------------------------------------------------------------------------------------- containers / objects


class VTuple:
    def __init__(self, items):
        self.items = tuple(items)


class VList:
    """list of statically known length (meta level), mutable"""

    def __init__(self, items):
        self.items = list(items)


class VSeq:
    """list of symbolic length: element i is elem(i) (a Python callable producing a value), length is an int expr.
    Elements are produced by a factory so that objects in lists can be records."""

    def __init__(self, length, elem, name='seq', isinstance_of=(), contains=None):
        self.length = length
        self.elem = elem
        self.name = name
        self.isinstance_of = tuple(isinstance_of)  # real classes this list-like value is an instance of
        self.contains = contains  # optional hook: item -> formula


class VMap:
    """symbolic dict: has: Array K->Bool, val: Array K->V over Int keys (callers encode keys as ints)."""

    def __init__(self, has, val):
        self.has = has
        self.val = val


class VObj:
    _n = 0

    def __init__(self, cls=None, fields=None, name='obj'):
        self.cls = cls
        self.fields = dict(fields or {})
        self.name = name
        VObj._n += 1
        self.ident = VObj._n

    def __repr__(self):
        return f'<VObj {self.name} {getattr(self.cls, "__name__", self.cls)}>'


class VExc:
    """an exception instance: real class, evaluated args"""

    def __init__(self, cls, args, cause=None):
        self.cls = cls
        self.args = tuple(args)

    def __repr__(self):
        return f'<VExc {self.cls.__name__}{self.args!r}>'


class VBound:
    """bound method: receiver + function-ish (real function object, or name)"""

    def __init__(self, recv, func, name):
        self.recv = recv
        self.func = func
        self.name = name


class VOpaque:
    """an opaque value of a named sort with symbolic identity (an int id expr); equality only"""

    def __init__(self, sort, ident):
        self.sort = sort
        self.ident = ident


class VStr:
    """symbolic string: opaque (ident int expr) — content unknown; equality via ident"""

    def __init__(self, ident, name='str'):
        self.ident = ident
        self.name = name


class VSpecFn:
    """a specification-level function (uninterpreted function application, ghost accessor, ...) callable from contract text"""

    def __init__(self, fn, name='specfn'):
        self.fn = fn
        self.name = name
