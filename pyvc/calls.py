"""pyvc.calls — call dispatch: callee contracts (modular), inlined real sources, builtins, exception construction."""

from __future__ import annotations

import ast
import inspect
import struct as _struct

import z3

from .values import *  # noqa: F401,F403
from .interp import (
    Raise,
    Unsupported,
    Frame,
    VFunc,
    VDict,
    VIterDone,
    PathCut,
    Infeasible,
    _Return,
    exc,
    truthy,
    py_int_trunc,
    _wrap_const,
    _has_sym,
    _to_py,
    _FMT,
    _str_id,
)


MAX_INLINE_DEPTH = 12


def do_call(it, e, fr):
    ctx = it.ctx
    try:
        dotted = ast.unparse(e.func)
    except Exception:
        dotted = '?'
    callees = fr.contract.callees if fr.contract is not None else {}
    spec = callees.get(dotted)
    # contract-language builtins (spec mode)
    if isinstance(e.func, ast.Name) and e.func.id in SPEC_FORMS and (ctx.spec_mode or e.func.id in ('ghost',)):
        return SPEC_FORMS[e.func.id](it, e, fr)
    if spec == 'drop':
        return None
    if spec is not None and not isinstance(spec, str):
        args = [it.eval(a, fr) for a in e.args]
        kwargs = {k.arg: it.eval(k.value, fr) for k in e.keywords}
        return apply_callee_spec(it, spec, dotted, args, kwargs, fr, e)
    opaque = fr.contract is not None and getattr(fr.contract, 'opaque_calls', False) and not ctx.spec_mode
    try:
        f = it.eval(e.func, fr)
    except Unsupported:
        if not opaque:
            raise
        f = None
    args = []
    for a in e.args:
        if isinstance(a, ast.Starred):
            args.extend(it.iter_static(it.eval(a.value, fr)))
        else:
            args.append(it.eval(a, fr))
    kwargs = {}
    for k in e.keywords:
        if k.arg is None:
            if opaque:
                # f(..., **d) in sweep mode: the mapping is evaluated (its construction carries its own obligations), the
                # callee is then treated as one without contract
                it.eval(k.value, fr)
                return opaque_result(it, dotted, fr)
            raise Unsupported('**kwargs call')
        kwargs[k.arg] = it.eval(k.value, fr)
    if not opaque:
        return call_value(it, f, args, kwargs, fr, e, dotted)
    # sweep mode: a callee without a contract returns an unconstrained value and is ASSUMED to raise nothing outside
    # the caller's allowed set (recorded per function as an unchecked assumption; the arguments were still evaluated,
    # so every slice / index / unpack in them carries its own obligation)
    if f is None:
        return opaque_result(it, dotted, fr)
    try:
        return call_value(it, f, args, kwargs, fr, e, dotted)
    except Unsupported as ex_:
        if not str(ex_).startswith('no contract for'):
            raise
        return opaque_result(it, dotted, fr)


def opaque_result(it, dotted, fr):
    it.ctx.assumed_calls = getattr(it.ctx, 'assumed_calls', set())
    it.ctx.assumed_calls.add(dotted)
    rec = getattr(it, 'assumed_calls', None)
    if rec is not None:
        rec.add(dotted)
    return VObj(None, {'opaque!': True, 'bool!': it.ctx.fresh(f'truth({dotted})', z3.BoolSort())}, f'opaque:{dotted}')


def call_value(it, f, args, kwargs, fr, node, dotted):
    ctx = it.ctx
    if isinstance(f, VFunc):
        return call_vfunc(it, f, args, kwargs, node)
    if isinstance(f, VSpecFn):
        return f.fn(it, *args, **kwargs)
    if isinstance(f, VObj) and 'call!' in f.fields:
        return f.fields['call!'](it, *args, **kwargs)
    if isinstance(f, VBound):
        if f.func is None:
            return call_method_builtin(it, f.recv, f.name, args, kwargs, fr, node)
        recv = f.recv
        return call_real(it, f.func, [recv] + list(args), kwargs, fr, node, dotted)
    if isinstance(f, VIte):
        # choice among callables (e.g. validators looked up in a live table)
        if ctx.spec_mode:
            return z_ite(f.c, call_value(it, f.a, args, kwargs, fr, node, dotted), call_value(it, f.b, args, kwargs, fr, node, dotted))
        if ctx.branch(f.c):
            return call_value(it, f.a, args, kwargs, fr, node, dotted)
        return call_value(it, f.b, args, kwargs, fr, node, dotted)
    if isinstance(f, type):
        if issubclass(f, BaseException) and not (it.sweep_mode() and f in it.registry.record_classes):
            return VExc(f, args)
        h = BUILTIN_TYPES.get(f)
        if h is not None:
            return h(it, args, kwargs, fr, node)
        return construct(it, f, args, kwargs, fr, node, dotted)
    h = BUILTIN_FUNCS.get(_fid(f))
    if h is not None:
        return h(it, args, kwargs, fr, node)
    if inspect.ismethod(f) and f.__self__ is not None and not _has_sym(args):
        # bound method of a live object (e.g. Message.CODE.name, classmethods of live classes)
        target = f.__func__
        if isinstance(f.__self__, type):
            return call_real(it, target, [f.__self__] + list(args), kwargs, fr, node, dotted)
    if inspect.isfunction(f) or inspect.ismethod(f):
        fn = f.__func__ if inspect.ismethod(f) else f
        pre = [f.__self__] if inspect.ismethod(f) else []
        return call_real(it, fn, pre + list(args), kwargs, fr, node, dotted)
    if callable(f) and not _has_sym(args) and not _has_sym(list(kwargs.values())):
        if it.registry.is_pure_native(f):
            return _wrap_const(f(*[_to_py(a) for a in args], **{k: _to_py(v) for k, v in kwargs.items()}))
    raise Unsupported(f'no contract for call {dotted} ({type(f).__name__}) at line {node.lineno} of {fr.qualname}')


def _fid(f):
    try:
        return (getattr(f, '__module__', None), getattr(f, '__qualname__', None) or getattr(f, '__name__', None))
    except Exception:
        return None


# ---------------------------------------------------------------------------------------- real functions


def call_real(it, func, args, kwargs, fr, node, label):
    """call of a real Python function object of the repository: contract if registered, inline if marked, else stop"""
    reg = it.registry
    entry = reg.for_function(func)
    if entry is None and getattr(func, '__name__', '') == '<lambda>':
        vf = reg.vfunc_for_lambda(func)
        if vf is not None:
            return call_vfunc(it, vf, args, kwargs, node)
    if entry is None:
        if reg.is_pure_native(func) and not _has_sym(args) and not _has_sym(list(kwargs.values())):
            return _wrap_const(func(*[_to_py(a) for a in args], **{k: _to_py(v) for k, v in kwargs.items()}))
        raise Unsupported(f'no contract for {getattr(func, "__module__", "?")}.{getattr(func, "__qualname__", func)} (called as {label} at line {getattr(node, "lineno", "?")} of {fr.qualname})')
    kind, payload = entry
    if kind == 'inline':
        vf = reg.vfunc_for(func)
        return call_vfunc(it, vf, args, kwargs, node)
    if kind == 'contract':
        return apply_contract(it, payload, args, kwargs, fr, node)
    if kind == 'native':
        return payload(it, args, kwargs, fr, node)
    raise Unsupported(f'bad registry entry for {label}')


def bind_args(fnode, args, kwargs, it, fr_def, defaults_frame):
    a = fnode.args
    params = [x.arg for x in a.posonlyargs + a.args]
    locs = {}
    args = list(args)
    if len(args) > len(params) and a.vararg is None:
        raise exc(TypeError, 'too many positional arguments')
    for name, v in zip(params, args):
        locs[name] = v
    if a.vararg is not None:
        locs[a.vararg.arg] = VTuple(args[len(params):])
    kwargs = dict(kwargs)
    for name in params[len(args):]:
        if name in kwargs:
            locs[name] = kwargs.pop(name)
    # defaults
    ndef = len(a.defaults)
    for i, name in enumerate(params):
        if name not in locs:
            j = i - (len(params) - ndef)
            if j < 0:
                raise exc(TypeError, f'missing argument {name}')
            locs[name] = it.eval(a.defaults[j], defaults_frame)
    for kw, dflt in zip(a.kwonlyargs, a.kw_defaults):
        if kw.arg in kwargs:
            locs[kw.arg] = kwargs.pop(kw.arg)
        elif dflt is not None:
            locs[kw.arg] = it.eval(dflt, defaults_frame)
        else:
            raise exc(TypeError, f'missing keyword argument {kw.arg}')
    if kwargs:
        if a.kwarg is not None:
            d = VDict()
            for k, v in kwargs.items():
                d.set(k, v)
            locs[a.kwarg.arg] = d
        else:
            raise exc(TypeError, f'unexpected keyword arguments {sorted(kwargs)}')
    return locs


def call_vfunc(it, f, args, kwargs, node=None):
    ctx = it.ctx
    if ctx.depth > MAX_INLINE_DEPTH:
        raise Unsupported(f'inline depth exceeded at {f.name}')
    if f.bound_self is not None:
        args = [f.bound_self] + list(args)
    fn = f.node
    parent = f.frame
    locs = bind_args(fn, args, kwargs, it, parent, parent)
    contract = None
    if f.contract_key is not None:
        contract = it.registry.contracts.get(f.contract_key)
    elif parent is not None:
        contract = _nested_contract(parent.contract, f.name)
    fr = Frame(parent.globs, locs, parent if f.module is None or parent.qualname != '<module>' else None, contract, f.module or parent.module, f.name)
    if isinstance(fn, ast.Lambda):
        return it.eval(fn.body, fr)
    fr.fnode = fn
    ctx.depth += 1
    try:
        if _is_generator(fn) and not getattr(f, 'as_generator_inline', False):
            # generator inlined eagerly: collect yields (used only for small helpers)
            saved = ctx.yielded
            ctx.yielded = []
            try:
                it.exec_block(fn.body, fr)
            except _Return:
                pass
            out = ctx.yielded
            ctx.yielded = saved
            return VList(out)
        it.exec_block(fn.body, fr)
    except _Return as r:
        return r.value
    finally:
        ctx.depth -= 1
    return None


def _nested_contract(parent_contract, name):
    if parent_contract is None:
        return None
    sub = getattr(parent_contract, 'nested', None) or {}
    return sub.get(name.split('.')[-1], parent_contract.as_inline())


def _is_generator(fn):
    for n in ast.walk(fn):
        if isinstance(n, (ast.Yield, ast.YieldFrom)):
            return True
    return False


# ---------------------------------------------------------------------------------------- contracts at call sites


def apply_contract(it, c, args, kwargs, fr, node):
    """modular call: check requires, havoc frame, assume ensures, fork raises"""
    ctx = it.ctx
    fnode = it.registry.node_for(c)
    dfr = Frame(it.registry.globals_for(c), {}, None, None, c.file, c.qualname)
    locs = bind_args(fnode, args, kwargs, it, dfr, dfr)
    return apply_spec_generic(it, c, locs, fr, node, label=c.qualname)


def apply_spec_generic(it, c, locs, fr, node, label):
    ctx = it.ctx
    cfr = Frame(it.registry.globals_for(c) if hasattr(c, 'file') and c.file else fr.globs, dict(locs), None, c, getattr(c, 'file', None), label + '<call>')
    # ghost/lets of the callee evaluated over the caller's actuals
    local_ghosts = []
    for name, fn in (getattr(c, 'specfns', None) or {}).items():
        cfr.locs[name] = fn
    for gname, gspec in (c.ghost or {}).items():
        # a ghost of the callee (clock, stream position...) is the caller's ghost of the same name
        try:
            cfr.locs[gname] = fr.lookup(gname)
        except Unsupported:
            if getattr(gspec, 'kind', None) == 'const':
                cfr.locs[gname] = _wrap_const(gspec.value)  # a counter local to the callee
                local_ghosts.append(gname)
                continue
            raise Unsupported(f'callee {label} needs ghost `{gname}` which the caller does not declare')
    if c.result is None and c.result_value is None and any('result' in r and 'result is None' not in r for r in (c.ensures or ()) if isinstance(r, str)):
        raise Unsupported(f'contract of {label} is used at a call site but declares no result shape')
    old_locs = dict(cfr.locs)
    cfr.locs['old!'] = _snapshot(old_locs)
    for gname in local_ghosts:
        cfr.locs[gname] = ctx.fresh(f'{label}!{gname}')  # final value of a callee-local counter: constrained by ensures only
    for name, src in (c.lets or {}).items():
        cfr.locs[name] = it.spec_eval(src, cfr)
    for k, r in enumerate(c.requires or ()):
        f = it.spec_eval(r, cfr)
        if not ctx.spec_mode:
            ctx.oblige(f'pre@{label}:{k}', 'pre', f, f'{label} requires {r}', getattr(node, 'lineno', 0))
    # raises: fork one path per declared exceptional case
    for k, case in enumerate(c.raise_cases()):
        cond = it.spec_eval(case['iff'], cfr) if case.get('iff') is not None else None
        may = it.spec_eval(case['when'], cfr) if case.get('when') is not None else None
        cls = it.registry.resolve_exc(case['exc'], c)
        if cond is not None:
            take = ctx.branch(cond)
        else:
            if may is not None and simp(may) is False:
                continue
            nd = ctx.fresh(f'raises!{label}!{k}', B)
            take = ctx.branch(z_and(nd, may) if may is not None else nd)
        if take:
            a = it.spec_eval(case['args'], cfr) if case.get('args') else VTuple(())
            eff = case.get('effect')
            if eff:
                eff(it, cfr, fr)
            raise Raise(VExc(cls, a.items if isinstance(a, VTuple) else (a,)))
    # frame: havoc declared fields
    for target in c.modifies or ():
        base, attr = target.split('.', 1)
        o = cfr.locs[base]
        if isinstance(o, VObj):
            o.fields[attr] = it.havoc_like(o.fields[attr], f'{label}.{target}')
    # result
    res = c.result_value(it, cfr) if c.result_value else None
    if res is None and c.result is not None:
        res = make_value(it, c.result, f'{label}!ret')
    cfr.locs['result'] = res
    if c.effect:
        c.effect(it, cfr, fr)
    try:
        for r in c.ensures or ():
            ctx.assume(it.spec_eval(r, cfr))
        if (c.ensures or c.effect) and not ctx.spec_mode and ctx.solver.check() == z3.unsat:
            raise Infeasible()
    except Infeasible:
        # vacuity guard: a callee contract that contradicts the call-site state would silently prune the path
        raise Unsupported(f'contract of {label} is contradictory at this call site (line {getattr(node, "lineno", "?")} of {fr.qualname})')
    return res


def apply_callee_spec(it, spec, dotted, args, kwargs, fr, node):
    """ad-hoc callee spec declared in the caller's contract `callees`"""
    if callable(spec):
        return spec(it, args, kwargs, fr, node)
    from .contract import Contract

    if isinstance(spec, Contract):
        names = spec.param_names or [f'a{i}' for i in range(len(args))]
        locs = {}
        for n, v in zip(names, args):
            locs[n] = v
        locs.update(kwargs)
        for n in names:
            locs.setdefault(n, None)
        return apply_spec_generic(it, spec, locs, fr, node, label=dotted)
    raise Unsupported(f'bad callee spec for {dotted}')


def _snapshot(v, memo=None):
    """deep copy of the mutable part of a value graph (objects, buffers, lists)"""
    if memo is None:
        memo = {}
    if isinstance(v, dict):
        return {k: _snapshot(x, memo) for k, x in v.items()}
    if isinstance(v, VObj):
        if id(v) in memo:
            return memo[id(v)]
        o = VObj.__new__(VObj)
        o.cls, o.name, o.ident = v.cls, v.name, v.ident
        o.fields = {}
        memo[id(v)] = o
        for k, x in v.fields.items():
            o.fields[k] = _snapshot(x, memo)
        return o
    if isinstance(v, VBuf):
        if id(v) in memo:
            return memo[id(v)]
        b = VBuf.__new__(VBuf)
        b.arr, b.length, b.ident = v.arr, v.length, v.ident
        memo[id(v)] = b
        return b
    if isinstance(v, VBytes):
        if any(isinstance(p.a, VBuf) for p in v.pieces):
            return VBytes([Piece(p.kind, _snapshot(p.a, memo) if isinstance(p.a, VBuf) else p.a, p.off, p.len) for p in v.pieces], v.kind)
        return v
    if isinstance(v, VList):
        if id(v) in memo:
            return memo[id(v)]
        l = VList([])
        memo[id(v)] = l
        l.items = [_snapshot(x, memo) for x in v.items]
        return l
    if isinstance(v, VTuple):
        return VTuple([_snapshot(x, memo) for x in v.items])
    if isinstance(v, VDict):
        d = VDict()
        d.items = [(k, _snapshot(x, memo)) for k, x in v.items]
        return d
    return v


# ---------------------------------------------------------------------------------------- parameter / value builders


def make_value(it, spec, name):
    """build a symbolic value from a parameter spec (see pyvc.contract)"""
    from .contract import PSpec

    ctx = it.ctx
    if not isinstance(spec, PSpec):
        return _wrap_const(spec)
    k = spec.kind
    if k == 'int':
        v = ctx.fresh(name)
        if spec.lo is not None:
            ctx.assume(v >= spec.lo)
        if spec.hi is not None:
            ctx.assume(v <= spec.hi)
        ctx.inputs[name] = ('int', v)
        return v
    if k == 'bool':
        v = ctx.fresh(name, B)
        ctx.inputs[name] = ('bool', v)
        return v
    if k == 'real':
        v = ctx.fresh(name, z3.RealSort())
        ctx.inputs[name] = ('real', v)
        return v
    if k == 'bytes':
        v = ctx.fresh_bytes(name, spec.bkind, spec.hi)
        if spec.lo:
            ctx.assume(to_z3(v.length()) >= spec.lo)
        ctx.inputs[name] = ('bytes', v)
        return v
    if k == 'str':
        v = VStr(ctx.fresh(name), name)
        ctx.inputs[name] = ('str', v.ident)
        return v
    if k == 'const':
        return _wrap_const(spec.value)
    if k == 'obj':
        cls = it.registry.resolve_class(spec.cls) if isinstance(spec.cls, str) else spec.cls
        o = VObj(cls, {}, name)
        for fname, fspec in spec.fields.items():
            o.fields[fname] = make_value(it, fspec, f'{name}.{fname}')
        return o
    if k == 'seq':
        ln = ctx.fresh(name + '!len')
        ctx.assume(ln >= 0)
        if spec.hi is not None:
            ctx.assume(ln <= spec.hi)
        ctx.inputs[name] = ('seqlen', ln)
        cache = {}

        def elem(i, _spec=spec.elem, _name=name):
            key = str(i)
            if key not in cache:
                cache[key] = make_elem(it, _spec, _name, i)
            return cache[key]

        return VSeq(ln, elem, name)
    if k == 'tuple':
        return VTuple([make_value(it, s, f'{name}.{i}') for i, s in enumerate(spec.elem)])
    if k == 'custom':
        return spec.value(it, name)
    raise Unsupported(f'param spec {k}')


def make_elem(it, spec, name, i):
    """element i of a symbolic sequence: scalars are uninterpreted functions of the index"""
    from .contract import PSpec

    k = spec.kind
    if k == 'int':
        f = z3.Function(f'{name}!at', I, I)
        v = f(to_z3(i))
        if spec.lo is not None:
            it.ctx.assume(v >= spec.lo)
        if spec.hi is not None:
            it.ctx.assume(v <= spec.hi)
        return v
    if k == 'bool':
        return z3.Function(f'{name}!at', I, B)(to_z3(i))
    if k == 'bytes':
        # a 2-d family of byte strings: array per index via function I -> Array
        fa = z3.Function(f'{name}!arr', I, ARR)
        fl = z3.Function(f'{name}!len', I, I)
        ln = fl(to_z3(i))
        it.ctx.assume(ln >= (spec.lo or 0))
        if spec.hi is not None:
            it.ctx.assume(ln <= spec.hi)
        arr = fa(to_z3(i))
        kk = z3.Int('k!b')
        sel = z3.Select(arr, kk)
        it.ctx.assume(z3.ForAll([kk], z3.And(sel >= 0, sel <= 255), patterns=[sel]))
        return VBytes.view(arr, 0, ln, spec.bkind)
    if k == 'obj':
        cls = it.registry.resolve_class(spec.cls) if isinstance(spec.cls, str) else spec.cls
        o = VObj(cls, {}, f'{name}[{i}]')
        for fname, fspec in spec.fields.items():
            o.fields[fname] = make_elem(it, fspec, f'{name}.{fname}', i)
        o.fields['id!'] = z3.Function(f'{name}!id', I, I)(to_z3(i))
        o.fields['idx!'] = i
        o.fields['seq!'] = name
        return o
    if k == 'const':
        return _wrap_const(spec.value)
    if k == 'tuple':
        return VTuple([make_elem(it, s_, f'{name}.{n}', i) for n, s_ in enumerate(spec.elem)])
    raise Unsupported(f'sequence element spec {k}')


def construct(it, cls, args, kwargs, fr, node, dotted):
    """instantiate a real repository class: run its real __init__ on a fresh record (if reachable)"""
    reg = it.registry
    init = None
    for k in cls.__mro__:
        if '__init__' in k.__dict__ or '__new__' in k.__dict__:
            init = k.__dict__.get('__init__')
            break
    if cls in reg.record_classes or (init is not None and reg.for_function(init) is not None):
        o = VObj(cls, {}, cls.__name__.lower())
        if init is not None and inspect.isfunction(init):
            call_real(it, init, [o] + list(args), kwargs, fr, node, dotted + '.__init__')
        return o
    if not _has_sym(args) and not _has_sym(list(kwargs.values())) and reg.is_pure_native(cls):
        return _wrap_const(cls(*[_to_py(a) for a in args], **{k: _to_py(v) for k, v in kwargs.items()}))
    raise Unsupported(f'no contract for constructor {dotted} at line {node.lineno} of {fr.qualname}')


# ---------------------------------------------------------------------------------------- builtins


def b_len(it, args, kwargs, fr, node):
    (v,) = args
    if isinstance(v, VIte):
        return lift(v, lambda x: b_len(it, [x], {}, fr, node))
    if isinstance(v, VBytes):
        return v.length()
    if isinstance(v, (VList, VTuple)):
        return len(v.items)
    if isinstance(v, VSeq):
        return v.length
    if isinstance(v, VDict):
        return len(v.items)
    if isinstance(v, VObj):
        if '__len__' in v.fields:
            return v.fields['__len__']
        if v.fields.get('opaque!'):
            ln = it.ctx.fresh(f'len({v.name})')
            it.ctx.assume(ln >= 0)
            v.fields['__len__'] = ln
            return ln
        if v.cls is not None and hasattr(v.cls, '__len__'):
            return call_real(it, v.cls.__len__, [v], {}, fr, node, 'len')
    if isinstance(v, (str, bytes, tuple, list, dict, set, frozenset)):
        return len(v)
    if isinstance(v, VStr):
        f = z3.Function('strlen', I, I)
        r = f(v.ident)
        it.ctx.assume(r >= 0)
        return r
    raise Unsupported(f'len of {type(v).__name__}')


def b_int(it, args, kwargs, fr, node):
    if not args:
        return 0
    v = args[0]
    if isinstance(v, VObj) and 'int!' in v.fields:
        return v.fields['int!']
    if isinstance(v, bool):
        return int(v)
    if isinstance(v, (int, float)):
        return int(v)
    if is_sym(v):
        if z3.is_bool(v):
            return z3.If(v, 1, 0)
        if z3.is_real(v):
            return simp(py_int_trunc(v))
        return v
    if isinstance(v, str) and not kwargs and len(args) == 1:
        try:
            return int(v)
        except ValueError:
            raise exc(ValueError, 'invalid literal for int()')
    if isinstance(v, VStr) and len(args) == 1:
        # int(tok): unconstrained integer, ValueError possible; a token made of digits only always converts, to >= 0
        ok = z3.Function('int_ok', I, B)(v.ident)
        it.ctx.assume(z3.Implies(z3.Function('str_isdigit', I, B)(v.ident), z3.And(ok, z3.Function('int_of', I, I)(v.ident) >= 0)))
        if not it.ctx.spec_mode and not it.ctx.branch(ok):
            raise exc(ValueError, 'invalid literal for int()')
        r = z3.Function('int_of', I, I)(v.ident)
        return r
    if isinstance(v, VStr) and len(args) == 2 and isinstance(args[1], int):
        # int(tok, base): its own uninterpreted conversion; refusal is ValueError
        ok = z3.Function(f'int{args[1]}_ok', I, B)(v.ident)
        if not it.ctx.spec_mode and not it.ctx.branch(ok):
            raise exc(ValueError, 'invalid literal for int() with base %d' % args[1])
        r = z3.Function(f'int{args[1]}_of', I, I)(v.ident)
        it.ctx.assume(r >= 0) if False else None
        return r
    if isinstance(v, VObj) and v.fields.get('opaque!') and it.sweep_mode():
        # int(x) of an unconstrained value: any integer; when the value comes from text (a piece of a token), or ValueError
        if v.fields.get('text!') and it.ctx.branch(it.ctx.fresh(f'int({v.name}) refuses', z3.BoolSort())):
            raise exc(ValueError, 'invalid literal for int()')
        return it.ctx.fresh(f'int({v.name})')
    raise Unsupported(f'int() of {type(v).__name__}')


def b_bool(it, args, kwargs, fr, node):
    return truthy(it.ctx, args[0]) if args else False


def b_bytes(it, args, kwargs, fr, node):
    ctx = it.ctx
    if not args:
        return VBytes([])
    v = args[0]
    if isinstance(v, VBytes):
        return VBytes(v.pieces, 'bytes')
    if isinstance(v, (VList, VTuple)):
        ps = []
        for x in v.items:
            if isinstance(x, bool):
                x = int(x)
            if isinstance(x, VObj) and 'int!' in x.fields:
                x = x.fields['int!']
            if isinstance(x, VObj) and x.fields.get('opaque!'):
                raise Unsupported('bytes([...]) of the unconstrained result of an assumed callee')
            if not is_int(x):
                raise exc(TypeError, 'bytes([non-int])')
            ok = simp(z_and(to_z3(x) >= 0, to_z3(x) <= 255))
            if not ctx.spec_mode and not ctx.branch(ok):
                raise exc(ValueError, 'bytes must be in range(0, 256)')
            ps.append(Piece('lit', bytes([x])) if isinstance(x, int) else Piece('byte', x))
        return VBytes(ps)
    if isinstance(v, int) and not isinstance(v, bool):
        return VBytes.lit(bytes(v))
    if is_sym(v) and z3.is_int(v):
        if not ctx.spec_mode and not ctx.branch(v >= 0):
            raise exc(ValueError, 'negative count')
        zero = z3.K(I, z3.IntVal(0))
        return VBytes.view(zero, 0, v)
    if isinstance(v, (str, VStr)) and len(args) > 1:
        if isinstance(v, str):
            try:
                return VBytes.lit(v.encode(args[1] if isinstance(args[1], str) else 'ascii'))
            except UnicodeEncodeError:
                raise exc(UnicodeEncodeError)
        ok = z3.Function('is_ascii', I, B)(v.ident)
        if not ctx.spec_mode and not ctx.branch(ok):
            raise Raise(VExc(UnicodeEncodeError, ()))
        return ctx.fresh_bytes('encoded')
    if isinstance(v, bytes):
        return VBytes.lit(v)
    if isinstance(v, VObj) and v.fields.get('opaque!'):
        return ctx.fresh_bytes(f'bytes({v.name})', 'bytes')
    raise Unsupported(f'bytes() of {type(v).__name__}')


def b_bytearray(it, args, kwargs, fr, node):
    ctx = it.ctx
    if not args:
        return VBytes([], 'bytearray')
    v = args[0]
    if is_int(v):
        if is_sym(v) and not ctx.spec_mode and not ctx.branch(v >= 0):
            raise exc(ValueError, 'negative count')
        buf = VBuf(z3.K(I, z3.IntVal(0)), v)
        return VBytes([Piece('view', buf, 0, v)], 'bytearray')
    r = b_bytes(it, args, kwargs, fr, node)
    return VBytes(r.pieces, 'bytearray')


def b_memoryview(it, args, kwargs, fr, node):
    v = args[0]
    if isinstance(v, VBytes):
        return VBytes(v.pieces, 'memoryview')
    if isinstance(v, bytes):
        return VBytes([Piece('lit', v)], 'memoryview')
    raise Unsupported('memoryview of non-bytes')


def b_isinstance(it, args, kwargs, fr, node):
    v, t = args
    classes = t.items if isinstance(t, VTuple) else (t if isinstance(t, tuple) else (t,))

    def one(c):
        if isinstance(v, VObj):
            if 'isinstance!' in v.fields:
                return v.fields['isinstance!'](c)
            return v.cls is not None and isinstance(c, type) and issubclass(v.cls, c)
        if isinstance(v, VSeq):
            return c is list or any(isinstance(k, type) and issubclass(k, c) for k in v.isinstance_of)
        if isinstance(v, VBytes):
            return c in (bytes, bytearray, memoryview) and (v.kind == c.__name__ or (c is bytes and v.kind == 'bytes'))
        if is_sym(v):
            if z3.is_bool(v):
                return c in (bool, int)
            if z3.is_int(v):
                return c is int
            return c is float
        if isinstance(v, VStr):
            return c is str
        if isinstance(v, VTuple):
            return c is tuple
        if isinstance(v, VList):
            return c is list
        if isinstance(v, VExc):
            return issubclass(v.cls, c)
        return isinstance(v, c)

    return simp(z_or(*[one(c) for c in classes]))


def b_range(it, args, kwargs, fr, node):
    if all(isinstance(a, int) for a in args):
        return range(*args)
    if len(args) == 1:
        n = args[0]
        return VSeq(simp(z3.If(to_z3(n) < 0, 0, to_z3(n))), lambda i: i, 'range')
    if len(args) == 2:
        a, b = args
        n = simp(to_z3(b) - to_z3(a))
        return VSeq(simp(z3.If(n < 0, 0, n)), lambda i, _a=a: simp(_a + i), 'range')
    raise Unsupported('symbolic range with step')


def b_minmax(which):
    def h(it, args, kwargs, fr, node):
        if len(args) == 1:
            args = it.iter_static(args[0])
        r = args[0]
        for x in args[1:]:
            if not is_sym(r) and not is_sym(x):
                r = min(r, x) if which == 'min' else max(r, x)
            else:
                c = (to_z3(x) < to_z3(r)) if which == 'min' else (to_z3(x) > to_z3(r))
                r = simp(z3.If(c, to_z3(x), to_z3(r)))
        return r

    return h


def b_unpack(it, args, kwargs, fr, node):
    fmt, data = args
    if not isinstance(fmt, str) or not isinstance(data, VBytes):
        raise Unsupported('unpack with non-constant format')
    f = fmt.lstrip('!><=')
    if fmt[0] not in '!>':
        raise Unsupported(f'unpack format {fmt}')
    sizes = []
    for ch in f:
        if ch not in _FMT:
            raise Unsupported(f'unpack format {fmt}')
        sizes.append((ch, _FMT[ch]))
    total = sum(s for _, s in sizes)
    n = data.length()
    ok = simp(to_z3(n) == total)
    if not it.ctx.spec_mode and not it.ctx.branch(ok):
        raise exc(_struct.error, 'unpack requires a buffer of the right size')
    out = []
    pos = 0
    for ch, sz in sizes:
        v = 0
        for j in range(sz):
            v = v * 256 + data.at(pos + j)
        if ch.islower():
            v = simp(z3.If(to_z3(v) >= (1 << (8 * sz - 1)), to_z3(v) - (1 << (8 * sz)), to_z3(v)))
        out.append(simp(v))
        pos += sz
    return VTuple(out)


def b_pack(it, args, kwargs, fr, node):
    fmt = args[0]
    vals = list(args[1:])
    if not isinstance(fmt, str) or fmt[0] not in '!>':
        raise Unsupported(f'pack format {fmt!r}')
    f = fmt[1:]
    if len(f) != len(vals) or any(ch not in _FMT or ch.islower() for ch in f):
        raise Unsupported(f'pack format {fmt!r}')
    ps = []
    for ch, v in zip(f, vals):
        sz = _FMT[ch]
        if isinstance(v, VObj) and 'int!' in v.fields:
            v = v.fields['int!']
        if isinstance(v, bool):
            v = int(v)
        if not is_int(v):
            raise exc(_struct.error, 'required argument is not an integer')
        if isinstance(v, int):
            try:
                ps.append(Piece('lit', _struct.pack('!' + ch, v)))
            except _struct.error:
                raise exc(_struct.error, 'out of range')
            continue
        ok = simp(z_and(v >= 0, v < (1 << (8 * sz))))
        if not it.ctx.spec_mode and not it.ctx.branch(ok):
            raise exc(_struct.error, 'argument out of range')
        for j in range(sz - 1, -1, -1):
            ps.append(Piece('byte', simp((to_z3(v) / (1 << (8 * j))) % 256) if j else simp(to_z3(v) % 256)))
    return VBytes(ps)


def b_from_bytes(it, args, kwargs, fr, node):
    data = args[0]
    order = args[1] if len(args) > 1 else kwargs.get('byteorder', 'big')
    if order != 'big' or not isinstance(data, VBytes):
        raise Unsupported('int.from_bytes non-big')
    n = data.length()
    if not isinstance(n, int):
        raise Unsupported('int.from_bytes of symbolic length')
    v = 0
    for j in range(n):
        v = v * 256 + data.at(j)
    return simp(v)


def b_ord(it, args, kwargs, fr, node):
    v = args[0]
    if isinstance(v, str):
        return ord(v)
    if isinstance(v, VBytes):
        n = v.length()
        if not it.ctx.spec_mode and not it.ctx.branch(simp(to_z3(n) == 1)):
            raise exc(TypeError, 'ord() expected a character')
        return v.at(0)
    raise Unsupported('ord')


def b_str(it, args, kwargs, fr, node):
    if not args:
        return ''
    v = args[0]
    if isinstance(v, (str, int)) and not isinstance(v, bool):
        return str(v)
    if isinstance(v, VStr):
        return v
    return VStr(it.ctx.fresh('str'), 'str()')


def b_tuple(it, args, kwargs, fr, node):
    return VTuple(it.iter_static(args[0])) if args else VTuple(())


def b_list(it, args, kwargs, fr, node):
    if not args:
        return VList([])
    if isinstance(args[0], VSeq):
        return args[0]
    return VList(it.iter_static(args[0]))


def b_dict(it, args, kwargs, fr, node):
    if args or kwargs:
        raise Unsupported('dict(...) with arguments')
    return VDict()


def b_hex(it, args, kwargs, fr, node):
    if isinstance(args[0], int):
        return hex(args[0])
    return VStr(it.ctx.fresh('hex'), 'hex')


def b_abs(it, args, kwargs, fr, node):
    v = args[0]
    if is_sym(v):
        return simp(z3.If(v >= 0, v, -v))
    return abs(v)


def b_time(it, args, kwargs, fr, node):
    """time.time(): ghost real clock `now`, non-decreasing between calls"""
    ctx = it.ctx
    prev = ctx.ghost.get('now')
    t = ctx.fresh('now', z3.RealSort())
    ctx.assume(t >= 0)
    if prev is not None:
        ctx.assume(t >= prev)
    else:
        ctx.inputs['now'] = ('real', t)
        ctx.ghost['now0'] = t
    ctx.ghost['now'] = t
    return t


def b_sorted(it, args, kwargs, fr, node):
    v = args[0]
    if isinstance(v, (VList, VTuple)) and len(v.items) <= 1:
        return VList(list(v.items))
    if isinstance(v, (tuple, list, set, frozenset, dict)) and not _has_sym(list(v)) and not kwargs:
        return VList(sorted(v))
    if isinstance(v, VSeq):
        # a permutation of v: modelled as v itself under a listed assumption (order-insensitive consumers only)
        it.ctx.notes.append('sorted(seq) treated as an arbitrary permutation of seq (consumer is order-insensitive)')
        return v
    raise Unsupported('sorted on symbolic static list')


def b_enumerate(it, args, kwargs, fr, node):
    v = args[0]
    start = args[1] if len(args) > 1 else kwargs.get('start', 0)
    if isinstance(v, VSeq):
        return VSeq(v.length, lambda i: VTuple([simp(start + i), v.elem(i)]), 'enumerate')
    return VList([VTuple([start + i, x]) for i, x in enumerate(it.iter_static(v))])


def b_zip(it, args, kwargs, fr, node):
    lists = [it.iter_static(a) for a in args]
    return VList([VTuple(t) for t in zip(*lists)])


def b_any_all(which):
    def h(it, args, kwargs, fr, node):
        if isinstance(args[0], VObj) and args[0].fields.get('opaque!'):
            return it.ctx.fresh(f'{which}({args[0].name})', z3.BoolSort())
        items = [truthy(it.ctx, x) for x in it.iter_static(args[0])]
        return simp(z_or(*items)) if which == 'any' else simp(z_and(*items))

    return h


def b_sum(it, args, kwargs, fr, node):
    t = args[1] if len(args) > 1 else 0
    if isinstance(args[0], VSeq) or (isinstance(args[0], VObj) and args[0].fields.get('opaque!')):
        # a sum over a sequence of symbolic length: an unconstrained integer (over-approximation, sound for safety)
        return it.ctx.fresh('sum')
    for x in it.iter_static(args[0]):
        t = simp(t + x)
    return t


def b_set(it, args, kwargs, fr, node):
    if not args and it.sweep_mode():
        # a set which the code goes on to fill: an unconstrained container (add() is a call without contract,
        # membership an unconstrained boolean) -- a tuple model would stay empty across a loop cut
        from .interp import opaque_like

        return opaque_like(it.ctx, 'set()')
    if not args:
        return VTuple(())
    v = args[0]
    if isinstance(v, (VList, VTuple)):
        return VTuple(v.items)
    if isinstance(v, VSeq):
        return v
    if isinstance(v, (list, tuple, set, frozenset)) or hasattr(v, 'keys'):
        return VTuple(list(v))
    raise Unsupported('set()')


def b_chr(it, args, kwargs, fr, node):
    v = args[0]
    if isinstance(v, int):
        try:
            return chr(v)
        except ValueError:
            raise exc(ValueError, 'chr() arg not in range')
    ok = simp(z_and(to_z3(v) >= 0, to_z3(v) < 0x110000))
    if not it.ctx.spec_mode and not it.ctx.branch(ok):
        raise exc(ValueError, 'chr() arg not in range')
    s = VStr(it.ctx.fresh('chr'), 'chr')
    s.code = v
    return s


BUILTIN_TYPES = {
    int: b_int,
    bool: b_bool,
    bytes: b_bytes,
    bytearray: b_bytearray,
    memoryview: b_memoryview,
    range: b_range,
    str: b_str,
    tuple: b_tuple,
    list: b_list,
    dict: b_dict,
    set: b_set,
    frozenset: b_set,
    enumerate: b_enumerate,
    zip: b_zip,
}

def b_getattr(it, args, kwargs, fr, node):
    """getattr(o, 'name'[, default]) with a constant name: the attribute; the default only when the object is known
    not to have it (a modelled object which lacks the field is out of reach, never silently defaulted)"""
    o, name = args[0], args[1]
    if not isinstance(name, str):
        raise Unsupported('getattr with a non-constant name')
    if isinstance(o, VObj) and name not in o.fields and o.cls is None and not o.fields.get('opaque!'):
        raise Unsupported(f'getattr({o.name!r}, {name!r}): the model of this object does not say whether it has the attribute')
    return it.getattr(o, name, fr, node)


BUILTIN_FUNCS = {
    ('builtins', 'getattr'): b_getattr,
    ('builtins', 'len'): b_len,
    ('builtins', 'isinstance'): b_isinstance,
    ('builtins', 'min'): b_minmax('min'),
    ('builtins', 'max'): b_minmax('max'),
    ('_struct', 'unpack'): b_unpack,
    ('_struct', 'pack'): b_pack,
    ('builtins', 'int.from_bytes'): b_from_bytes,
    ('builtins', 'ord'): b_ord,
    ('builtins', 'chr'): b_chr,
    ('builtins', 'hex'): b_hex,
    ('builtins', 'abs'): b_abs,
    ('time', 'time'): b_time,
    ('builtins', 'sorted'): b_sorted,
    ('builtins', 'any'): b_any_all('any'),
    ('builtins', 'all'): b_any_all('all'),
    ('builtins', 'sum'): b_sum,
}


# ---------------------------------------------------------------------------------------- methods of builtin values


def call_method_builtin(it, recv, name, args, kwargs, fr, node):
    ctx = it.ctx
    if recv is int and name == 'from_bytes':
        return b_from_bytes(it, args, kwargs, fr, node)
    if recv is bytes and name == 'fromhex' and isinstance(args[0], str):
        return VBytes.lit(bytes.fromhex(args[0]))
    if recv is dict and name == 'fromkeys':
        raise Unsupported('dict.fromkeys')
    if isinstance(recv, VBytes) and recv.kind == 'str':
        r = text_method(it, recv, name, args, kwargs, fr, node)
        if r is not NotImplemented:
            return r
    if isinstance(recv, VBytes):
        if name == 'tobytes':
            return VBytes(recv.pieces, 'bytes')
        if name == 'join' and isinstance(args[0], VObj) and args[0].fields.get('opaque!'):
            # join of an unconstrained list (one the loop cut havocked): some bytes
            return ctx.fresh_bytes('joined', 'bytes')
        if name == 'join' and it.sweep_mode() and isinstance(args[0], (VList, VTuple)) and any(isinstance(x, VObj) and x.fields.get('opaque!') for x in args[0].items):
            return ctx.fresh_bytes('joined', 'bytes')
        if name == 'join':
            out = VBytes([])
            items = it.iter_static(args[0])
            for k, x in enumerate(items):
                if k:
                    out = out.concat(recv)
                out = out.concat(x)
            return out
        if name == 'hex':
            return VStr(ctx.fresh('hex'), 'hex')
        if name == 'startswith' and isinstance(args[0], VBytes):
            p = args[0]
            n = p.length()
            return simp(z_and(to_z3(recv.length()) >= to_z3(n), bytes_eq(recv.slice(0, n) if True else recv, p)))
        if name == 'decode':
            return VStr(ctx.fresh('decoded'), 'decoded')
        if name == 'release':
            return None
    if isinstance(recv, VList):
        if name == 'append':
            recv.items.append(args[0])
            return None
        if name == 'extend':
            if it.sweep_mode() and isinstance(args[0], VObj) and args[0].fields.get('opaque!'):
                recv.items.append(args[0])  # some unconstrained elements: kept as one unconstrained marker
                return None
            recv.items.extend(it.iter_static(args[0]))
            return None
        if name == 'pop':
            if not recv.items:
                raise exc(IndexError, 'pop from empty list')
            return recv.items.pop(args[0] if args else -1)
        if name == 'insert' and isinstance(args[0], int):
            recv.items.insert(args[0], args[1])
            return None
        if name == 'sort' and len(recv.items) <= 1:
            return None
        if name == 'copy':
            return VList(list(recv.items))
        if name == 'index':
            for k, x in enumerate(recv.items):
                if ctx.branch(it.equals(x, args[0], node)):
                    return k
            raise exc(ValueError, 'not in list')
    if isinstance(recv, VDict):
        if name == 'get':
            return recv.get(it, args[0], args[1] if len(args) > 1 else None)
        if name == 'setdefault':
            idx = recv._find(it, args[0])
            if idx is None:
                recv.items.append((args[0], args[1] if len(args) > 1 else None))
                return recv.items[-1][1]
            return recv.items[idx][1]
        if name == 'keys':
            return VList([k for k, _ in recv.items])
        if name == 'values':
            return VList([v for _, v in recv.items])
        if name == 'items':
            return VList([VTuple([k, v]) for k, v in recv.items])
        if name == 'pop':
            idx = recv._find(it, args[0])
            if idx is None:
                if len(args) > 1:
                    return args[1]
                raise exc(KeyError, args[0])
            return recv.items.pop(idx)[1]
        if name == 'clear':
            recv.items.clear()
            return None
    if isinstance(recv, dict):
        if name == 'get':
            return it.concrete_dict_get(recv, args[0], args[1] if len(args) > 1 else None, False)
        if name in ('keys', 'values', 'items') and not args:
            return VList([_wrap_const(x) if name != 'items' else VTuple([_wrap_const(x[0]), _wrap_const(x[1])]) for x in getattr(recv, name)()])
    if isinstance(recv, (str, VStr)):
        if isinstance(recv, str) and not _has_sym(args) and not any(isinstance(a, VStr) for a in args):
            try:
                r = getattr(recv, name)(*[_to_py(a) for a in args], **kwargs)
            except Exception as e:  # noqa
                raise exc(type(e))
            if isinstance(r, list):
                return VList(r)
            if isinstance(r, tuple):
                return VTuple(r)
            if isinstance(r, bytes):
                return VBytes.lit(r)
            return r
        if name == 'find' and len(args) == 1 and isinstance(args[0], str) and isinstance(recv, VStr):
            pos = z3.Function('str_find:' + args[0], I, I)(recv.ident)
            ctx.assume(pos >= -1)
            return pos
        if name in ('isdigit', 'isalnum', 'isalpha', 'startswith', 'endswith', 'isprintable', 'isascii'):
            key = name + ''.join(':' + a for a in args if isinstance(a, str))
            ident = recv.ident if isinstance(recv, VStr) else _str_id(recv)
            return z3.Function('str_' + key, I, B)(ident)
        if name in ('lower', 'upper', 'strip', 'rstrip', 'lstrip', 'format', 'join', 'replace', 'encode', 'decode', 'title'):
            if name == 'encode':
                return b_bytes(it, [recv, args[0] if args else 'utf-8'], {}, fr, node)
            key = name + ''.join(':' + a for a in args if isinstance(a, str))
            ident = recv.ident if isinstance(recv, VStr) else _str_id(recv)
            if name in ('format', 'join'):
                return VStr(ctx.fresh('str'), name)
            return VStr(z3.Function('str_' + key, I, I)(ident), name)
    if isinstance(recv, (VStr, str)) and it.sweep_mode():
        # a string method without a model (split, partition, count, ...): an unconstrained value
        from .interp import opaque_like

        r = opaque_like(ctx, f'str.{name}()')
        r.fields['text!'] = True
        return r
    raise Unsupported(f'method {name} on {type(recv).__name__} at line {node.lineno} of {fr.qualname}')


def text_method(it, recv, name, args, kwargs, fr, node):
    """methods of text modelled as a view of code points (single window of one buffer)"""
    ctx = it.ctx
    if len(recv.pieces) > 1 or (recv.pieces and recv.pieces[0].kind != 'view'):
        return NotImplemented
    if name == 'split' and len(args) == 2 and isinstance(args[0], str) and len(args[0]) == 1 and args[1] == 1:
        # s.split(c, 1): cut at the FIRST occurrence of c (when there is none the whole text is the only element)
        code = ord(args[0])
        n = recv.length()
        has = it.contains(recv, args[0], node)
        if not ctx.spec_mode and not ctx.branch(has):
            return VList([recv])
        p = recv.pieces[0]
        q = ctx.fresh('split!at')
        k = z3.Int('k!sp')
        ctx.assume(z3.And(q >= 0, q < to_z3(n), z3.Select(p.arr(), to_z3(p.off) + q) == code))
        # stated over ABSOLUTE positions of the buffer, the form every other clause about this text uses: with relative
        # positions the solver has to find a shifted instantiation and the verdict was unstable (proved / unknown)
        ctx.assume(z3.ForAll([k], z3.Implies(z3.And(k >= to_z3(p.off), k < to_z3(p.off) + q), z3.Select(p.arr(), k) != code)))
        head = VBytes([Piece('view', p.a, p.off, q)], 'str')
        tail = VBytes([Piece('view', p.a, simp(p.off + q + 1), simp(n - q - 1))], 'str')
        ctx.ghost['last_split'] = (head, tail, recv)
        return VList([head, tail])
    if name in ('rstrip', 'strip', 'lstrip') and not args:
        # whitespace stripping keeps a sub-window of the same text; which characters go is not modelled
        if not recv.pieces:
            return recv
        p = recv.pieces[0]
        cut_l = ctx.fresh('strip!l') if name != 'rstrip' else 0
        cut_r = ctx.fresh('strip!r') if name != 'lstrip' else 0
        ctx.assume(z_and(to_z3(cut_l) >= 0, to_z3(cut_r) >= 0, to_z3(cut_l) + to_z3(cut_r) <= to_z3(p.len)))
        out = VBytes([Piece('view', p.a, simp(p.off + cut_l), simp(p.len - cut_l - cut_r))], 'str')
        out.stripped_from = recv
        return out
    if name == 'startswith' and len(args) == 1 and isinstance(args[0], str) and all(ord(c) < 256 for c in args[0]):
        pre = args[0]
        n = recv.length()
        return simp(z_and(to_z3(n) >= len(pre), *[to_z3(recv.at(i)) == ord(c) for i, c in enumerate(pre)]))
    return NotImplemented


# ---------------------------------------------------------------------------------------- spec forms (contract language)


def sf_old(it, e, fr):
    snap = fr.lookup('old!')
    ofr = Frame(fr.globs, dict(snap), None, fr.contract, fr.module, fr.qualname)
    # lets / ghost names stay visible
    for k, v in fr.locs.items():
        if k not in ofr.locs:
            ofr.locs[k] = v
    return it.eval(e.args[0], ofr)


def sf_implies(it, e, fr):
    a = truthy(it.ctx, it.eval(e.args[0], fr))
    if a is False:
        return True
    b = truthy(it.ctx, it.eval(e.args[1], fr))
    return simp(z_implies(a, b))


def sf_iff(it, e, fr):
    a = truthy(it.ctx, it.eval(e.args[0], fr))
    b = truthy(it.ctx, it.eval(e.args[1], fr))
    return simp(to_z3(a) == to_z3(b))


def _quant(kind):
    def h(it, e, fr):
        lam = e.args[0]
        if not isinstance(lam, ast.Lambda):
            raise Unsupported('forall needs a lambda')
        names = [a.arg for a in lam.args.args]
        bound = [z3.Int(f'{n}!q{it.ctx.counter.setdefault("q", 0)}') for n in names]
        it.ctx.counter['q'] += 1
        sub = Frame(fr.globs, dict(fr.locs), fr.parent, fr.contract, fr.module, fr.qualname)
        for n, b in zip(names, bound):
            sub.locs[n] = b
        guards = []
        if len(e.args) >= 3:
            lo = it.eval(e.args[1], fr)
            hi = it.eval(e.args[2], fr)
            guards = [bound[0] >= to_z3(lo), bound[0] < to_z3(hi)]
            if isinstance(lo, int) and isinstance(hi, int) and hi - lo <= 32 and len(bound) == 1:
                outs = []
                for k in range(lo, hi):
                    sub.locs[names[0]] = k
                    outs.append(truthy(it.ctx, it.eval(lam.body, sub)))
                return simp(z_and(*outs) if kind == 'forall' else z_or(*outs))
        body = to_z3(truthy(it.ctx, it.eval(lam.body, sub)))
        if kind == 'forall':
            return z3.ForAll(bound, z3.Implies(z3.And(*guards), body) if guards else body)
        return z3.Exists(bound, z3.And(*(guards + [body])))

    return h


def sf_ite(it, e, fr):
    c = truthy(it.ctx, it.eval(e.args[0], fr))
    return z_ite(c, it.eval(e.args[1], fr), it.eval(e.args[2], fr))


def sf_isexc(it, e, fr):
    raise Unsupported('isexc')


def sf_voff(it, e, fr):
    v = it.eval(e.args[0], fr)
    if isinstance(v, VBytes) and not v.pieces:
        return 0
    if not isinstance(v, VBytes) or len(v.pieces) != 1 or v.pieces[0].kind != 'view':
        raise Unsupported('voff() of a value that is not a single view')
    return v.pieces[0].off


def sf_vbefore(it, e, fr):
    """the byte stored just before a view in its underlying buffer"""
    v = it.eval(e.args[0], fr)
    if not isinstance(v, VBytes) or len(v.pieces) != 1 or v.pieces[0].kind != 'view':
        raise Unsupported('vbefore() of a value that is not a single view')
    p = v.pieces[0]
    return simp(z3.Select(p.arr(), to_z3(p.off) - 1))


def sf_sameview(it, e, fr):
    from .interp import subview_formula

    return subview_formula(it.eval(e.args[0], fr), it.eval(e.args[1], fr))


def sf_final(it, e, fr):
    cur = fr.lookup('final!')
    ffr = Frame(fr.globs, dict(cur), None, fr.contract, fr.module, fr.qualname)
    for k, v in fr.locs.items():
        if k not in ffr.locs:
            ffr.locs[k] = v
    return it.eval(e.args[0], ffr)


SPEC_FORMS = {
    'final': sf_final,
    'voff': sf_voff,
    'vbefore': sf_vbefore,
    'subview': sf_sameview,
    'old': sf_old,
    'implies': sf_implies,
    'iff': sf_iff,
    'forall': _quant('forall'),
    'exists': _quant('exists'),
    'ite': sf_ite,
}
