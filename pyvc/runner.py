"""pyvc.runner — `./check <Cnn> [--tier quick|thorough] [--replay file]`

exit 0: every gated obligation discharged, bounded stand-ins found nothing (known findings are printed and tolerated)
exit 1: at least one `VIOLATION property=<id> replay=<path>` line
exit 2: undecided only (solver unknown / target not extractable / out of reach)
exit 3: checker crash or an engine-soundness canary survived
"""

from __future__ import annotations

import argparse
import json
import multiprocessing as mp
import os
import sys
import time
import traceback

os.environ.setdefault('exabgp_log_enable', 'false')

ROOT = os.path.dirname(os.path.dirname(os.path.abspath(__file__)))
sys.path.insert(0, ROOT)

ASSUMED_SEMANTICS = [
    'Python int = mathematical Int (exact); bool/None singletons; dict iteration order = insertion order',
    'bytes/bytearray/memoryview modelled as (array, offset, length) views with 0<=byte<=255; no sequence theory',
    'bit operations with a constant operand encoded exactly as div/mod; both-symbolic bit ops as 72-bit vectors under a proved 64-bit range side obligation',
    'float values (time.time(), /) treated as reals; int(x) = truncation',
    'logger calls (log.*) and lazy message builders are dropped from the verified text: assumed pure and total',
    'type annotations, docstrings, local imports are dropped; instrumentation context managers are dropped with their body kept',
    'no interference at `await` (single-task projection) unless the contract says otherwise',
    'module/class constants are read from the live imported module of the current tree and assumed immutable after import',
]


def _load():
    import contracts.all  # noqa: F401  (registers every contract)
    import bounded.all  # noqa: F401
    from contracts.common import REG

    return REG


def _work(args):
    """one pool task: the base verification of a function (canary is None) or one in-memory mutation canary"""
    key, tier, canary = args
    try:
        from pyvc.verify import verify_function

        REG = _load()
        c = REG.contracts[key]
        if canary is None:
            rep = verify_function(REG, c, tier)
            return {
                'key': list(key),
                'paths': rep.paths,
                'out_of_reach': rep.out_of_reach,
                'outcomes': rep.outcomes,
                'clauses': list(rep.clauses().values()),
                'vcs': len(rep.obligations),
                'notes': rep.notes + list(c.notes) + ([f'callees without contract, results unconstrained and ASSUMED to raise nothing outside the allowed set: {", ".join(sorted(rep.assumed_calls))}'] if rep.assumed_calls else []),
                'wall': rep.wall,
                'drops': drop_report(REG, c),
            }
        # engine-soundness canary: an in-memory mutation of the extracted source segment must be refuted
        old, new = c.canaries[canary]
        seg = REG.segment(*key)
        if seg.count(old) < 1:
            return {'key': list(key), 'canary': canary, 'edit': [old, new], 'result': 'not-applicable (text not present in the current tree)'}
        REG.source_override[key] = seg.replace(old, new, 1)
        try:
            r2 = verify_function(REG, c, 'quick')
        finally:
            del REG.source_override[key]
        killed = [cl['clause'] for cl in r2.clauses().values() if cl['status'] == 'refuted']
        res = 'killed' if killed else ('out-of-reach' if r2.out_of_reach else 'SURVIVED')
        return {'key': list(key), 'canary': canary, 'edit': [old, new], 'result': res, 'by': killed[:4], 'note': r2.out_of_reach}
    except Exception:
        return {'key': list(key), 'canary': canary, 'crash': traceback.format_exc()}


def drop_report(REG, c):
    import ast

    try:
        node = REG.node_for(c)
    except Exception:
        return {}
    logs = ann = 0
    for n in ast.walk(node):
        if isinstance(n, ast.Expr) and isinstance(n.value, ast.Call):
            try:
                if ast.unparse(n.value.func).startswith('log.'):
                    logs += 1
            except Exception:
                pass
        if isinstance(n, ast.arg) and n.annotation is not None:
            ann += 1
        if isinstance(n, ast.AnnAssign):
            ann += 1
    doc = 1 if ast.get_docstring(node) else 0
    return {'log_calls_dropped': logs, 'annotations_dropped': ann, 'docstring_dropped': doc, 'lines': (node.end_lineno - node.lineno + 1)}


def _in_region(finding, failure):
    """does this failing input belong to the recorded finding?  A finding names a committed region predicate
    (bounded.registry.REGIONS) and/or a literal substring; a failure outside it is a new VIOLATION."""
    from bounded.registry import REGIONS

    if finding.get('region'):
        fn = REGIONS.get(finding['region'])
        if fn is None:
            return False
        try:
            if not fn(failure):
                return False
        except Exception:
            return False
    if finding.get('match') is not None and finding['match'] not in json.dumps(failure, default=str):
        return False
    return bool(finding.get('region') or finding.get('match') is not None)


def load_known():
    p = os.path.join(ROOT, 'known_findings.json')
    if not os.path.exists(p):
        return {'findings': [], 'fixed': []}
    with open(p) as f:
        return json.load(f)


def finding_matches(f, pid, key, clause, replay):
    if f.get('property') != pid:
        return False
    # a finding recorded for a bounded check (or one that names no function) says nothing about a refuted clause:
    # it must never silence the deductive part
    if f.get('bounded') or not f.get('function'):
        return False
    if f['function'] != f'{key[0]}:{key[1]}':
        return False
    if f.get('clause') and f['clause'] != clause:
        return False
    return True


def main(argv=None):
    ap = argparse.ArgumentParser()
    ap.add_argument('pid')
    ap.add_argument('--tier', default=os.environ.get('VERIF_TIER', 'quick'))
    ap.add_argument('--replay')
    ap.add_argument('--jobs', type=int, default=int(os.environ.get('PYVC_JOBS', '16')))
    ap.add_argument('--only', default='')
    a = ap.parse_args(argv)
    pid = a.pid
    tier = a.tier if a.tier in ('quick', 'thorough') else 'quick'
    seed = int(os.environ.get('VERIF_SEED', '0') or 0)
    t0 = time.time()
    try:
        REG = _load()
    except Exception:
        traceback.print_exc()
        print(f'CHECKER-CRASH property={pid} while loading contracts')
        return 3
    if a.replay:
        return do_replay(REG, pid, a.replay)
    from bounded.registry import BOUNDED

    keys = [k for k, c in REG.contracts.items() if pid in c.props and (a.only in c.qualname)]
    keys.sort()
    results = []
    if keys:
        tasks = []
        for k in keys:
            tasks.append((k, tier, None))
            ncan = len(REG.contracts[k].canaries)
            if tier != 'thorough' and os.environ.get('PYVC_ALL_CANARIES') != '1':
                ncan = min(ncan, 1)
            for j in range(ncan):
                tasks.append((k, tier, j))
        # longest first: functions with many paths dominate the wall time
        with mp.get_context('fork').Pool(min(a.jobs, len(tasks))) as pool:
            raw = pool.map(_work, tasks, chunksize=1)
        by_key = {}
        for r in raw:
            if r.get('canary') is None:
                r['canaries'] = []
                by_key[tuple(r['key'])] = r
        for r in raw:
            if r.get('canary') is not None:
                base = by_key.get(tuple(r['key']))
                if base is None or 'crash' in base:
                    continue
                if 'crash' in r:
                    base['crash'] = r['crash']
                    continue
                base_ok = base['out_of_reach'] is None and all(cl['status'] == 'proved' for cl in base['clauses'])
                if base_ok:
                    base['canaries'].append({k_: v for k_, v in r.items() if k_ not in ('key', 'canary')})
        results = [by_key[k] for k in keys if k in by_key]
    # ------------------------------------------------------------------ aggregate deductive part
    known = load_known()
    violations, known_lines, undecided, crashes, unsound = [], [], [], [], []
    n_vc = n_clause = n_discharged = 0
    backends = {}
    solver_ms = 0.0
    samples = []
    functions = []
    trusted = set()
    from pyvc.replay import auto_replay, write_replay

    for r in results:
        key = tuple(r['key'])
        if 'crash' in r:
            crashes.append((key, r['crash']))
            continue
        c = REG.contracts[key]
        fn_label = f'{key[0]}:{key[1]}'
        functions.append({'function': fn_label, 'paths': r['paths'], 'clauses': len(r['clauses']), 'vcs': r['vcs'], 'wall_s': round(r['wall'], 3), 'extraction_drops': r['drops'], 'outcomes': r['outcomes'], 'canaries': r['canaries']})
        if r['out_of_reach']:
            undecided.append((fn_label, 'out-of-reach: ' + r['out_of_reach']))
        for n in r['notes']:
            trusted.add(f'{fn_label}: {n}')
        for callee, spec in c.callees.items():
            if spec == 'drop':
                trusted.add(f'{fn_label}: callee `{callee}` dropped (assumed pure, total, effect-free)')
            elif callable(spec) or hasattr(spec, 'ensures'):
                trusted.add(f'{fn_label}: callee `{callee}` by assumed contract (not proved here)')
        for req in c.requires:
            if isinstance(req, str):
                trusted.add(f'{fn_label}: requires {req}')
        for cl in r['clauses']:
            n_clause += 1
            n_vc += cl['n']
            solver_ms += cl['ms']
            for b in cl['backends']:
                backends[b] = backends.get(b, 0) + 1
            if cl['status'] == 'proved':
                n_discharged += 1
                if len(samples) < 6 and cl['kind'] != 'cover':
                    samples.append({'function': fn_label, 'clause': cl['clause'], 'kind': cl['kind'], 'text': cl['text'], 'paths': cl['n'], 'backends': cl['backends']})
                continue
            if cl['status'] == 'undecided':
                undecided.append((fn_label, f'{cl["clause"]} undecided ({cl["backends"]})'))
                continue
            if cl['kind'] == 'cover':
                undecided.append((fn_label, f'{cl["clause"]} not reachable: {cl["text"]} (vacuity guard)'))
                continue
            # refuted
            model = cl['models'][0] if cl['models'] else None
            rp = None
            if model is not None:
                try:
                    rp = c.replay(REG, c, model, cl['clause']) if c.replay else auto_replay(REG, c, model, cl['clause'])
                except Exception:
                    rp = {'error': traceback.format_exc()[-800:], 'confirmed': False}
            data = {'property': pid, 'function': fn_label, 'clause': cl['clause'], 'kind': cl['kind'], 'text': cl['text'], 'model': model, 'replay': rp, 'solver_output': cl.get('solver_output')}
            kf = [f for f in known['findings'] if finding_matches(f, pid, key, cl['clause'], rp)]
            if kf:
                known_lines.append(f'KNOWN-FINDING: property={pid} {kf[0]["what"]}')
                continue
            safe = cl['clause'].replace(':', '_').replace('/', '_')
            path = os.path.join(ROOT, 'replays', f'{pid}-{key[1].replace(".", "_")}-{safe}.json')
            write_replay(path, data)
            confirmed = bool(rp and rp.get('confirmed'))
            violations.append((path, confirmed, fn_label, cl['clause']))
        for cn in r['canaries']:
            if cn['result'] == 'SURVIVED':
                unsound.append((fn_label, cn['edit']))
            elif cn['result'] != 'killed':
                # neither killed nor survived: the mutated text is gone from the tree, or the mutant left the engine's
                # reach -- no evidence either way, said aloud (one such canary sat silent in C17 for most of the build)
                print(f'CANARY-IDLE property={pid} {fn_label}: {cn["result"]} {cn.get("note") or ""}'[:260])
    # ------------------------------------------------------------------ bounded stand-ins
    bounded_out = []
    for (bpid, name), fn in sorted(BOUNDED.items()):
        if bpid != pid or (a.only and a.only not in name):
            continue
        tb = time.time()
        try:
            res = fn(tier, seed)
        except Exception:
            crashes.append((name, traceback.format_exc()))
            continue
        res['name'] = name
        res['wall_s'] = round(time.time() - tb, 2)
        fails = res.pop('failures', [])
        res['failures'] = len(fails)
        bounded_out.append(res)
        shown = 0
        for k, fl in enumerate(fails):
            kf = [f for f in known['findings'] if f.get('property') == pid and f.get('bounded') == name and _in_region(f, fl)]
            if kf:
                known_lines.append(f'KNOWN-FINDING: property={pid} {kf[0]["what"]}')
                continue
            if shown >= 5:
                continue
            shown += 1
            path = os.path.join(ROOT, 'replays', f'{pid}-bounded-{name}-{k}.json')
            write_replay(path, {'property': pid, 'bounded': name, 'failure': fl})
            violations.append((path, True, f'bounded:{name}', fl.get('what', '')))
    # ------------------------------------------------------------------ harness canaries (soundness of the bounded layer)
    from bounded.registry import HARNESS_CANARIES

    hc_results = []
    for (hpid, hname), fn in sorted(HARNESS_CANARIES.items()):
        if hpid != pid or a.only:
            continue
        try:
            res = fn()
        except Exception:
            crashes.append((f'harness-canary:{hname}', traceback.format_exc()))
            continue
        if res is None:
            # the text / object the canary edits is not in the current tree: it says nothing either way
            hc_results.append({'canary': hname, 'result': 'not-applicable (what it edits is not present in the current tree)'})
            continue
        caught = bool(res)
        hc_results.append({'canary': hname, 'result': 'caught' if caught else 'SURVIVED'})
        if not caught:
            unsound.append((f'bounded harness of {pid}', [hname, 'injected wrong behaviour was not reported']))
    # ------------------------------------------------------------------ verdict + evidence
    for line in sorted(set(known_lines)):
        print(line)
    for path, confirmed, fn_label, clause in violations:
        print(f'VIOLATION property={pid} replay={path}' + ('' if confirmed else ' no-failing-input-found'))
        print(f'  obligation {clause} of {fn_label}', file=sys.stderr)
    for fn_label, why in undecided:
        print(f'UNDECIDED property={pid} {fn_label}: {why}')
    for key, tb in crashes:
        print(f'CHECKER-CRASH property={pid} {key}\n{tb}')
    for fn_label, edit in unsound:
        print(f'ENGINE-UNSOUND property={pid} {fn_label}: canary {edit} survived')
    reported = len(violations) + len(undecided) + len(known_lines) + len(crashes)
    if n_discharged < n_clause and not reported:
        # every clause that is not discharged must surface as a violation, an undecided line or a known finding
        print(f'CHECKER-CRASH property={pid}: {n_clause - n_discharged} clause(s) neither discharged nor reported')
        crashes.append(('accounting', 'undischarged clause not reported'))
    if not keys and not bounded_out:
        print(f'CHECKER-CRASH property={pid}: zero obligations generated')
        crashes.append(('none', 'zero obligations'))
    level = LEVELS.get(pid, 'proof')
    cov = {
        'obligations': n_clause,
        'discharged': n_discharged,
        'verification_conditions': n_vc,
        'checker_cmd': f'./check {pid} --tier {tier}',
        'trusted_base': sorted(trusted),
        'backends': backends,
        'solver_ms': round(solver_ms, 1),
        'functions_under_contract': functions,
        'samples': samples or [b.get('samples', [None])[0] for b in bounded_out][:3],
        'canaries': {'run': sum(len(f['canaries']) for f in functions), 'killed': sum(1 for f in functions for cn in f['canaries'] if cn['result'] == 'killed'), 'idle': sum(1 for f in functions for cn in f['canaries'] if cn['result'] not in ('killed', 'SURVIVED'))},
        'undecided': [f'{a_}: {b_}' for a_, b_ in undecided],
        'known_findings_reported': sorted(set(known_lines)),
    }
    be = sum(b.get('evaluations', 0) for b in bounded_out)
    bd = sum(b.get('distinct_nontrivial', 0) for b in bounded_out)
    cov['bounded_checks'] = bounded_out
    cov['bounded_harness_canaries'] = hc_results
    cov['bounded_evaluations'] = be
    cov['bounded_distinct_nontrivial'] = bd
    if level != 'proof' or n_clause == 0:
        cov['evaluations'] = be
        cov['distinct_nontrivial'] = bd
        cov['rule'] = '; '.join(b.get('rule', b['name']) for b in bounded_out)
        if n_clause == 0:
            for k in ('obligations', 'discharged'):
                cov.pop(k)
    ev = {
        'property_id': pid,
        'tier': tier,
        'seed': seed,
        'level': level if n_clause else ('exploration' if level == 'proof' else level),
        'coverage': cov,
        'assumptions': ASSUMED_SEMANTICS + NOT_DECIDED.get(pid, []),
        'wall_s': round(time.time() - t0, 2),
        'violations': len(violations),
    }
    os.makedirs(os.path.join(ROOT, 'evidence'), exist_ok=True)
    os.makedirs(os.path.join(ROOT, '.tmp'), exist_ok=True)
    # a partial run (--only) must never replace the record of the full check
    with open(os.path.join(ROOT, '.tmp' if a.only else 'evidence', f'{pid}.json'), 'w') as f:
        json.dump(ev, f, indent=1, default=str)
    print(f'{pid} tier={tier}: functions={len(functions)} clauses={n_clause} discharged={n_discharged} vcs={n_vc} bounded_evals={be} violations={len(violations)} undecided={len(undecided)} wall={ev["wall_s"]}s')
    if violations:
        return 1
    if crashes or unsound:
        return 3
    if undecided:
        return 2
    return 0


def do_replay(REG, pid, path):
    from pyvc.replay import auto_replay

    with open(path) as f:
        data = json.load(f)
    if 'bounded' in data:
        from bounded.registry import REPLAYERS

        fn = REPLAYERS.get((pid, data['bounded']))
        if fn is None:
            print('no replayer for this bounded check; failure record:', json.dumps(data['failure'])[:2000])
            return 2
        ok = fn(data['failure'])
        print('replay: still failing' if not ok else 'replay: passes now')
        return 1 if not ok else 0
    file, qual = data['function'].split(':')
    c = REG.contracts[(file, qual)]
    if data.get('model') is None:
        print('no model in replay file; solver output:', data.get('solver_output'))
        return 2
    rp = c.replay(REG, c, data['model'], data['clause']) if c.replay else auto_replay(REG, c, data['model'], data['clause'])
    print(json.dumps(rp, indent=1, default=str))
    return 1 if rp.get('confirmed') else 0


LEVELS = {}
NOT_DECIDED = {}

try:
    from contracts.levels import LEVELS as _L, NOT_DECIDED as _N

    LEVELS.update(_L)
    NOT_DECIDED.update(_N)
except Exception:  # pragma: no cover
    pass

if __name__ == '__main__':
    sys.exit(main())
