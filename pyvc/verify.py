"""pyvc.verify — verification of one function against its contract: path exploration, obligations, solving, models."""

from __future__ import annotations

import os
import subprocess
import tempfile
import time

import z3

from .values import *  # noqa: F401,F403
from .interp import Ctx, Interp, Frame, Raise, PathCut, Infeasible, Unsupported, _Return, Obligation, _has_sym, truthy
from .calls import make_value, _snapshot, bind_args
from .contract import Contract

Z3_TIMEOUT_MS = int(os.environ.get('PYVC_Z3_MS', '10000'))
CVC5_TIMEOUT_MS = int(os.environ.get('PYVC_CVC5_MS', '20000'))
MAX_PATHS = int(os.environ.get('PYVC_MAX_PATHS', '4000'))


class FunctionReport:
    def __init__(self, c):
        self.key = c.key
        self.props = c.props
        self.paths = 0
        self.obligations = []  # (clause, kind, status, backend, ms, text, model, line)
        self.out_of_reach = None
        self.notes = []
        self.wall = 0.0
        self.outcomes = {}
        self.drops = []
        self.assumed_calls = set()

    def clauses(self):
        """clause-level aggregation over paths"""
        agg = {}
        for ob in self.obligations:
            a = agg.setdefault(ob['clause'], {'clause': ob['clause'], 'kind': ob['kind'], 'n': 0, 'status': 'proved', 'text': ob['text'], 'models': [], 'ms': 0.0, 'backends': set()})
            a['n'] += 1
            a['ms'] += ob['ms']
            a['backends'].add(ob['backend'])
            if ob['status'] == 'refuted':
                a['status'] = 'refuted'
                if ob.get('model') is not None and len(a['models']) < 3:
                    a['models'].append(ob['model'])
                if ob.get('solver_output') and 'solver_output' not in a:
                    a['solver_output'] = ob['solver_output']
            elif ob['status'] != 'proved' and a['status'] == 'proved':
                a['status'] = 'undecided'
        for a in agg.values():
            a['backends'] = sorted(a['backends'])
        return agg


def model_value(m, kind, v):
    if kind == 'int' or kind == 'seqlen' or kind == 'str':
        r = m.eval(v, model_completion=True)
        return r.as_long() if z3.is_int_value(r) else str(r)
    if kind == 'bool':
        return z3.is_true(m.eval(v, model_completion=True))
    if kind == 'real':
        r = m.eval(v, model_completion=True)
        try:
            return float(r.as_fraction())
        except Exception:
            return str(r)
    if kind == 'stream':
        out = []
        base = m.eval(z3.Int('pos'), model_completion=True)
        base = base.as_long() if z3.is_int_value(base) else 0
        for i in range(base, base + 256):
            x = m.eval(to_z3(v.at(i)), model_completion=True)
            out.append(x.as_long() % 256 if z3.is_int_value(x) else 0)
        return {'from_pos_256': bytes(out).hex()}
    if kind == 'bytes':
        ln = m.eval(to_z3(v.length()), model_completion=True)
        ln = ln.as_long() if z3.is_int_value(ln) else 0
        out = []
        for i in range(min(ln, 70000)):
            x = m.eval(to_z3(v.at(i)), model_completion=True)
            out.append(x.as_long() % 256 if z3.is_int_value(x) else 0)
        return {'len': ln, 'hex': bytes(out).hex()}
    return None


def extract_model(ctx, m):
    out = {}
    for name, (kind, v) in ctx.inputs.items():
        try:
            out[name] = model_value(m, kind, v)
        except Exception as e:  # pragma: no cover
            out[name] = f'<{e}>'
    return out


def run_cvc5(smt2, timeout_ms, want_model=False):
    """returns 'unsat' | 'sat' | 'unknown' and raw output"""
    with tempfile.NamedTemporaryFile('w', suffix='.smt2', delete=False, dir=os.environ.get('PYVC_TMP', None)) as f:
        f.write(smt2)
        path = f.name
    try:
        cmd = ['/usr/bin/cvc5', f'--tlimit={timeout_ms}', '--lang=smt2']
        p = subprocess.run(cmd + [path], capture_output=True, text=True, timeout=timeout_ms / 1000 + 5)
        out = p.stdout.strip().splitlines()
        res = out[0].strip() if out else 'unknown'
        if res not in ('sat', 'unsat'):
            # second attempt with finite model finding (counter-models under quantified hypotheses)
            p = subprocess.run(cmd + ['--finite-model-find', path], capture_output=True, text=True, timeout=timeout_ms / 1000 + 5)
            out = p.stdout.strip().splitlines()
            res2 = out[0].strip() if out else 'unknown'
            if res2 in ('sat', 'unsat'):
                res = res2
        return (res if res in ('sat', 'unsat') else 'unknown'), p.stdout[-2000:] + p.stderr[-500:]
    except subprocess.TimeoutExpired:
        return 'unknown', 'cvc5 timeout'
    finally:
        os.unlink(path)


class Solve:
    def __init__(self, tier='quick'):
        self.tier = tier
        self.z3_ms = Z3_TIMEOUT_MS * (3 if tier == 'thorough' else 1)
        self.cvc5_ms = CVC5_TIMEOUT_MS * (3 if tier == 'thorough' else 1)
        self.recheck = tier == 'thorough' and os.environ.get('PYVC_NO_RECHECK') != '1'
        self.extra_hyp = None  # formula builder for region exclusion (known findings)

    def __call__(self, ctx, ob, formula):
        t0 = time.time()
        s = ctx.solver
        s.push()
        try:
            s.set('timeout', self.z3_ms)
            neg = z3.Not(to_z3(formula)) if formula is not False else z3.BoolVal(True)
            s.add(neg)
            r = s.check()
            if r == z3.unsat:
                ob.status, ob.backend = 'proved', 'z3'
                if self.recheck:
                    res, _ = run_cvc5(_smt2(s), self.cvc5_ms)
                    if res == 'unsat':
                        ob.backend = 'z3+cvc5'
                    elif res == 'sat':
                        ob.status, ob.backend = 'undecided', 'z3/cvc5 disagree'
            elif r == z3.sat:
                ob.status, ob.backend = 'refuted', 'z3'
                m = s.model()
                ob.model = extract_model(ctx, m)
                ob.model = minimise(ctx, s, ob.model)
            else:
                res, raw = run_cvc5(_smt2(s), self.cvc5_ms)
                if res == 'unsat':
                    ob.status, ob.backend = 'proved', 'cvc5'
                elif res == 'sat':
                    ob.status, ob.backend = 'refuted', 'cvc5'
                    ob.model = None
                    ob.smt2 = raw
                else:
                    ob.status, ob.backend = 'undecided', 'z3:unknown cvc5:unknown'
        finally:
            s.set('timeout', 3000)
            s.pop()
            ob.ms = (time.time() - t0) * 1000


def _smt2(s):
    txt = s.to_smt2()
    return txt


def minimise(ctx, s, model):
    """re-query under small length bounds so that witnesses are short (the first probe produced 121 kB for 6 bytes)"""
    lens = [v.length() for (k, v) in ctx.inputs.values() if k == 'bytes' and is_sym(v.length())]
    lens += [v for (k, v) in ctx.inputs.values() if k == 'seqlen']
    if not lens:
        return model
    s.set('timeout', 2000)
    for bound in (8, 64, 512, 4096, 70000):
        s.push()
        for ln in lens:
            s.add(to_z3(ln) <= bound)
        r = s.check()
        if r == z3.sat:
            m = extract_model(ctx, s.model())
            s.pop()
            return m
        s.pop()
    return model


def segment_stmts(c, fnode):
    """the statements under verification: the whole body, or (for a segment contract) the top-level statements of the
    real function from the one starting with segment['from'] up to (excluding) the one starting with segment['to'];
    the statements before it are abstracted into the declared entry state — stated in the evidence"""
    import ast

    if not c.segment:
        return fnode.body
    # the anchors may sit at any depth (inside a try / with / if): the segment is a run of sibling statements of the
    # block that contains the start anchor
    hits = []
    for parent in [fnode] + [n for n in ast.walk(fnode) if n is not fnode and not isinstance(n, (ast.FunctionDef, ast.AsyncFunctionDef, ast.Lambda, ast.ClassDef))]:
        for field in ('body', 'orelse', 'finalbody'):
            block = getattr(parent, field, None)
            if not isinstance(block, list) or not block or not isinstance(block[0], ast.stmt):
                continue
            texts = [ast.unparse(st) for st in block]
            for i, t in enumerate(texts):
                if t.startswith(c.segment['from']):
                    hits.append((block, texts, i))
    top = [h for h in hits if h[0] is fnode.body]
    if len(top) == 1:
        hits = top  # a statement of the function body itself wins over a nested one with the same text
    if len(hits) != 1:
        raise LookupError(f'segment start `{c.segment["from"]}` matches {len(hits)} statements')
    block, texts, i = hits[0]
    if c.segment.get('to') is None:
        return block[i:]
    end = [j for j, t in enumerate(texts) if t.startswith(c.segment['to']) and j > i]
    if len(end) < 1:
        raise LookupError(f'segment end `{c.segment["to"]}` not found after the start in the same block')
    return block[i : end[0]]


def _bind_siblings(reg, c, fr):
    """for a nested function (`outer.inner`): the other functions nested in `outer` are visible as closures and, unless
    the contract maps them to a callee spec, are executed from their real source"""
    import ast
    from .interp import VFunc

    q = c.qualname.split('#')[0]
    if c.segment:
        # a segment of `outer` itself: the functions nested in it (defined before the segment) are its closures
        try:
            onode = reg.find_node(c.file, q)
        except LookupError:
            return
        for n in onode.body:
            if isinstance(n, (ast.FunctionDef, ast.AsyncFunctionDef)) and n.name not in fr.locs:
                fr.locs[n.name] = VFunc(n, fr, f'{q}.{n.name}', module=c.file)
        return
    if '.' not in q:
        return
    outer = q.rsplit('.', 1)[0]
    try:
        onode = reg.find_node(c.file, outer)
    except LookupError:
        return
    if not isinstance(onode, (ast.FunctionDef, ast.AsyncFunctionDef)):
        return
    for n in onode.body:
        if isinstance(n, (ast.FunctionDef, ast.AsyncFunctionDef)) and n.name != q.rsplit('.', 1)[1] and n.name not in fr.locs:
            fr.locs[n.name] = VFunc(n, fr, f'{outer}.{n.name}', module=c.file)


def build_entry(it, c, fnode, fr):
    """parameters, ghosts, requires, old-snapshot, lets"""
    ctx = it.ctx
    a = fnode.args
    names = [x.arg for x in a.posonlyargs + a.args + a.kwonlyargs]
    for name in names:
        if name in c.params:
            fr.locs[name] = make_value(it, c.params[name], name)
    # defaults for undeclared params
    posnames = [x.arg for x in a.posonlyargs + a.args]
    nd = len(a.defaults)
    for i, name in enumerate(posnames if not c.segment else []):
        if name not in fr.locs:
            j = i - (len(posnames) - nd)
            if j < 0:
                raise Unsupported(f'parameter {name} of {c.qualname} has no spec')
            fr.locs[name] = it.eval(a.defaults[j], fr)
    for kw, d in zip(a.kwonlyargs if not c.segment else [], a.kw_defaults):
        if kw.arg not in fr.locs:
            if d is None:
                raise Unsupported(f'parameter {kw.arg} of {c.qualname} has no spec')
            fr.locs[kw.arg] = it.eval(d, fr)
    # extra names (closure variables of nested functions, ghost state)
    for name, spec in c.params.items():
        if name not in fr.locs:
            fr.locs[name] = make_value(it, spec, name)
    for name, spec in c.ghost.items():
        fr.locs[name] = make_value(it, spec, name)
    for name, fn in c.specfns.items():
        fr.locs[name] = fn
    if c.setup:
        c.setup(it, fr)
    for r in c.requires:
        ctx.assume(truthy(ctx, it.spec_eval(r, fr)))
    fr.locs['old!'] = _snapshot({k: v for k, v in fr.locs.items() if k != 'old!'})
    if not c.segment:
        fr.locs['entry!'] = {n: fr.locs[n] for n in names if n in fr.locs}
    for name, src in c.lets.items():
        fr.locs[name] = it.spec_eval(src, fr)
        fr.locs['old!'][name] = fr.locs[name]


def exc_args_match(it, e, expected):
    """formula: the raised exception's leading args equal `expected` (VTuple / tuple with None wildcards)"""
    items = expected.items if isinstance(expected, VTuple) else (expected,)
    conj = []
    for k, x in enumerate(items):
        if x is None:
            continue
        if k >= len(e.args):
            return False
        conj.append(it.equals(e.args[k], x, None))
    return simp(z_and(*conj))


def check_outcome(it, c, fr, outcome, value):
    ctx = it.ctx
    reg = it.registry
    # in postconditions a PARAMETER name denotes its value at entry (as in JML/Dafny); the possibly rebound local is
    # `final(name)`. Segment contracts have no parameters: their names are the locals at the end of the segment.
    entry = fr.locs.get('entry!') or {}
    if entry:
        fr = _overlay(fr, entry)
    if c.ghost_final:
        c.ghost_final(it, fr, outcome, value)
    if outcome == 'return':
        fr.locs['result'] = value
        for k, cl in enumerate(c.ensures):
            try:
                f = truthy(ctx, it.spec_eval(cl, fr))
            except Unsupported as e:
                # this clause cannot be evaluated in this end state (e.g. it dereferences a value another, refuted,
                # clause says must exist): undecided for THIS clause only, so that refuted clauses still surface
                ob = Obligation(f'post:{k}', 'post', f'{cl}  [not evaluable here: {e}]')
                ob.status, ob.backend = 'undecided', 'not-evaluable'
                ctx.obligations.append(ob)
                continue
            ctx.oblige(f'post:{k}', 'post', f, cl)
        for k, case in enumerate(c.raises):
            if case.get('iff') is not None:
                f = it.spec_eval(case['iff'], fr)
                ctx.oblige(f'raises:{case["exc"]}:{k}:if', 'post', z_not(truthy(ctx, f)), f'normal return only if not ({case["iff"]})')
    elif outcome == 'raise':
        e = value
        fr.locs['exc'] = e
        matched_cases = [(k, case) for k, case in enumerate(c.raises) if issubclass(e.cls, reg.resolve_exc(case['exc'], c))]
        if matched_cases:
            disj = []
            for k, case in matched_cases:
                parts = []
                if case.get('args'):
                    parts.append(exc_args_match(it, e, it.spec_eval(case['args'], fr)))
                if case.get('iff') is not None:
                    parts.append(truthy(ctx, it.spec_eval(case['iff'], fr)))
                if case.get('when') is not None:
                    parts.append(truthy(ctx, it.spec_eval(case['when'], fr)))
                disj.append(z_and(*parts))
            ob = ctx.oblige(f'raises:{e.cls.__name__}:classified', 'post', simp(z_or(*disj)), f'{e.cls.__name__}{_fmt_args(e.args)} must match a declared case with its condition')
            if getattr(c, 'opaque_calls', False):
                ctx.oblige('rte-free', 'rte', True, f'paths of {c.qualname} end in a return or an allowed exception')
            for k, case in matched_cases:
                for j, cl in enumerate(case.get('also', ())):
                    pre = []
                    if case.get('args'):
                        pre.append(exc_args_match(it, e, it.spec_eval(case['args'], fr)))
                    f = z_implies(simp(z_and(*pre)), truthy(ctx, it.spec_eval(cl, fr)))
                    ctx.oblige(f'raises:{case["exc"]}:{k}:also:{j}', 'post', f, cl)
        elif any(issubclass(e.cls, reg.resolve_exc(x, c)) for x in c.escapes):
            pass
        else:
            ctx.refute(f'rte:{e.cls.__name__}', 'rte', f'{e.cls.__name__}{_fmt_args(e.args)} escapes {c.qualname}')
        for k, cl in enumerate(c.final or ()):
            ctx.oblige(f'final:{k}', 'post', truthy(ctx, it.spec_eval(cl, fr)), cl)
        return
    if outcome == 'return':
        # `exc` in a final clause is the escaping exception, None on a normal return (it was unbound here: a clause
        # which reached it -- only ever under a canary -- made the canary out-of-reach instead of killed)
        fr.locs.setdefault('exc', None)
        for k, cl in enumerate(c.final or ()):
            ctx.oblige(f'final:{k}', 'post', truthy(ctx, it.spec_eval(cl, fr)), cl)
        if getattr(c, 'opaque_calls', False):
            # sweep rows claim one thing: this path ended in a return (an allowed exception is recorded in the raise
            # branch above); every index / slice / unpack on the way forked an exception path which is judged there
            ctx.oblige('rte-free', 'rte', True, f'paths of {c.qualname} end in a return or an allowed exception')


def _overlay(fr, entry):
    f2 = Frame(fr.globs, dict(fr.locs), fr.parent, fr.contract, fr.module, fr.qualname)
    f2.locs['final!'] = dict(fr.locs)
    for k, v in entry.items():
        f2.locs[k] = v
    return f2


def _fmt_args(args):
    out = []
    for a in args:
        if isinstance(a, (int, str)):
            out.append(repr(a))
        else:
            out.append('…')
    return '(' + ', '.join(out) + ')'


def verify_function(reg, c, tier='quick', solve=None, max_paths=MAX_PATHS):
    rep = FunctionReport(c)
    t0 = time.time()
    solve = solve or Solve(tier)
    try:
        fnode = reg.node_for(c)
    except LookupError as e:
        rep.out_of_reach = f'target not extractable: {e}'
        return rep
    mod = reg.module_for(c.file)
    try:
        body = segment_stmts(c, fnode)
    except LookupError as e:
        rep.out_of_reach = f'segment not extractable: {e}'
        return rep
    stack = [[]]
    covers = {k: False for k in range(len(c.covers))}
    while stack:
        prefix = stack.pop()
        if rep.paths >= max_paths:
            rep.out_of_reach = f'path budget {max_paths} exceeded'
            break
        ctx = Ctx(prefix, solve)
        it = Interp(ctx, reg)
        it.current_contract = c
        it.assumed_calls = rep.assumed_calls
        fr = Frame(mod.__dict__, {}, None, c, c.file, c.qualname)
        fr.fnode = fnode
        _bind_siblings(reg, c, fr)
        outcome, value = None, None
        try:
            build_entry(it, c, fnode, fr)
            try:
                it.exec_block(body, fr)
                outcome, value = 'return', None
            except _Return as r:
                outcome, value = 'return', r.value
            except Raise as r:
                outcome, value = 'raise', r.exc
            check_outcome(it, c, fr, outcome, value)
            for k, cv in enumerate(c.covers):
                if not covers[k]:
                    try:
                        f = it.spec_eval(cv, fr)
                        if ctx.feasible(to_z3(truthy(ctx, f))):
                            covers[k] = True
                    except (Unsupported, PathCut):
                        pass
        except Infeasible:
            outcome = 'infeasible'
        except PathCut:
            outcome = 'cut'
        except Unsupported as e:
            rep.out_of_reach = str(e)
            rep.wall = time.time() - t0
            return rep
        except RecursionError:
            rep.out_of_reach = 'interpreter recursion limit'
            return rep
        rep.paths += 1
        key = outcome if outcome != 'raise' else f'raise:{value.cls.__name__}{_fmt_args(value.args)}'
        rep.outcomes[key] = rep.outcomes.get(key, 0) + 1
        for n in ctx.notes:
            if n not in rep.notes:
                rep.notes.append(n)
        for ob in ctx.obligations:
            d = {'clause': ob.clause, 'kind': ob.kind, 'status': ob.status, 'backend': ob.backend, 'ms': round(ob.ms, 2), 'text': ob.text, 'line': ob.line, 'model': ob.model}
            if ob.smt2:
                d['solver_output'] = ob.smt2
            rep.obligations.append(d)
        # schedule alternatives
        for i in range(len(prefix), len(ctx.decisions)):
            if ctx.alts[i]:
                stack.append(ctx.decisions[:i] + [not ctx.decisions[i]])
    # cover obligations (vacuity guards)
    for k, cv in enumerate(c.covers):
        rep.obligations.append({'clause': f'cover:{k}', 'kind': 'cover', 'status': 'proved' if covers[k] else 'refuted', 'backend': 'z3', 'ms': 0.0, 'text': f'reachable: {cv}', 'line': 0, 'model': None})
    if c.cover_raises:
        seen_normal = any(k == 'return' for k in rep.outcomes)
        for k, case in enumerate(c.raises):
            if case.get('cover', True) is False:
                continue
            cls = reg.resolve_exc(case['exc'], c).__name__
            hit = any(o.startswith(f'raise:{cls}') for o in rep.outcomes)
            rep.obligations.append({'clause': f'cover:raises:{case["exc"]}:{k}', 'kind': 'cover', 'status': 'proved' if hit else 'refuted', 'backend': 'paths', 'ms': 0.0, 'text': f'some path raises {case["exc"]}', 'line': 0, 'model': None})
        if c.ensures or getattr(c, 'opaque_calls', False):
            rep.obligations.append({'clause': 'cover:return', 'kind': 'cover', 'status': 'proved' if seen_normal else 'refuted', 'backend': 'paths', 'ms': 0.0, 'text': 'some path returns normally', 'line': 0, 'model': None})
    rep.wall = time.time() - t0
    return rep
