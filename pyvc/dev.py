"""dev runner: python -m pyvc.dev <contracts module> [qualname-substring]"""
import importlib, sys, json, os
os.environ.setdefault('exabgp_log_enable', 'false')
from pyvc.verify import verify_function

def main():
    modname = sys.argv[1]
    flt = sys.argv[2] if len(sys.argv) > 2 else ''
    m = importlib.import_module(modname)
    from contracts.common import REG
    for key, c in list(REG.contracts.items()):
        if flt not in c.qualname or not c.params and not c.ensures and not c.raises:
            continue
        if key in REG.inline and not c.ensures and not c.raises: continue
        rep = verify_function(REG, c)
        print(f'== {key[0]}:{key[1]} paths={rep.paths} wall={rep.wall:.2f}s outcomes={rep.outcomes}')
        if rep.out_of_reach:
            print('   OUT OF REACH:', rep.out_of_reach)
        for cl in rep.clauses().values():
            mark = {'proved': 'ok ', 'refuted': 'REFUTED', 'undecided': '???'}[cl['status']]
            print(f'   {mark} {cl["clause"]:40s} x{cl["n"]} {cl["ms"]:.0f}ms {cl["backends"]} {cl["text"][:90]}')
            if cl['status'] == 'refuted':
                for mdl in cl['models'][:1]:
                    print('        model:', json.dumps(mdl)[:400])
main()
