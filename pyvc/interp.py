"""pyvc.interp — path-wise symbolic execution of real Python ASTs.

One `Ctx` = one execution path.  Forking is done by re-execution (DFS over decision prefixes), so the interpreter
itself is a plain recursive evaluator with real Python control flow.  Implicit exceptions of primitives fork a
`Raise` path whenever the failing side is satisfiable.
"""

from __future__ import annotations

import ast
import builtins
import struct as _struct

import z3

from .values import *  # noqa: F401,F403
from . import values as V


class Raise(Exception):
    def __init__(self, exc):
        self.exc = exc


class PathCut(Exception):
    """quiet end of a path (after a loop-cut step, or an assumed-false hypothesis)"""


class Infeasible(PathCut):
    pass


Unsupported = V.Unsupported


class _Return(Exception):
    def __init__(self, value):
        self.value = value


class _Break(Exception):
    pass


class _Continue(Exception):
    pass


class Obligation:
    __slots__ = ('clause', 'kind', 'status', 'model', 'ms', 'backend', 'text', 'line', 'smt2')

    def __init__(self, clause, kind, text='', line=0):
        self.clause, self.kind, self.text, self.line = clause, kind, text, line
        self.status = None
        self.model = None
        self.ms = 0.0
        self.backend = ''
        self.smt2 = None


FEAS_TIMEOUT_MS = 3000


class Ctx:
    """one path"""

    def __init__(self, prefix=(), solve=None, z3_timeout_ms=10000):
        self.prefix = list(prefix)
        self.decisions = []
        self.alts = []
        self.solver = z3.Solver()
        self.solver.set('timeout', FEAS_TIMEOUT_MS)
        self.pc = []
        self.counter = {}
        self.obligations = []
        self.spec_mode = 0
        self.yielded = []
        self.inputs = {}  # name -> description for model extraction
        self.ghost = {}
        self.notes = []  # assumptions made on this path
        self.solve = solve
        self.z3_timeout_ms = z3_timeout_ms
        self.depth = 0
        self.trace = []
        self.events = []  # ghost event log (writes, acks, ...)

    # -- symbols
    def fresh(self, base, sort=I):
        n = self.counter.get(base, 0)
        self.counter[base] = n + 1
        name = base if n == 0 else f'{base}!{n}'
        return z3.Const(name, sort)

    def fresh_bytes(self, base, kind='bytes', maxlen=None, length=None):
        arr = self.fresh(base + '!a', ARR)
        if length is None:
            length = self.fresh(base + '!len')
            self.assume(length >= 0)
            if maxlen is not None:
                self.assume(length <= maxlen)
        self.byte_axiom(arr)
        return VBytes.view(arr, 0, length, kind)

    def byte_axiom(self, arr):
        k = z3.Int('k!b')
        sel = z3.Select(arr, k)
        self.assume(z3.ForAll([k], z3.And(sel >= 0, sel <= 255), patterns=[sel]))

    # -- path condition
    def assume(self, f):
        f = simp(f)
        if f is True:
            return
        if f is False:
            raise Infeasible()
        self.pc.append(f)
        self.solver.add(f)

    def feasible(self, f):
        self.solver.push()
        self.solver.add(f)
        r = self.solver.check()
        self.solver.pop()
        return r != z3.unsat

    def branch(self, cond):
        cond = simp(cond)
        if isinstance(cond, bool):
            return cond
        if self.spec_mode:
            raise Unsupported('fork in spec mode')
        pos = len(self.decisions)
        if pos < len(self.prefix):
            d = self.prefix[pos]
            alt = False
        else:
            t = self.feasible(cond)
            f = self.feasible(z3.Not(cond))
            if t and f:
                d, alt = True, True
            elif t:
                d, alt = True, False
            elif f:
                d, alt = False, False
            else:
                raise Infeasible()
        self.decisions.append(d)
        self.alts.append(alt)
        c = cond if d else z3.Not(cond)
        self.pc.append(c)
        self.solver.add(c)
        return d

    # -- obligations
    def oblige(self, clause, kind, formula, text='', line=0):
        ob = Obligation(clause, kind, text, line)
        formula = simp(formula)
        if formula is True:
            ob.status, ob.backend = 'proved', 'simplifier'
        else:
            self.solve(self, ob, formula)
        self.obligations.append(ob)
        if formula is not True and formula is not False:
            # continue under the clause (standard: avoids cascades)
            try:
                self.assume(formula)
            except Infeasible:
                pass
        return ob

    def refute(self, clause, kind, text='', line=0):
        """the current path itself is the counterexample (it was found feasible)"""
        ob = Obligation(clause, kind, text, line)
        self.solve(self, ob, False)
        self.obligations.append(ob)
        return ob


# ---------------------------------------------------------------------------------------- helpers


def bit_and_const(x, c):
    """x & c for x >= 0 (Python floor semantics make this right for negatives too), c a constant >= 0"""
    if c == 0:
        return 0
    total = 0
    bit = 0
    while c >> bit:
        if (c >> bit) & 1:
            lo = bit
            while (c >> bit) & 1:
                bit += 1
            width = bit - lo
            part = (to_z3(x) / (1 << lo)) % (1 << width) if lo else to_z3(x) % (1 << width)
            total = total + part * (1 << lo)
        else:
            bit += 1
    return simp(total)


def is_opaque(v):
    return isinstance(v, VObj) and bool(v.fields.get('opaque!'))


def opaque_like(ctx, name):
    return VObj(None, {'opaque!': True, 'bool!': ctx.fresh(f'truth({name})', z3.BoolSort()), 'isinstance!': lambda c: True}, name)


def truthy(ctx, v):
    """Python truth value of v as a formula / bool"""
    if isinstance(v, bool):
        return v
    if v is None:
        return False
    if is_sym(v):
        if z3.is_bool(v):
            return v
        return v != 0
    if isinstance(v, (int, float)):
        return v != 0
    if isinstance(v, VBytes):
        n = v.length()
        return simp(to_z3(n) != 0) if is_sym(n) else n != 0
    if isinstance(v, (VList, VTuple)) or type(v).__name__ == 'VDict':
        return len(v.items) != 0
    if isinstance(v, VSeq):
        return simp(to_z3(v.length) != 0)
    if isinstance(v, VIte):
        return z_ite(v.c, truthy(ctx, v.a), truthy(ctx, v.b))
    if isinstance(v, VObj):
        if 'bool!' in v.fields:
            return v.fields['bool!']
        if '__len__' in v.fields:
            return simp(to_z3(v.fields['__len__']) != 0)
        return True
    if isinstance(v, (str, bytes, tuple, list, dict, set, frozenset)):
        return bool(v)
    if isinstance(v, VExc):
        return True
    if isinstance(v, VStr):
        return v.ident != 0
    return bool(v)


def py_int_trunc(r):
    """int(real)"""
    return z3.If(r >= 0, z3.ToInt(r), -z3.ToInt(-r))


_FMT = {'B': 1, 'H': 2, 'L': 4, 'I': 4, 'Q': 8, 'b': 1, 'h': 2, 'l': 4, 'i': 4, 'q': 8}


def exc(cls, *args):
    return Raise(VExc(cls, args))


class VFunc:
    """closure over a real AST (nested def / lambda / inlined real function)"""

    def __init__(self, node, frame, name, module=None, bound_self=None, contract_key=None):
        self.node, self.frame, self.name, self.module = node, frame, name, module
        self.bound_self = bound_self
        self.contract_key = contract_key


class Frame:
    def __init__(self, globs, locs=None, parent=None, contract=None, module=None, qualname='?'):
        self.globs = globs
        self.locs = locs if locs is not None else {}
        self.parent = parent  # lexical parent frame for closures
        self.contract = contract
        self.module = module
        self.qualname = qualname
        self.fnode = None
        self._loop_map = None

    def loop_ordinal_of(self, node):
        """static ordinal of a loop: position among the for/while statements of the enclosing function (nested defs excluded)"""
        if self._loop_map is None:
            self._loop_map = {}
            if self.fnode is not None:
                loops = []

                def walk(n):
                    for ch in ast.iter_child_nodes(n):
                        if isinstance(ch, (ast.FunctionDef, ast.AsyncFunctionDef, ast.Lambda, ast.ClassDef)):
                            continue
                        if isinstance(ch, (ast.For, ast.AsyncFor, ast.While)):
                            loops.append(ch)
                        walk(ch)

                walk(self.fnode)
                loops.sort(key=lambda n: (n.lineno, n.col_offset))
                for k, n in enumerate(loops):
                    self._loop_map[id(n)] = k
        if id(node) not in self._loop_map:
            self._loop_map[id(node)] = 1000 + len(self._loop_map)
        return self._loop_map[id(node)]

    def lookup(self, name):
        f = self
        while f is not None:
            if name in f.locs:
                return f.locs[name]
            f = f.parent
        if name in self.globs:
            return self.globs[name]
        if hasattr(builtins, name):
            return getattr(builtins, name)
        raise Unsupported(f'unbound name {name} in {self.qualname}')

    def assign(self, name, value, nonlocal_names=()):
        if name in nonlocal_names:
            f = self.parent
            while f is not None:
                if name in f.locs:
                    f.locs[name] = value
                    return
                f = f.parent
        self.locs[name] = value


_UNSET = object()


class Interp:
    def __init__(self, ctx, registry):
        self.ctx = ctx
        self.registry = registry  # pyvc.contract.Registry

    # ================================================================= statements
    def exec_block(self, stmts, fr):
        for s in stmts:
            self.exec_stmt(s, fr)

    def exec_stmt(self, s, fr):
        m = getattr(self, 'st_' + type(s).__name__, None)
        if m is None:
            raise Unsupported(f'statement {type(s).__name__} at line {s.lineno} of {fr.qualname}')
        return m(s, fr)

    def st_Pass(self, s, fr):
        pass

    def st_Import(self, s, fr):
        pass

    def st_ImportFrom(self, s, fr):
        import importlib

        try:
            mod = importlib.import_module(s.module)
        except Exception as e:  # pragma: no cover
            raise Unsupported(f'local import {s.module}: {e}')
        for a in s.names:
            fr.locs[a.asname or a.name] = getattr(mod, a.name)

    def st_Global(self, s, fr):
        raise Unsupported('global statement')

    def st_Nonlocal(self, s, fr):
        fr.locs.setdefault('nonlocal!', set()).update(s.names)

    def st_Expr(self, s, fr):
        if isinstance(s.value, ast.Constant):
            return
        if isinstance(s.value, ast.Call) and self._is_dropped_call(s.value):
            return
        self.eval(s.value, fr)

    def _is_dropped_call(self, call):
        try:
            t = ast.unparse(call.func)
        except Exception:
            return False
        return t.startswith('log.') or t.startswith('self.logger.') or t in ('logger.debug', 'logger.info')

    def st_Assert(self, s, fr):
        c = truthy(self.ctx, self.eval(s.test, fr))
        if not self.ctx.branch(c):
            raise exc(AssertionError)

    def st_Return(self, s, fr):
        raise _Return(self.eval(s.value, fr) if s.value is not None else None)

    def st_Break(self, s, fr):
        raise _Break()

    def st_Continue(self, s, fr):
        raise _Continue()

    def st_Raise(self, s, fr):
        if s.exc is None:
            cur = fr.locs.get('exc!current')
            if cur is None:
                raise Unsupported('bare raise outside handler')
            raise Raise(cur)
        v = self.eval(s.exc, fr)
        if isinstance(v, type) and issubclass(v, BaseException):
            v = VExc(v, ())
        if isinstance(v, VObj) and 'exc!' in v.fields:
            v = v.fields['exc!']
        if not isinstance(v, VExc):
            raise Unsupported(f'raise of non-exception {v!r}')
        raise Raise(v)

    def st_FunctionDef(self, s, fr):
        fr.locs[s.name] = VFunc(s, fr, f'{fr.qualname}.{s.name}', module=fr.module)

    st_AsyncFunctionDef = st_FunctionDef

    def st_Assign(self, s, fr):
        v = self.eval(s.value, fr)
        for t in s.targets:
            self.assign(t, v, fr)

    def st_AnnAssign(self, s, fr):
        if s.value is not None:
            self.assign(s.target, self.eval(s.value, fr), fr)

    def st_AugAssign(self, s, fr):
        cur = self.eval(_as_load(s.target), fr)
        v = self.binop(type(s.op), cur, self.eval(s.value, fr), s)
        self.assign(s.target, v, fr)

    def assign(self, t, v, fr):
        if isinstance(t, ast.Name):
            fr.assign(t.id, v, fr.locs.get('nonlocal!', ()))
        elif isinstance(t, (ast.Tuple, ast.List)):
            items = self.iter_static(v, len(t.elts))
            if len(items) != len(t.elts):
                raise exc(ValueError, 'unpack')
            for tt, vv in zip(t.elts, items):
                self.assign(tt, vv, fr)
        elif isinstance(t, ast.Attribute):
            o = self.eval(t.value, fr)
            self.setattr(o, t.attr, v, fr, t)
        elif isinstance(t, ast.Subscript):
            o = self.eval(t.value, fr)
            k = self.eval_index(t.slice, fr)
            self.setitem(o, k, v, t)
        else:
            raise Unsupported(f'assignment target {type(t).__name__}')

    def setattr(self, o, name, v, fr, node):
        if isinstance(o, VObj):
            hook = self.ctx.ghost.get('setattr!')
            if hook:
                hook(self, o, name, v, node)
            o.fields[name] = v
            return
        if is_opaque(o):
            o.fields[name] = v
            return
        raise Unsupported(f'attribute store on {type(o).__name__} .{name} (line {node.lineno}): frame violation or unmodelled object')

    def iter_static(self, v, n=None):
        if n is not None and is_opaque(v) and self.sweep_mode():
            # tuple-unpacking of the unconstrained result of an assumed callee (arity assumed right)
            return [opaque_like(self.ctx, f'{v.name}.{k}') for k in range(n)]
        if isinstance(v, (VTuple, VList)):
            return list(v.items)
        if isinstance(v, (tuple, list, dict, set, frozenset)):
            return [_wrap_const(x) for x in v]
        if isinstance(v, VDict):
            return [k for k, _ in v.items]
        if isinstance(v, VBytes):
            ln = v.length()
            if isinstance(ln, int):
                return [v.at(i) for i in range(ln)]
        raise Unsupported(f'static iteration over {type(v).__name__}')

    def st_If(self, s, fr):
        c = truthy(self.ctx, self.eval(s.test, fr))
        if is_sym(c) and fr.contract is not None and fr.contract.pure_calls and self._simple_block(s.body, fr) and self._simple_block(s.orelse, fr):
            # if-conversion: both arms are plain assignments of pure expressions -> conditional assignment, no fork
            self._merge_if(c, s, fr)
            return
        if self.ctx.branch(c):
            self.exec_block(s.body, fr)
        else:
            self.exec_block(s.orelse, fr)

    def _pure(self, e, fr):
        pc = fr.contract.pure_calls if fr.contract is not None else ()
        if isinstance(e, ast.Constant):
            return True
        if isinstance(e, ast.Name):
            return True
        if isinstance(e, ast.Attribute):
            return self._pure(e.value, fr)
        if isinstance(e, ast.UnaryOp) and isinstance(e.op, ast.Not):
            return self._pure(e.operand, fr)
        if isinstance(e, ast.BoolOp):
            return all(self._pure(v, fr) for v in e.values)
        if isinstance(e, ast.Compare):
            return self._pure(e.left, fr) and all(self._pure(c, fr) for c in e.comparators) and all(isinstance(o, (ast.Eq, ast.NotEq, ast.Is, ast.IsNot, ast.Lt, ast.LtE, ast.Gt, ast.GtE)) for o in e.ops)
        if isinstance(e, ast.Call):
            try:
                d = ast.unparse(e.func)
            except Exception:
                return False
            return (d in pc or d == 'isinstance') and all(self._pure(a, fr) for a in e.args) and not e.keywords
        return False

    def _simple_block(self, stmts, fr):
        for st in stmts:
            if isinstance(st, ast.Assign) and len(st.targets) == 1 and self._pure(st.value, fr):
                t = st.targets[0]
                if isinstance(t, ast.Name) or (isinstance(t, ast.Attribute) and isinstance(t.value, ast.Name)):
                    continue
                return False
            if isinstance(st, ast.If) and self._pure(st.test, fr) and self._simple_block(st.body, fr) and self._simple_block(st.orelse, fr):
                continue
            if isinstance(st, ast.Pass):
                continue
            return False
        return True

    def _targets(self, stmts, out):
        for st in stmts:
            if isinstance(st, ast.Assign):
                out.append(st.targets[0])
            elif isinstance(st, ast.If):
                self._targets(st.body, out)
                self._targets(st.orelse, out)
        return out

    def _merge_if(self, c, s, fr):
        tg = []
        for t in self._targets(s.body, []) + self._targets(s.orelse, []):
            k = ast.unparse(t)
            if k not in [ast.unparse(x) for x in tg]:
                tg.append(t)

        def read(t):
            try:
                return self.eval(_as_load(t), fr)
            except Unsupported:
                return _UNSET

        before = [read(t) for t in tg]

        def run(block):
            self.ctx.spec_mode += 1  # no forking inside: nested simple ifs merge recursively
            try:
                for st in block:
                    if isinstance(st, ast.Assign):
                        self.assign(st.targets[0], self.eval(st.value, fr), fr)
                    elif isinstance(st, ast.If):
                        cc = truthy(self.ctx, self.eval(st.test, fr))
                        if isinstance(cc, bool):
                            run(st.body if cc else st.orelse)
                        else:
                            self._merge_if(cc, st, fr)
            finally:
                self.ctx.spec_mode -= 1
            return [read(t) for t in tg]

        def restore():
            for t, v in zip(tg, before):
                if v is not _UNSET:
                    self.assign(t, v, fr)

        a = run(s.body)
        restore()
        b = run(s.orelse)
        for t, va, vb in zip(tg, a, b):
            if va is _UNSET and vb is _UNSET:
                continue
            if va is _UNSET or vb is _UNSET:
                raise Unsupported(f'if-conversion: {ast.unparse(t)} is bound on one arm only')
            self.assign(t, z_ite(c, va, vb), fr)

    def st_With(self, s, fr):
        # instrumentation managers are dropped, body kept
        for item in s.items:
            t = ast.unparse(item.context_expr)
            if not any(t.startswith(p) for p in ('timed_async', 'LoopTimer', 'self._timer', 'timer')):
                callees = fr.contract.callees if fr.contract else {}
                key = ast.unparse(item.context_expr.func) if isinstance(item.context_expr, ast.Call) else t
                if key not in callees or callees[key] != 'drop-manager':
                    raise Unsupported(f'with {t}')
        self.exec_block(s.body, fr)

    st_AsyncWith = st_With

    def st_Try(self, s, fr):
        try:
            try:
                self.exec_block(s.body, fr)
            except Raise as r:
                for h in s.handlers:
                    if self.handler_matches(h, r.exc, fr):
                        saved = fr.locs.get('exc!current')
                        fr.locs['exc!current'] = r.exc
                        if h.name:
                            fr.locs[h.name] = r.exc
                        try:
                            self.exec_block(h.body, fr)
                        finally:
                            fr.locs['exc!current'] = saved
                        break
                else:
                    raise
            else:
                self.exec_block(s.orelse, fr)
        finally:
            if s.finalbody:
                # note: a finally body that raises replaces the in-flight signal, as in Python
                self.exec_block(s.finalbody, fr)

    def handler_matches(self, h, e, fr):
        if h.type is None:
            return True
        t = self.eval(h.type, fr)
        classes = t.items if isinstance(t, VTuple) else (t if isinstance(t, tuple) else (t,))
        for c in classes:
            if isinstance(c, type) and issubclass(e.cls, c):
                return True
        return False

    # ----------------------------------------------------------------- loops
    def st_While(self, s, fr):
        self.loop(s, fr, kind='while')

    def st_For(self, s, fr):
        it = self.eval(s.iter, fr)
        if isinstance(it, VIterDone):
            it = it.seq
        if is_opaque(it) and self.sweep_mode():
            # iteration over the unconstrained result of an assumed callee: any number of unconstrained elements
            ln = self.ctx.fresh(f'len({it.name})')
            self.ctx.assume(ln >= 0)
            nm = it.name
            txt = bool(it.fields.get('text!'))

            def _elem(i, _n=nm, _t=txt):
                e_ = opaque_like(self.ctx, f'{_n}[]')
                if _t:
                    e_.fields['text!'] = True
                return e_

            it = VSeq(ln, _elem, nm)
        static = None
        if isinstance(it, (VTuple, VList, tuple, list)):
            static = self.iter_static(it)
        elif isinstance(it, range):
            static = list(it)
        elif isinstance(it, (dict,)):
            static = list(it)
        elif isinstance(it, VBytes) and isinstance(it.length(), int) and it.length() <= 64:
            static = self.iter_static(it)
        if static is not None:
            if isinstance(it, VList):
                static = list(it.items)
            broke = False
            for v in static:
                self.assign(s.target, v, fr)
                try:
                    self.exec_block(s.body, fr)
                except _Break:
                    broke = True
                    break
                except _Continue:
                    continue
            if not broke:
                self.exec_block(s.orelse, fr)
            return
        self.loop(s, fr, kind='for', iterable=it)

    st_AsyncFor = st_For

    def loop(self, s, fr, kind, iterable=None):
        ctx = self.ctx
        ordinal = fr.loop_ordinal_of(s)
        spec = (fr.contract.loops if fr.contract else {}).get(ordinal)
        if spec is None:
            raise Unsupported(f'loop #{ordinal} at line {s.lineno} of {fr.qualname} has no invariant')
        tag = f'{ordinal}'
        # ghost index for `for` loops
        idx_name = spec.get('index', f'i!{ordinal}')
        if kind == 'for':
            fr.locs[idx_name] = 0
            n_iter = self.seq_len(iterable)
        # 1. entry (values captured at loop entry are visible to the invariant as ghost names)
        for name, src in (spec.get('entry_lets') or {}).items():
            fr.locs[name] = self.spec_eval(src, fr)
        for k, inv in enumerate(spec.get('inv', ())):
            f = self.spec_eval(inv, fr)
            ctx.oblige(f'inv-entry:{tag}:{k}', 'inv-entry', f, inv, s.lineno)
        for name, basename in (spec.get('subviews') or {}).items():
            ctx.oblige(f'inv-entry:{tag}:subview:{name}', 'inv-entry', subview_formula(fr.lookup(name), fr.lookup(basename)), f'{name} is a sub-view of {basename}', s.lineno)
        # 2. havoc
        assigned = _assigned_names(s.body) | set(spec.get('modifies', ()))
        if kind == 'for':
            assigned |= _target_names(s.target) | {idx_name}
        for name in sorted(assigned):
            if '.' in name:
                base, attr = name.split('.', 1)
                o = fr.lookup(base)
                if isinstance(o, VObj) and attr in o.fields:
                    o.fields[attr] = self.havoc_like(o.fields[attr], f'{name}@{tag}')
                continue
            cur = _UNSET
            f_ = fr
            while f_ is not None:
                if name in f_.locs:
                    cur = f_.locs[name]
                    break
                f_ = f_.parent
            if cur is _UNSET:
                continue
            f_.locs[name] = self.havoc_like(cur, f'{name}@{tag}')
        for name in sorted(_mutated_names(s.body) - assigned):
            # containers mutated through calls inside the loop: content unknown at the cut (identity kept is irrelevant:
            # they are meta-level values), so they become opaque containers of unknown size
            f_ = fr
            while f_ is not None and name not in f_.locs:
                f_ = f_.parent
            if f_ is None:
                continue
            cur = f_.locs[name]
            if type(cur).__name__ in ('VDict', 'VList'):
                ln = ctx.fresh(f'{name}@{tag}!size')
                ctx.assume(ln >= 0)
                f_.locs[name] = VObj(None, {'bool!': simp(ln != 0), '__len__': ln, 'opaque!': True}, name)
        for path in sorted(_mutated_fields(s.body)):
            base, attr = path
            try:
                o = fr.lookup(base)
            except Unsupported:
                continue
            if isinstance(o, VObj) and type(o.fields.get(attr)).__name__ in ('VDict', 'VList'):
                ln = ctx.fresh(f'{base}.{attr}@{tag}!size')
                ctx.assume(ln >= 0)
                o.fields[attr] = VObj(None, {'bool!': simp(ln != 0), '__len__': ln, 'opaque!': True}, f'{base}.{attr}')
        for fld in _assigned_self_fields(s.body):
            o = fr.locs.get('self')
            if isinstance(o, VObj) and fld in o.fields:
                o.fields[fld] = self.havoc_like(o.fields[fld], f'self.{fld}@{tag}')
        for name, basename in (spec.get('subviews') or {}).items():
            # the variable is, by (checked) invariant, a window into the SAME array as its base: only offset/length are havocked
            base = fr.lookup(basename).pieces[0] if fr.lookup(basename).pieces else None
            if base is None:
                fr.assign(name, VBytes([], fr.lookup(basename).kind))
                continue
            off = ctx.fresh(f'{name}@{tag}!off')
            ln = ctx.fresh(f'{name}@{tag}!len')
            ctx.assume(z_and(off >= 0, ln >= 0, to_z3(off + ln) <= to_z3(base.len)))
            fr.assign(name, VBytes([Piece('view', base.a, simp(base.off + off), ln)], fr.lookup(basename).kind))
        hv = spec.get('havoc')
        if hv:
            hv(self, fr, tag)
        # 3. assume invariant (and the definitional unfoldings of recursive spec functions at this index: fuel 1)
        for inv in spec.get('inv', ()):
            ctx.assume(self.spec_eval(inv, fr))
        for ax in spec.get('unfold', ()):
            ctx.assume(self.spec_eval(ax, fr))
        if kind == 'for':
            i = fr.locs[idx_name]
            ctx.assume(z_and(to_z3(i) >= 0, to_z3(i) <= to_z3(n_iter)))
            test = simp(to_z3(i) < to_z3(n_iter))
        else:
            test = truthy(ctx, self.eval(s.test, fr))
        if ctx.branch(test):
            dec0 = self.spec_eval(spec['decreases'], fr) if spec.get('decreases') else None
            if kind == 'for':
                self.assign(s.target, self.seq_at(iterable, fr.locs[idx_name]), fr)
            try:
                self.exec_block(s.body, fr)
            except _Break:
                return  # continue after the loop with the state at `break`
            except _Continue:
                pass
            if kind == 'for':
                fr.locs[idx_name] = simp(fr.locs[idx_name] + 1)
            # ghost statements at the end of the iteration (`ghost_step`: name -> expression over the end state)
            for gname, gsrc in (spec.get('ghost_step') or {}).items():
                fr.assign(gname, self.spec_eval(gsrc, fr))
            for k, inv in enumerate(spec.get('inv', ())):
                f = self.spec_eval(inv, fr)
                ctx.oblige(f'inv-step:{tag}:{k}', 'inv-step', f, inv, s.lineno)
            for name, basename in (spec.get('subviews') or {}).items():
                ctx.oblige(f'inv-step:{tag}:subview:{name}', 'inv-step', subview_formula(fr.lookup(name), fr.lookup(basename)), f'{name} is a sub-view of {basename}', s.lineno)
            if dec0 is not None:
                dec1 = self.spec_eval(spec['decreases'], fr)
                ctx.oblige(f'variant:{tag}', 'variant', z_and(to_z3(dec0) >= 0, to_z3(dec1) < to_z3(dec0)), spec['decreases'], s.lineno)
            raise PathCut()
        else:
            self.exec_block(s.orelse, fr)

    def sweep_mode(self):
        c = getattr(self, 'current_contract', None)
        return bool(c is not None and getattr(c, 'opaque_calls', False))

    def seq_len(self, it):
        if isinstance(it, VSeq):
            return it.length
        if isinstance(it, VBytes):
            return it.length()
        raise Unsupported(f'iteration over {type(it).__name__}')

    def seq_at(self, it, i):
        if isinstance(it, VSeq):
            return it.elem(i)
        if isinstance(it, VBytes):
            return it.at(i)
        raise Unsupported(f'iteration over {type(it).__name__}')

    def havoc_like(self, cur, name):
        ctx = self.ctx
        if isinstance(cur, bool) or (is_sym(cur) and z3.is_bool(cur)):
            return ctx.fresh(name, B)
        if isinstance(cur, float) or (is_sym(cur) and z3.is_real(cur)):
            return ctx.fresh(name, z3.RealSort())
        if isinstance(cur, int) or (is_sym(cur) and z3.is_int(cur)):
            return ctx.fresh(name)
        if isinstance(cur, VBytes):
            bufs = [p.a for p in cur.pieces if isinstance(p.a, VBuf)]
            if bufs:
                # mutable buffer (bytearray / memoryview of one): havoc the CONTENT in place, identity and length kept
                for b in bufs:
                    b.arr = ctx.fresh(name + '!a', ARR)
                    ctx.byte_axiom(b.arr)
                return cur
            return ctx.fresh_bytes(name, cur.kind)
        if isinstance(cur, str) or isinstance(cur, VStr):
            return VStr(ctx.fresh(name), name)
        if cur is None:
            if self.sweep_mode():
                # sweep mode has no hand-written havoc: a name bound to None before the loop and assigned in it is, at the
                # cut, None or some unconstrained value
                c = ctx.fresh(name + '!set', B)
                return VIte(c, VObj(None, {'opaque!': True, 'bool!': ctx.fresh(name + '!truth', B)}, name), None)
            return None
        if isinstance(cur, VSeq):
            ln = ctx.fresh(name + '!len')
            ctx.assume(ln >= 0)
            base = ctx.fresh(name + '!base')
            elem = cur.elem
            return VSeq(ln, lambda i, _e=elem, _b=base: _e(simp(_b + i)), name)
        if isinstance(cur, VList) and self.sweep_mode():
            ln = ctx.fresh(name + '!size')
            ctx.assume(ln >= 0)
            return VObj(None, {'bool!': simp(ln != 0), '__len__': ln, 'opaque!': True}, name)
        if isinstance(cur, VList):
            raise Unsupported(f'havoc of a static list {name}: declare it in the loop spec')
        if isinstance(cur, VObj):
            return cur  # identity preserved; fields are havocked by name
        if isinstance(cur, VTuple):
            return VTuple([self.havoc_like(x, f'{name}.{k}') for k, x in enumerate(cur.items)])
        raise Unsupported(f'havoc of {type(cur).__name__} ({name})')

    # ================================================================= expressions
    def eval(self, e, fr):
        m = getattr(self, 'ex_' + type(e).__name__, None)
        if m is None:
            raise Unsupported(f'expression {type(e).__name__} at line {getattr(e, "lineno", "?")} of {fr.qualname}')
        return m(e, fr)

    def spec_eval(self, src, fr, extra=None):
        """evaluate contract source text in spec mode against frame fr (no forking, no exceptions)"""
        if callable(src):
            return src(self, fr)
        node = _parse_expr(src)
        sfr = Frame(fr.globs, dict(fr.locs), fr.parent, fr.contract, fr.module, fr.qualname + '<spec>')
        if extra:
            sfr.locs.update(extra)
        self.ctx.spec_mode += 1
        try:
            return self.eval(node, sfr)
        finally:
            self.ctx.spec_mode -= 1

    def ex_Constant(self, e, fr):
        v = e.value
        if isinstance(v, bytes):
            return VBytes.lit(v)
        return v

    def ex_Name(self, e, fr):
        return fr.lookup(e.id)

    def ex_JoinedStr(self, e, fr):
        """f-string: concrete when every component is; otherwise a symbolic string that remembers its TEMPLATE
        (`parts`: concrete text and symbolic components in order) so that output contracts can compare templates"""
        parts = []
        opaque = False
        for v in e.values:
            if isinstance(v, ast.Constant):
                parts.append(v.value)
            else:
                try:
                    x = self.eval(v.value, fr)
                except Unsupported as ex_:
                    # message text only: the component is opaque (assumed total and effect-free; listed)
                    note = f'f-string component `{ast.unparse(v.value)}` in {fr.qualname} treated as opaque text (assumed total, effect-free)'
                    if note not in self.ctx.notes:
                        self.ctx.notes.append(note)
                    opaque = True
                    parts.append(VStr(self.ctx.fresh('fpart'), 'opaque'))
                    continue
                if isinstance(x, (int, str)) and not isinstance(x, bool) and v.format_spec is None and v.conversion == -1:
                    parts.append(str(x))
                elif isinstance(x, VStr) and getattr(x, 'parts', None) is not None and v.format_spec is None and v.conversion == -1:
                    parts.extend(x.parts)
                    opaque = True
                else:
                    opaque = True
                    parts.append(x if v.format_spec is None and v.conversion == -1 else VStr(self.ctx.fresh('fpart'), 'formatted'))
        if not opaque:
            return ''.join(parts)
        merged = []
        for p_ in parts:
            if isinstance(p_, str) and merged and isinstance(merged[-1], str):
                merged[-1] += p_
            else:
                merged.append(p_)
        r = VStr(self.ctx.fresh('fstr'), 'fstr')
        r.parts = merged
        return r

    def ex_Tuple(self, e, fr):
        return VTuple([self.eval(x, fr) for x in e.elts])

    def ex_List(self, e, fr):
        return VList([self.eval(x, fr) for x in e.elts])

    def ex_Set(self, e, fr):
        return VTuple([self.eval(x, fr) for x in e.elts])

    def ex_Dict(self, e, fr):
        if not e.keys:
            return VDict()
        d = VDict()
        spread = False
        for k, v in zip(e.keys, e.values):
            if k is None:
                # {**other}: the mapping is evaluated (its own obligations), the literal becomes an unconstrained value
                if not self.sweep_mode():
                    raise Unsupported('dict literal with ** spread')
                self.eval(v, fr)
                spread = True
                continue
            d.set(self.eval(k, fr), self.eval(v, fr))
        if spread:
            return opaque_like(self.ctx, f'dict@{getattr(e, "lineno", "?")}')
        return d

    def ex_Lambda(self, e, fr):
        return VFunc(e, fr, f'{fr.qualname}.<lambda>', module=fr.module)

    def ex_Await(self, e, fr):
        return self.eval(e.value, fr)

    def ex_Yield(self, e, fr):
        v = self.eval(e.value, fr) if e.value is not None else None
        self.do_yield(v, fr, e)
        return None

    def do_yield(self, v, fr, node):
        ctx = self.ctx
        c = fr.contract
        ctx.yielded.append(v)
        if c is not None and c.yields:
            for k, cl in enumerate(c.yields):
                f = self.spec_eval(cl, fr, {'value': v})
                ctx.oblige(f'yields:{k}', 'post', f, cl, node.lineno)
        if c is not None and c.on_yield:
            c.on_yield(self, fr, v)

    def ex_IfExp(self, e, fr):
        c = truthy(self.ctx, self.eval(e.test, fr))
        if self.ctx.spec_mode:
            if isinstance(c, bool):
                return self.eval(e.body if c else e.orelse, fr)
            return z_ite(c, self.eval(e.body, fr), self.eval(e.orelse, fr))
        if self.ctx.branch(c):
            return self.eval(e.body, fr)
        return self.eval(e.orelse, fr)

    def ex_BoolOp(self, e, fr):
        ctx = self.ctx
        if ctx.spec_mode:
            vals = []
            for x in e.values:
                v = truthy(ctx, self.eval(x, fr))
                if isinstance(e.op, ast.And) and v is False:
                    return False
                if isinstance(e.op, ast.Or) and v is True:
                    return True
                vals.append(v)
            return simp(z_and(*vals) if isinstance(e.op, ast.And) else z_or(*vals))
        if fr.contract is not None and fr.contract.pure_calls and all(self._pure(x, fr) for x in e.values):
            # operands are declared pure and total: no short-circuit fork needed
            vals = [truthy(ctx, self.eval(x, fr)) for x in e.values]
            return simp(z_and(*vals) if isinstance(e.op, ast.And) else z_or(*vals))
        # Python semantics: value of the deciding operand
        v = None
        for k, x in enumerate(e.values):
            v = self.eval(x, fr)
            if k == len(e.values) - 1:
                return v
            t = ctx.branch(truthy(ctx, v))
            if isinstance(e.op, ast.And) and not t:
                return v
            if isinstance(e.op, ast.Or) and t:
                return v
        return v

    def ex_UnaryOp(self, e, fr):
        v = self.eval(e.operand, fr)
        if isinstance(e.op, ast.Not):
            return simp(z_not(truthy(self.ctx, v)))
        if isinstance(e.op, ast.USub):
            return simp(-v) if is_sym(v) else -v
        if isinstance(e.op, ast.UAdd):
            return v
        if isinstance(e.op, ast.Invert):
            return simp(-v - 1) if is_sym(v) else ~v
        raise Unsupported('unary op')

    def ex_BinOp(self, e, fr):
        a = self.eval(e.left, fr)
        b = self.eval(e.right, fr)
        return self.binop(type(e.op), a, b, e)

    def binop(self, op, a, b, node):
        ctx = self.ctx
        if isinstance(a, VIte) or isinstance(b, VIte):
            return lift2(a, b, lambda x, y: self.binop(op, x, y, node))
        if isinstance(a, VObj) and 'int!' in a.fields:
            a = a.fields['int!']
        if isinstance(b, VObj) and 'int!' in b.fields:
            b = b.fields['int!']
        if isinstance(a, bool) and not is_sym(a):
            a = int(a)
        if isinstance(b, bool) and not is_sym(b):
            b = int(b)
        if is_sym(a) and z3.is_bool(a):
            a = z3.If(a, 1, 0)
        if is_sym(b) and z3.is_bool(b):
            b = z3.If(b, 1, 0)
        # bytes
        if isinstance(a, VBytes) or isinstance(b, VBytes):
            if op is ast.Add and isinstance(a, VBytes) and isinstance(b, VBytes):
                return a.concat(b)
            if op is ast.Mult:
                seq, n = (a, b) if isinstance(a, VBytes) else (b, a)
                if isinstance(n, int):
                    out = VBytes([])
                    for _ in range(n):
                        out = out.concat(seq)
                    return out
            if op is ast.Mod:
                return VStr(ctx.fresh('fmt'), 'fmt')
            raise Unsupported(f'bytes operator {op.__name__} line {node.lineno}')
        if isinstance(a, (VList, VTuple)) and isinstance(b, (VList, VTuple)) and op is ast.Add:
            return type(a)(list(a.items) + list(b.items))
        if isinstance(a, VSeq) or isinstance(b, VSeq):
            if op is ast.Add and isinstance(a, VSeq) and isinstance(b, VSeq):
                la = a.length
                return VSeq(simp(a.length + b.length), lambda i: z_ite(simp(to_z3(i) < to_z3(la)), a.elem(i), b.elem(simp(i - la))), a.name + '+' + b.name)
            raise Unsupported('sequence operator')
        if isinstance(a, (str, VStr)) or isinstance(b, (str, VStr)):
            if isinstance(a, str) and isinstance(b, str) and op is ast.Add:
                return a + b
            if isinstance(a, str) and op is ast.Mod and not _has_sym(b):
                try:
                    return a % _to_py(b)
                except Exception:
                    pass
            return VStr(ctx.fresh('str'), 'strop')
        if isinstance(a, (VList, VTuple)) and op is ast.Mult and isinstance(b, int):
            return type(a)(list(a.items) * b)
        if (is_opaque(a) or is_opaque(b)) and self.sweep_mode():
            # an operand is the unconstrained result of an assumed callee: so is the result (types assumed right)
            return opaque_like(ctx, f'{op.__name__}@{getattr(node, "lineno", "?")}')
        if not (is_sym(a) or isinstance(a, (int, float))) or not (is_sym(b) or isinstance(b, (int, float))):
            raise Unsupported(f'operator {op.__name__} on {type(a).__name__}/{type(b).__name__} line {getattr(node, "lineno", "?")}')
        conc = not is_sym(a) and not is_sym(b)
        realish = is_real(a) or is_real(b)
        if op is ast.Add:
            return a + b if conc else simp((to_real(a) + to_real(b)) if realish else a + b)
        if op is ast.Sub:
            return a - b if conc else simp((to_real(a) - to_real(b)) if realish else a - b)
        if op is ast.Mult:
            return a * b if conc else simp((to_real(a) * to_real(b)) if realish else a * b)
        if op is ast.Div:
            z = simp(to_real(b) == 0) if is_sym(b) else (b == 0)
            if not ctx.spec_mode and ctx.branch(z):
                raise exc(ZeroDivisionError)
            if conc:
                return a / b
            return simp(to_real(a) / to_real(b))
        if op in (ast.FloorDiv, ast.Mod):
            if realish:
                raise Unsupported('float // or %')
            z = simp(b == 0) if is_sym(b) else (b == 0)
            if not ctx.spec_mode and ctx.branch(z):
                raise exc(ZeroDivisionError)
            if conc:
                return a // b if op is ast.FloorDiv else a % b
            if is_sym(b):
                # z3 div/mod are Euclidean: equal to Python's floor semantics only for b > 0
                if not ctx.spec_mode:
                    ctx.oblige('arith:divisor-positive', 'rte', b > 0, 'symbolic divisor must be positive for the div/mod encoding', getattr(node, 'lineno', 0))
            elif b < 0:
                raise Unsupported('negative constant divisor')
            return simp(to_z3(a) / to_z3(b)) if op is ast.FloorDiv else simp(to_z3(a) % to_z3(b))
        if op is ast.LShift:
            if conc:
                return a << b
            if isinstance(b, int):
                return simp(a * (1 << b))
            return self.bv_op(op, a, b)
        if op is ast.RShift:
            if conc:
                return a >> b
            if isinstance(b, int):
                return simp(to_z3(a) / (1 << b))
            return self.bv_op(op, a, b)
        if op is ast.BitAnd:
            if conc:
                return a & b
            if isinstance(b, int) and b >= 0:
                return bit_and_const(a, b)
            if isinstance(a, int) and a >= 0:
                return bit_and_const(b, a)
            return self.bv_op(op, a, b)
        if op is ast.BitOr:
            if conc:
                return a | b
            if isinstance(b, int) and b >= 0:
                return simp(a + b - bit_and_const(a, b))
            if isinstance(a, int) and a >= 0:
                return simp(a + b - bit_and_const(b, a))
            return self.bv_op(op, a, b)
        if op is ast.BitXor:
            if conc:
                return a ^ b
            if isinstance(b, int) and b >= 0:
                return simp(a + b - 2 * bit_and_const(a, b))
            if isinstance(a, int) and a >= 0:
                return simp(a + b - 2 * bit_and_const(b, a))
            return self.bv_op(op, a, b)
        if op is ast.Pow:
            if conc:
                return a**b
            if isinstance(a, int) and a == 2:
                raise Unsupported('2**symbolic')
        raise Unsupported(f'operator {op.__name__}')

    BV_WIDTH = 72

    def bv_op(self, op, a, b):
        """both operands symbolic: bit-vector of width 72 with a side obligation 0 <= a, b < 2**64"""
        ctx = self.ctx
        w = self.BV_WIDTH
        lim = 1 << 64
        if not ctx.spec_mode:
            ctx.oblige('arith:bv-range', 'rte', z_and(to_z3(a) >= 0, to_z3(a) < lim, to_z3(b) >= 0, to_z3(b) < lim), 'operands of a symbolic bit operation are within 64 bits')
        x, y = z3.Int2BV(to_z3(a), w), z3.Int2BV(to_z3(b), w)
        if op is ast.BitAnd:
            r = x & y
        elif op is ast.BitOr:
            r = x | y
        elif op is ast.BitXor:
            r = x ^ y
        elif op is ast.LShift:
            if not ctx.spec_mode:
                ctx.oblige('arith:shift-range', 'rte', to_z3(b) <= 8, 'symbolic shift amount <= 8')
            r = x << y
        else:
            r = z3.LShR(x, y)
        return z3.BV2Int(r, False)

    def ex_Compare(self, e, fr):
        left = self.eval(e.left, fr)
        out = []
        for op, rn in zip(e.ops, e.comparators):
            right = self.eval(rn, fr)
            out.append(self.compare(type(op), left, right, e, fr))
            left = right
        if len(out) == 1:
            return out[0]
        return simp(z_and(*out))

    def compare(self, op, a, b, node, fr=None):
        if isinstance(a, VIte) or isinstance(b, VIte):
            return lift2(a, b, lambda x, y: self.compare(op, x, y, node, fr))
        if op is ast.Is or op is ast.IsNot:
            r = self.identical(a, b)
            return r if op is ast.Is else simp(z_not(r))
        if op is ast.In or op is ast.NotIn:
            r = self.contains(b, a, node)
            return r if op is ast.In else simp(z_not(r))
        if op is ast.Eq or op is ast.NotEq:
            r = self.equals(a, b, node)
            return r if op is ast.Eq else simp(z_not(r))
        if isinstance(a, bool):
            a = int(a)
        if isinstance(b, bool):
            b = int(b)
        if isinstance(a, VObj) and 'int!' in a.fields:
            a = a.fields['int!']
        if isinstance(b, VObj) and 'int!' in b.fields:
            b = b.fields['int!']
        if not (is_sym(a) or isinstance(a, (int, float))) or not (is_sym(b) or isinstance(b, (int, float))):
            raise Unsupported(f'ordering comparison on {type(a).__name__}/{type(b).__name__} line {getattr(node, "lineno", "?")}')
        if not is_sym(a) and not is_sym(b):
            return {ast.Lt: a < b, ast.LtE: a <= b, ast.Gt: a > b, ast.GtE: a >= b}[op]
        if is_real(a) or is_real(b):
            a, b = to_real(a), to_real(b)
        else:
            a, b = to_z3(a), to_z3(b)
        return simp({ast.Lt: a < b, ast.LtE: a <= b, ast.Gt: a > b, ast.GtE: a >= b}[op])

    def opaque_cmp(self, kind, a, b):
        """comparison involving the unconstrained result of an assumed callee: an unconstrained (memoised) boolean"""
        o, c = (a, b) if is_opaque(a) else (b, a)
        memo = o.fields.setdefault('cmp!', {})
        try:
            key = (kind, id(c) if isinstance(c, (VObj, VBytes, VTuple, VList)) else repr(c))
        except Exception:
            key = (kind, id(c))
        if key not in memo:
            memo[key] = self.ctx.fresh(f'{kind}({o.name})', z3.BoolSort())
        return memo[key]

    def identical(self, a, b):
        if (is_opaque(a) or is_opaque(b)) and a is not b:
            return self.opaque_cmp('is', a, b)
        if a is None or b is None:
            if is_sym(a) or is_sym(b):
                return False
            if isinstance(a, VObj) and 'none!' in a.fields:
                return a.fields['none!']
            if isinstance(b, VObj) and 'none!' in b.fields:
                return b.fields['none!']
            return a is b
        if isinstance(a, VObj) and isinstance(b, VObj):
            if a is b:
                return True
            if 'id!' in a.fields and 'id!' in b.fields:
                return simp(to_z3(a.fields['id!']) == to_z3(b.fields['id!']))
            return False
        if isinstance(a, VObj) or isinstance(b, VObj):
            o, c = (a, b) if isinstance(a, VObj) else (b, a)
            single = o.fields.get('is!')
            if single is not None:
                return single(c)
            return False
        if isinstance(a, bool) or isinstance(b, bool):
            if is_sym(a) or is_sym(b):
                return simp(to_z3(a) == to_z3(b))
            return a is b
        if is_sym(a) or is_sym(b):
            return self.equals(a, b, None)
        return a is b

    def equals(self, a, b, node):
        if (is_opaque(a) or is_opaque(b)) and a is not b:
            return self.opaque_cmp('eq', a, b)
        if isinstance(a, VBytes) and isinstance(b, (bytes, bytearray)):
            b = VBytes.lit(b)
        if isinstance(b, VBytes) and isinstance(a, (bytes, bytearray)):
            a = VBytes.lit(a)
        if isinstance(a, VBytes) and a.kind == 'str' and isinstance(b, str):
            b = VBytes([Piece('lit', bytes(ord(ch) for ch in b))], 'str') if all(ord(ch) < 256 for ch in b) else b
        if isinstance(b, VBytes) and b.kind == 'str' and isinstance(a, str):
            a = VBytes([Piece('lit', bytes(ord(ch) for ch in a))], 'str') if all(ord(ch) < 256 for ch in a) else a
        if isinstance(a, VBytes) and isinstance(b, VBytes):
            return bytes_eq(a, b)
        if isinstance(a, VBytes) or isinstance(b, VBytes):
            return False
        if a is None or b is None:
            return self.identical(a, b)
        if isinstance(a, (VTuple, VList)) or isinstance(b, (VTuple, VList)):
            if isinstance(a, (tuple, list)):
                a = VTuple(a)
            if isinstance(b, (tuple, list)):
                b = VTuple(b)
            if not isinstance(a, (VTuple, VList)) or not isinstance(b, (VTuple, VList)):
                return False
            if len(a.items) != len(b.items):
                return False
            return simp(z_and(*[self.equals(x, y, node) for x, y in zip(a.items, b.items)]))
        if isinstance(a, VObj) and 'int!' in a.fields:
            a = a.fields['int!']
        if isinstance(b, VObj) and 'int!' in b.fields:
            b = b.fields['int!']
        if isinstance(a, VObj) or isinstance(b, VObj):
            if isinstance(a, VObj) and isinstance(b, VObj):
                if 'eq!' in a.fields:
                    return a.fields['eq!'](self, a, b)
                return self.identical(a, b)
            o, c = (a, b) if isinstance(a, VObj) else (b, a)
            if 'eq!' in o.fields:
                return o.fields['eq!'](self, o, c)
            return False
        if isinstance(a, VStr) or isinstance(b, VStr):
            if isinstance(a, VStr) and isinstance(b, VStr):
                return simp(a.ident == b.ident)
            s, c = (a, b) if isinstance(a, VStr) else (b, a)
            if isinstance(c, str):
                return simp(s.ident == _str_id(c))
            return False
        if is_sym(a) or is_sym(b):
            if isinstance(a, (str, bytes)) or isinstance(b, (str, bytes)):
                return False
            if isinstance(a, bool) and is_sym(b) and z3.is_int(b):
                a = int(a)
            if isinstance(b, bool) and is_sym(a) and z3.is_int(a):
                b = int(b)
            za, zb = to_z3(a), to_z3(b)
            if z3.is_bool(za) != z3.is_bool(zb):
                za = z3.If(za, 1, 0) if z3.is_bool(za) else za
                zb = z3.If(zb, 1, 0) if z3.is_bool(zb) else zb
            if z3.is_real(za) or z3.is_real(zb):
                za, zb = to_real(za), to_real(zb)
            return simp(za == zb)
        try:
            return bool(a == b)
        except Exception:
            raise Unsupported(f'== on {type(a).__name__}/{type(b).__name__}')

    def contains(self, container, item, node):
        if isinstance(container, (VTuple, VList)):
            return simp(z_or(*[self.equals(item, x, node) for x in container.items]))
        if isinstance(container, VDict):
            return container.has(self, item)
        if isinstance(container, (tuple, list, set, frozenset, dict)):
            keys = list(container)
            if not _has_sym(item) and not isinstance(item, (VObj, VStr)):
                try:
                    return _to_py(item) in container
                except TypeError:
                    pass
            return simp(z_or(*[self.equals(item, x, node) for x in keys]))
        if isinstance(container, VSeq) and container.contains is not None:
            return container.contains(item)
        if isinstance(container, VObj) and 'contains!' in container.fields:
            return container.fields['contains!'](self, container, item)
        if isinstance(container, VBytes) and container.kind == 'str' and isinstance(item, str) and len(item) == 1:
            # text as a view of code points: some position holds that character
            n = container.length()
            code = ord(item)
            if isinstance(n, int) and n <= 64:
                return simp(z_or(*[to_z3(container.at(i)) == code for i in range(n)]))
            k = z3.Int('k!in')
            if container.is_single_view():
                # absolute positions (same form as the split axiom and the contract clauses)
                pc_ = container.pieces[0]
                return z3.Exists([k], z3.And(k >= to_z3(pc_.off), k < to_z3(pc_.off) + to_z3(n), z3.Select(pc_.arr(), k) == code))
            return z3.Exists([k], z3.And(k >= 0, k < to_z3(n), to_z3(container.at(k)) == code))
        if isinstance(container, VBytes) and is_int(item):
            n = container.length()
            if isinstance(n, int) and n <= 64:
                return simp(z_or(*[to_z3(container.at(i)) == to_z3(item) for i in range(n)]))
        if isinstance(container, str) and isinstance(item, str):
            return item in container
        if (is_opaque(container) or is_opaque(item) or isinstance(container, VStr) or isinstance(item, VStr)) and self.sweep_mode():
            return self.ctx.fresh(f'in@{getattr(node, "lineno", "?")}', z3.BoolSort())
        raise Unsupported(f'`in` on {type(container).__name__} line {getattr(node, "lineno", "?")}')

    # ----------------------------------------------------------------- attribute / subscript
    def ex_Attribute(self, e, fr):
        o = self.eval(e.value, fr)
        return self.getattr(o, e.attr, fr, e)

    def getattr(self, o, name, fr, node=None):
        if isinstance(o, VIte):
            return lift(o, lambda x: self.getattr(x, name, fr, node))
        if isinstance(o, VObj):
            if name in o.fields:
                return o.fields[name]
            if o.cls is not None:
                import inspect

                try:
                    raw = inspect.getattr_static(o.cls, name)
                except AttributeError:
                    raise Unsupported(f'{o!r} has no field/attribute {name} (line {getattr(node, "lineno", "?")})')
                if isinstance(raw, property):
                    return self.call_real(raw.fget, [o], {}, fr, node, f'{o.cls.__name__}.{name}')
                if isinstance(raw, staticmethod):
                    return raw.__func__
                if isinstance(raw, classmethod):
                    return VBound(o.cls, raw.__func__, name)
                if callable(raw) and hasattr(raw, '__code__'):
                    return VBound(o, raw, name)
                return _wrap_const(raw)
            if o.fields.get('opaque!'):
                # attribute of the unconstrained result of an assumed callee: unconstrained again
                v = VObj(None, {'opaque!': True, 'bool!': self.ctx.fresh(f'truth({o.name}.{name})', z3.BoolSort())}, f'{o.name}.{name}')
                o.fields[name] = v
                return v
            raise Unsupported(f'{o!r} has no field {name} (line {getattr(node, "lineno", "?")})')
        if isinstance(o, VExc):
            if name == 'args':
                return VTuple(o.args)
            if name in ('code', 'subcode', 'data') and len(o.args) >= 2:
                return {'code': o.args[0], 'subcode': o.args[1], 'data': o.args[2] if len(o.args) > 2 else ''}[name]
            if name == 'errno':
                return o.args[0] if o.args else None
            raise Unsupported(f'exception attribute {name}')
        import enum as _enum

        if isinstance(o, _enum.Enum) and name in ('value', 'name'):
            return getattr(o, name)
        if isinstance(o, (VBytes, VList, VTuple, VSeq, VDict, VStr, str, dict, list, tuple, set, frozenset)) or (isinstance(o, type) and o in (int, bytes, str, dict)):
            return VBound(o, None, name)
        if is_sym(o):
            return VBound(o, None, name)
        if isinstance(o, (VFunc, VBound)):
            raise Unsupported('attribute of function')
        # concrete live object (module, class, constant)
        try:
            raw = getattr(o, name)
        except AttributeError:
            raise Unsupported(f'live object {o!r} has no attribute {name}')
        return _wrap_const(raw)

    def ex_Subscript(self, e, fr):
        o = self.eval(e.value, fr)
        if isinstance(e.slice, ast.Slice):
            lo = self.eval(e.slice.lower, fr) if e.slice.lower is not None else None
            hi = self.eval(e.slice.upper, fr) if e.slice.upper is not None else None
            if e.slice.step is not None:
                raise Unsupported('slice step')
            return self.getslice(o, lo, hi, e)
        k = self.eval(e.slice, fr)
        return self.getitem(o, k, e)

    def eval_index(self, sl, fr):
        if isinstance(sl, ast.Slice):
            return ('slice', self.eval(sl.lower, fr) if sl.lower is not None else None, self.eval(sl.upper, fr) if sl.upper is not None else None)
        return self.eval(sl, fr)

    def norm_index(self, i, n):
        """Python index normalisation for negative constants"""
        if isinstance(i, int) and i < 0:
            return simp(n + i)
        return i

    def clamp(self, i, n, default):
        """Python slice bound normalisation: returns expr in [0, n]"""
        if i is None:
            return default
        if isinstance(i, int) and isinstance(n, int):
            if i < 0:
                i += n
            return max(0, min(i, n))
        if isinstance(i, int):
            if i < 0:
                x = simp(to_z3(n) + i)
                return simp(z3.If(x < 0, 0, x))
            if i == 0:
                return 0
            return simp(z3.If(to_z3(n) < i, to_z3(n), z3.IntVal(i)))
        i = to_z3(i)
        nn = to_z3(n)
        # negative symbolic indices: Python adds n; we fork nothing, encode exactly
        x = z3.If(i < 0, z3.If(i + nn < 0, z3.IntVal(0), i + nn), z3.If(i > nn, nn, i))
        return simp(x)

    def getslice(self, o, lo, hi, node):
        if isinstance(o, VIte):
            return lift(o, lambda x: self.getslice(x, lo, hi, node))
        if isinstance(o, VBytes) and getattr(o, 'unbounded', False):
            return o.slice(lo if lo is not None else 0, hi)
        if isinstance(o, VBytes):
            n = o.length()
            a = self.clamp(lo, n, 0)
            b = self.clamp(hi, n, n)
            # python: empty when b < a
            if isinstance(a, int) and isinstance(b, int):
                b = max(a, b)
            else:
                b2 = simp(z3.If(to_z3(b) < to_z3(a), to_z3(a), to_z3(b)))
                b = b2
            return o.slice(a, b)
        if isinstance(o, (VList, VTuple)):
            if (lo is None or isinstance(lo, int)) and (hi is None or isinstance(hi, int)):
                return type(o)(o.items[lo:hi])
            raise Unsupported('symbolic slice of a static list')
        if isinstance(o, VSeq):
            n = o.length
            a = self.clamp(lo, n, 0)
            b = self.clamp(hi, n, n)
            b = simp(z3.If(to_z3(b) < to_z3(a), to_z3(a), to_z3(b)))
            return VSeq(simp(b - a), lambda i, _a=a: o.elem(simp(_a + i)), o.name + '[:]')
        if isinstance(o, VStr):
            f = z3.Function('substr', I, I, I, I)
            return VStr(f(o.ident, to_z3(lo if lo is not None else 0), to_z3(hi if hi is not None else -1)), 'substr')
        if isinstance(o, (bytes, str, tuple, list)) and (lo is None or isinstance(lo, int)) and (hi is None or isinstance(hi, int)):
            r = o[lo:hi]
            return VBytes.lit(r) if isinstance(r, bytes) else r
        raise Unsupported(f'slice of {type(o).__name__} line {node.lineno}')

    def getitem(self, o, k, node):
        ctx = self.ctx
        if isinstance(o, VIte):
            return lift(o, lambda x: self.getitem(x, k, node))
        if isinstance(k, VObj) and 'int!' in k.fields:
            k = k.fields['int!']
        if isinstance(o, VBytes):
            n = o.length()
            k = self.norm_index(k, n)
            ok = simp(z_and(to_z3(k) >= 0, to_z3(k) < to_z3(n)))
            if not ctx.spec_mode and not ctx.branch(ok):
                raise exc(IndexError, 'index out of range')
            return o.at(k)
        if isinstance(o, (VList, VTuple)):
            if isinstance(k, int):
                if not -len(o.items) <= k < len(o.items):
                    raise exc(IndexError, 'list index out of range')
                return o.items[k]
            n = len(o.items)
            ok = simp(z_and(to_z3(k) >= 0, to_z3(k) < n))
            if not ctx.spec_mode and not ctx.branch(ok):
                raise exc(IndexError, 'index out of range')
            if n == 0:
                raise exc(IndexError)
            r = o.items[-1]
            for j in range(n - 2, -1, -1):
                r = z_ite(simp(to_z3(k) == j), o.items[j], r)
            return r
        if isinstance(o, VSeq):
            k = self.norm_index(k, o.length)
            ok = simp(z_and(to_z3(k) >= 0, to_z3(k) < to_z3(o.length)))
            if not ctx.spec_mode and not ctx.branch(ok):
                raise exc(IndexError, 'list index out of range')
            return o.elem(k)
        if isinstance(o, VDict):
            return o.get_item(self, k)
        if isinstance(o, dict):
            return self.concrete_dict_get(o, k, None, True)
        if isinstance(o, (tuple, list, bytes, str)):
            if isinstance(k, int):
                try:
                    r = o[k]
                except IndexError:
                    raise exc(IndexError)
                return _wrap_const(r)
            n = len(o)
            ok = simp(z_and(to_z3(k) >= 0, to_z3(k) < n))
            if not ctx.spec_mode and not ctx.branch(ok):
                raise exc(IndexError)
            r = _wrap_const(o[-1])
            for j in range(n - 2, -1, -1):
                r = z_ite(simp(to_z3(k) == j), _wrap_const(o[j]), r)
            return r
        if isinstance(o, VObj) and 'getitem!' in o.fields:
            return o.fields['getitem!'](self, o, k)
        if is_opaque(o) and self.sweep_mode():
            r = opaque_like(self.ctx, f'{o.name}[]')
            if o.fields.get('text!'):
                r.fields['text!'] = True
            return r
        raise Unsupported(f'subscript of {type(o).__name__} line {node.lineno}')

    def concrete_dict_get(self, d, k, default, raise_missing):
        """lookup of a possibly symbolic key in a live dict (class tables)"""
        ctx = self.ctx
        if isinstance(k, VTuple) and not _has_sym(k):
            k = _to_py(k)
        if not _has_sym(k) and not isinstance(k, (VObj, VStr, VTuple)):
            try:
                if k in d:
                    return _wrap_const(d[k])
            except TypeError:
                pass
            if raise_missing:
                raise exc(KeyError, k)
            return default
        if ctx.spec_mode:
            r = default
            for key in reversed(list(d)):
                r = z_ite(self.equals(k, _wrap_const(key), None), _wrap_const(d[key]), r)
            return r
        for key in d:
            if ctx.branch(self.equals(k, _wrap_const(key), None)):
                return _wrap_const(d[key])
        if raise_missing:
            raise exc(KeyError, k)
        return default

    def setitem(self, o, k, v, node):
        ctx = self.ctx
        if isinstance(o, VDict):
            o.set(k, v, self)
            return
        if isinstance(o, VList) and isinstance(k, int):
            if not -len(o.items) <= k < len(o.items):
                raise exc(IndexError)
            o.items[k] = v
            return
        if isinstance(o, VObj) and 'setitem!' in o.fields:
            return o.fields['setitem!'](self, o, k, v)
        raise Unsupported(f'subscript store on {type(o).__name__} (line {node.lineno})')

    # ----------------------------------------------------------------- comprehension (static only)
    def ex_ListComp(self, e, fr):
        return self.ex_GeneratorExp(e, fr)

    def ex_GeneratorExp(self, e, fr):
        if len(e.generators) == 1 and self.sweep_mode():
            it0 = self.eval(e.generators[0].iter, fr)
            if is_opaque(it0):
                # a comprehension over an unconstrained value: an unconstrained collection (the element expression is not
                # evaluated: whatever it could raise is part of the assumption recorded for the value's producer)
                return opaque_like(self.ctx, f'comprehension@{getattr(e, "lineno", "?")}')
        if len(e.generators) == 1 and not e.generators[0].ifs:
            it = self.eval(e.generators[0].iter, fr)
            if isinstance(it, VBytes) and not isinstance(it.length(), int):
                it = VSeq(it.length(), lambda i, _b=it: _b.at(i), 'bytes')
            if isinstance(it, VSeq):
                g = e.generators[0]

                def elem(i, _it=it):
                    sub = Frame(fr.globs, {}, fr, fr.contract, fr.module, fr.qualname)
                    self.assign(g.target, _it.elem(i), sub)
                    return self.eval(e.elt, sub)

                return VSeq(it.length, elem, 'genexp')
        return VList(self._comp(e, fr))

    def ex_SetComp(self, e, fr):
        return VTuple(self._comp(e, fr))

    def _comp(self, e, fr):
        if len(e.generators) != 1:
            raise Unsupported('nested comprehension')
        g = e.generators[0]
        it = self.eval(g.iter, fr)
        if isinstance(it, range):
            items = list(it)
        else:
            items = self.iter_static(it)
        out = []
        sub = Frame(fr.globs, {}, fr, fr.contract, fr.module, fr.qualname)
        for v in items:
            self.assign(g.target, v, sub)
            ok = True
            for cond in g.ifs:
                c = truthy(self.ctx, self.eval(cond, sub))
                if self.ctx.spec_mode:
                    if not isinstance(c, bool):
                        raise Unsupported('symbolic filter in spec comprehension')
                    ok = ok and c
                elif not self.ctx.branch(c):
                    ok = False
                    break
            if ok:
                out.append(self.eval(e.elt, sub))
        return out

    # ----------------------------------------------------------------- calls
    def ex_Call(self, e, fr):
        from .calls import do_call

        return do_call(self, e, fr)

    def call_real(self, func, args, kwargs, fr, node, label):
        from .calls import call_real

        return call_real(self, func, args, kwargs, fr, node, label)

    def call_func(self, f, args, kwargs, node=None):
        """inline a VFunc"""
        from .calls import call_vfunc

        return call_vfunc(self, f, args, kwargs, node)


def subview_formula(v, base):
    """v is a window into the same underlying array as base (structural) within its bounds (formula)"""
    if not isinstance(v, VBytes) or not isinstance(base, VBytes):
        return False
    if not v.pieces:
        return True
    if len(v.pieces) != 1 or len(base.pieces) != 1:
        return False
    p, b = v.pieces[0], base.pieces[0]
    if p.kind != 'view' or b.kind != 'view':
        return False
    same = p.a is b.a or (is_sym(p.a) and is_sym(b.a) and z3.eq(p.a, b.a))
    if not same:
        return False
    return simp(z_and(to_z3(p.off) >= to_z3(b.off), to_z3(p.off) + to_z3(p.len) <= to_z3(b.off) + to_z3(b.len), to_z3(p.len) >= 0))


class VIterDone:
    def __init__(self, seq):
        self.seq = seq


class VDict:
    """dict with statically known key set (meta level): list of (key, value) in insertion order; keys compared with
    the interpreter's equality so symbolic keys fork."""

    def __init__(self):
        self.items = []

    def _find(self, it, k, fork=True):
        for idx, (kk, _) in enumerate(self.items):
            c = it.equals(k, kk, None)
            if it.ctx.spec_mode:
                if c is True:
                    return idx
                if c is not False:
                    raise Unsupported('symbolic key in spec mode')
            elif it.ctx.branch(c):
                return idx
        return None

    def has(self, it, k):
        return simp(z_or(*[it.equals(k, kk, None) for kk, _ in self.items]))

    def get_item(self, it, k):
        idx = self._find(it, k)
        if idx is None:
            raise exc(KeyError, k)
        return self.items[idx][1]

    def get(self, it, k, default=None):
        idx = self._find(it, k)
        return default if idx is None else self.items[idx][1]

    def set(self, k, v, it=None):
        if it is not None:
            idx = self._find(it, k)
            if idx is not None:
                self.items[idx] = (self.items[idx][0], v)
                return
        self.items.append((k, v))


# ---------------------------------------------------------------------------------------- ast helpers

_expr_cache = {}


def _parse_expr(src):
    n = _expr_cache.get(src)
    if n is None:
        n = ast.parse(src.strip(), mode='eval').body
        _expr_cache[src] = n
    return n


def _as_load(t):
    import copy

    t2 = copy.deepcopy(t)
    for n in ast.walk(t2):
        if hasattr(n, 'ctx'):
            n.ctx = ast.Load()
    return t2


def _target_names(t):
    out = set()
    for n in ast.walk(t):
        if isinstance(n, ast.Name):
            out.add(n.id)
    return out


def _assigned_names(stmts):
    out = set()
    for s in stmts:
        for n in ast.walk(s):
            if isinstance(n, (ast.FunctionDef, ast.AsyncFunctionDef, ast.Lambda)):
                continue
            if isinstance(n, ast.Assign):
                for t in n.targets:
                    out |= {x.id for x in ast.walk(t) if isinstance(x, ast.Name) and isinstance(x.ctx, ast.Store)}
            elif isinstance(n, (ast.AugAssign, ast.AnnAssign)):
                out |= {x.id for x in ast.walk(n.target) if isinstance(x, ast.Name) and isinstance(x.ctx, ast.Store)}
            elif isinstance(n, (ast.For, ast.AsyncFor)):
                out |= _target_names(n.target)
            elif isinstance(n, ast.ExceptHandler) and n.name:
                out.add(n.name)
            elif isinstance(n, ast.NamedExpr):
                out.add(n.target.id)
            elif isinstance(n, (ast.With, ast.AsyncWith)):
                for it in n.items:
                    if it.optional_vars is not None:
                        out |= _target_names(it.optional_vars)
    return out


def _mutated_names(stmts):
    """local names whose object may be mutated by the statements: receiver of a method call, argument of a call, base of
    a subscript/attribute store"""
    out = set()
    for s in stmts:
        for n in ast.walk(s):
            if isinstance(n, ast.Call):
                f = n.func
                while isinstance(f, (ast.Attribute, ast.Call, ast.Subscript)):
                    f = f.value if not isinstance(f, ast.Call) else f.func
                if isinstance(f, ast.Name) and isinstance(n.func, ast.Attribute):
                    out.add(f.id)
                for a in list(n.args) + [k.value for k in n.keywords]:
                    if isinstance(a, ast.Name):
                        out.add(a.id)
            elif isinstance(n, (ast.Subscript, ast.Attribute)) and isinstance(n.ctx, ast.Store):
                b = n.value
                while isinstance(b, (ast.Attribute, ast.Subscript)):
                    b = b.value
                if isinstance(b, ast.Name):
                    out.add(b.id)
    return out


def _mutated_fields(stmts):
    """(base, attr) of `base.attr.method(...)` calls and `base.attr[...] = ` stores: field containers mutated in place"""
    out = set()
    for s in stmts:
        for n in ast.walk(s):
            t = None
            if isinstance(n, ast.Call) and isinstance(n.func, ast.Attribute):
                t = n.func.value
            elif isinstance(n, ast.Subscript) and isinstance(n.ctx, ast.Store):
                t = n.value
            if isinstance(t, ast.Attribute) and isinstance(t.value, ast.Name):
                out.add((t.value.id, t.attr))
    return out


def _assigned_self_fields(stmts):
    out = set()
    for s in stmts:
        for n in ast.walk(s):
            tgts = []
            if isinstance(n, ast.Assign):
                tgts = n.targets
            elif isinstance(n, (ast.AugAssign, ast.AnnAssign)):
                tgts = [n.target]
            for t in tgts:
                for x in ast.walk(t):
                    if isinstance(x, ast.Attribute) and isinstance(x.value, ast.Name) and x.value.id == 'self' and isinstance(x.ctx, ast.Store):
                        out.add(x.attr)
    return out


def _has_sym(v):
    if is_sym(v):
        return True
    if isinstance(v, (VTuple, VList)):
        return any(_has_sym(x) for x in v.items)
    if isinstance(v, VBytes):
        return v.concrete() is None
    if isinstance(v, (VObj, VStr, VSeq, VIte)):
        return True
    if isinstance(v, (tuple, list)):
        return any(_has_sym(x) for x in v)
    return False


def _to_py(v):
    if isinstance(v, VTuple):
        return tuple(_to_py(x) for x in v.items)
    if isinstance(v, VList):
        return [_to_py(x) for x in v.items]
    if isinstance(v, VBytes):
        return v.concrete()
    return v


def _wrap_const(raw):
    """live Python constant -> interpreter value"""
    if isinstance(raw, (bytes, bytearray)):
        return VBytes.lit(bytes(raw))
    if isinstance(raw, bool) or raw is None:
        return raw
    if isinstance(raw, int) and type(raw) is not int and not isinstance(raw, bool):
        # IntEnum / int subclasses (AFI, SAFI, Message.CODE...) compare as ints
        try:
            import enum

            if isinstance(raw, enum.Enum):
                return int(raw)
        except Exception:
            pass
        return raw
    return raw


_str_ids = {}


def _str_id(s):
    if s not in _str_ids:
        _str_ids[s] = 1000 + len(_str_ids) if s else 0
    return _str_ids[s]
