"""pyvc.replay — turn a counter-model into real objects, call the REAL function on the current tree, and evaluate the
contract clauses natively (the clause text is Python; spec helpers have native twins)."""

from __future__ import annotations

import ast
import copy
import importlib
import json
import os
import traceback

from .contract import PSpec


class NativeEnv(dict):
    pass


def native_value(reg, spec, name, model):
    if not isinstance(spec, PSpec):
        return spec
    k = spec.kind
    if k in ('int', 'bool', 'real'):
        v = model.get(name, 0 if k != 'bool' else False)
        if k == 'int':
            v = int(v)
            if spec.lo is not None:
                v = max(v, spec.lo)
            if spec.hi is not None:
                v = min(v, spec.hi)
        return v
    if k == 'bytes':
        m = model.get(name) or {'hex': ''}
        b = bytes.fromhex(m['hex'])
        if m.get('len', len(b)) > len(b):
            b = b + bytes(m['len'] - len(b))
        if spec.bkind == 'memoryview':
            return memoryview(b)
        if spec.bkind == 'bytearray':
            return bytearray(b)
        return b
    if k == 'str':
        return model.get(name + '!text', 'x')
    if k == 'const':
        return spec.value
    if k == 'obj':
        cls = reg.resolve_class(spec.cls) if isinstance(spec.cls, str) else spec.cls
        if 'int!' in spec.fields:
            o = int.__new__(cls, native_value(reg, spec.fields['int!'], f'{name}.int!', model))
        elif cls is None:
            o = type('Rec', (), {})()
        else:
            try:
                o = cls.__new__(cls)
            except TypeError:
                o = object.__new__(cls)
        for f, fs in spec.fields.items():
            if f.endswith('!'):
                continue
            try:
                object.__setattr__(o, f, native_value(reg, fs, f'{name}.{f}', model))
            except (AttributeError, TypeError):
                pass
        return o
    if k == 'tuple':
        return tuple(native_value(reg, s, f'{name}.{i}', model) for i, s in enumerate(spec.elem))
    raise NotImplementedError(f'native value for {k}')


class _OldRewriter(ast.NodeTransformer):
    def __init__(self):
        self.olds = []

    def visit_Call(self, node):
        if isinstance(node.func, ast.Name) and node.func.id == 'old':
            self.olds.append(node.args[0])
            return ast.copy_location(ast.Name(id=f'old__{len(self.olds) - 1}', ctx=ast.Load()), node)
        return self.generic_visit(node)


def native_helpers():
    def implies(a, b):
        return (not a) or bool(b)

    def iff(a, b):
        return bool(a) == bool(b)

    def forall(f, lo=None, hi=None):
        return all(f(i) for i in range(lo, hi))

    def exists(f, lo=None, hi=None):
        return any(f(i) for i in range(lo, hi))

    def ite(c, a, b):
        return a if c else b

    return {'implies': implies, 'iff': iff, 'forall': forall, 'exists': exists, 'ite': ite}


def eval_clause(src, env, old_env):
    tree = ast.parse(src.strip(), mode='eval')
    rw = _OldRewriter()
    tree = ast.fix_missing_locations(rw.visit(tree))
    e = dict(env)
    for k, node in enumerate(rw.olds):
        e[f'old__{k}'] = eval(compile(ast.fix_missing_locations(ast.Expression(node)), '<old>', 'eval'), dict(old_env))
    return eval(compile(tree, '<clause>', 'eval'), e)


def real_function(reg, c):
    mod = reg.module_for(c.file)
    o = mod
    for p in c.qualname.split('#')[0].split('.'):
        o = getattr(o, p)
    return o, mod


def auto_replay(reg, c, model, clause):
    """generic replay for contracts whose params are scalars/bytes/simple records; returns a dict for the replay file"""
    out = {'function': f'{c.file}:{c.qualname}', 'clause': clause, 'model': model, 'confirmed': False}
    if c.segment:
        out['note'] = 'segment contract: its postcondition is over locals of the real function; no generic native replay (a contract-specific differential replay is used where registered)'
        return out
    try:
        fn, mod = real_function(reg, c)
    except Exception as e:
        out['error'] = f'cannot resolve real function: {e}'
        return out
    import inspect

    try:
        sig = inspect.signature(fn)
        names = list(sig.parameters)
        args = {}
        for n in names:
            if n in c.params:
                args[n] = native_value(reg, c.params[n], n, model)
        ghost = {n: native_value(reg, s, n, model) for n, s in c.ghost.items()}
    except Exception as e:
        out['error'] = f'cannot build native inputs: {e}'
        return out
    env = dict(mod.__dict__)
    env.update(native_helpers())
    env.update(_spec_natives())
    env.update(args)
    env.update(ghost)
    try:
        for src in c.requires:
            if isinstance(src, str) and not eval_clause(src, env, env):
                out['note'] = f'model does not satisfy requires `{src}` natively (loop-cut or over-approximated state)'
                return out
        for name, src in c.lets.items():
            env[name] = eval_clause(src, env, env)
    except Exception as e:
        out['error'] = f'requires/lets not natively evaluable: {e!r}'
        return out
    old_env = dict(env)
    for n, v in list(args.items()) + list(ghost.items()):
        try:
            old_env[n] = copy.deepcopy(v)
        except Exception:
            old_env[n] = v
    patches = []
    try:
        import time as _time

        if 'now' in ghost:
            real_time = _time.time
            _time.time = lambda: ghost['now']
            patches.append(lambda: setattr(_time, 'time', real_time))
        result, raised = None, None
        import signal

        class _ReplayTimeout(BaseException):
            pass

        def _alarm(signum, frame):
            raise _ReplayTimeout()

        old_handler = signal.signal(signal.SIGALRM, _alarm)
        signal.setitimer(signal.ITIMER_REAL, 3.0)
        try:
            r = fn(**args) if not inspect.isgeneratorfunction(fn) else list(fn(**args))
            if inspect.iscoroutine(r):
                import asyncio

                r = asyncio.new_event_loop().run_until_complete(r)
            result = r
        except _ReplayTimeout:
            # the real function did not come back: for a termination (variant) obligation that IS the failing input
            out['observed'] = {'result': None, 'raised': None, 'timeout': 'did not return within 3 s'}
            out['input'] = {n: _show(v) for n, v in list(args.items()) + list(ghost.items())}
            out['failed_natively'] = ['the real function does not terminate on this input'] if clause.startswith('variant') else []
            out['confirmed'] = clause.startswith('variant')
            return out
        except BaseException as e:  # noqa
            raised = e
        finally:
            signal.setitimer(signal.ITIMER_REAL, 0)
            signal.signal(signal.SIGALRM, old_handler)
    finally:
        for p in patches:
            p()
    env['result'] = result
    out['observed'] = {'result': _show(result), 'raised': None if raised is None else f'{type(raised).__name__}{_show(getattr(raised, "args", ()))}'}
    failed = []
    try:
        if raised is None:
            for k, src in enumerate(c.ensures):
                if isinstance(src, str) and not eval_clause(src, env, old_env):
                    failed.append(f'post:{k}: {src}')
            for k, case in enumerate(c.raises):
                if case.get('iff') and eval_clause(case['iff'], env, old_env):
                    failed.append(f'raises:{case["exc"]}:{k}:if — condition holds but the function returned normally')
            if inspect.isgeneratorfunction(fn):
                for v in result:
                    env['value'] = v
                    for k, src in enumerate(c.yields):
                        if isinstance(src, str) and not eval_clause(src, env, old_env):
                            failed.append(f'yields:{k}: {src} (value of {len(v)} bytes)' if hasattr(v, '__len__') else f'yields:{k}: {src}')
        else:
            ok = False
            declared = False
            for k, case in enumerate(c.raises):
                cls = reg.resolve_exc(case['exc'], c)
                if isinstance(raised, cls):
                    declared = True
                    good = True
                    if case.get('args'):
                        exp = eval_clause(case['args'], env, old_env)
                        exp = exp if isinstance(exp, tuple) else (exp,)
                        got = _exc_args(raised)
                        good = all(e is None or (i < len(got) and got[i] == e) for i, e in enumerate(exp))
                    if good and case.get('iff'):
                        good = bool(eval_clause(case['iff'], env, old_env))
                    if good:
                        for j, src in enumerate(case.get('also', ())):
                            if not eval_clause(src, env, old_env):
                                failed.append(f'raises:{case["exc"]}:{k}:also:{j}: {src}')
                    ok = ok or good
            if declared and not ok:
                failed.append(f'raises:{type(raised).__name__}:classified — raised {out["observed"]["raised"]} outside its declared condition')
            if not declared and not any(isinstance(raised, reg.resolve_exc(x, c)) for x in c.escapes):
                failed.append(f'rte:{type(raised).__name__} — {out["observed"]["raised"]} escapes')
    except Exception as e:
        out['error'] = f'clause not natively evaluable: {e!r} {traceback.format_exc()[-300:]}'
        return out
    out['failed_natively'] = failed
    out['confirmed'] = bool(failed)
    out['input'] = {n: _show(v) for n, v in list(args.items()) + list(ghost.items())}
    return out


def _exc_args(e):
    if hasattr(e, 'code') and hasattr(e, 'subcode'):
        return (e.code, e.subcode) + tuple(e.args[2:] if len(e.args) > 2 else ())
    return tuple(e.args)


def _spec_natives():
    out = {}
    specdir = os.path.join(os.path.dirname(os.path.dirname(__file__)), 'spec')
    for fn in sorted(os.listdir(specdir)):
        if fn.endswith('.py') and fn != '__init__.py':
            m = importlib.import_module('spec.' + fn[:-3])
            for k, v in m.__dict__.items():
                if not k.startswith('_') and callable(v):
                    out[k] = v
    return out


def _show(v, depth=0):
    if isinstance(v, (bytes, bytearray, memoryview)):
        b = bytes(v)
        return {'bytes': b.hex() if len(b) <= 256 else b[:256].hex() + '…', 'len': len(b)}
    if isinstance(v, (int, float, str, bool)) or v is None:
        return v
    if isinstance(v, (tuple, list)) and depth < 3:
        return [_show(x, depth + 1) for x in v[:50]]
    if hasattr(v, '__dict__') and depth < 2:
        return {'class': type(v).__name__, **{k: _show(x, depth + 1) for k, x in list(vars(v).items())[:20]}}
    try:
        return repr(v)[:200]
    except Exception:
        return f'<{type(v).__name__}>'


def write_replay(path, data):
    os.makedirs(os.path.dirname(path), exist_ok=True)
    with open(path, 'w') as f:
        json.dump(data, f, indent=1, default=str)
