"""Fragment typing of string-building code: a small path-enumerating abstract interpreter over the REAL AST of the JSON
encoder (reactor/api/response/json.py).  Every expression is given a *fragment kind*:

    text(s)        a concrete string (literal chunks of f-strings, string constants)
    STR            string CONTENT which needs no escaping (hex digits, numbers as text, addresses, names of enums)
    NUM            the text of a JSON number
    VALUE          a complete JSON value
    MEMBERS(keys)  comma separated "key": value members; keys is a set of literal keys or None (unknown); may be empty
    RAW            an arbitrary string (peer chosen text, str() of an unknown object)
    OBJ            not a string (a neighbor, a message object, a dict of fragments ...)

An f-string becomes a *template* (literal chunks and typed holes).  A template is well-formed for a goal (VALUE or
MEMBERS) iff it can be derived in the JSON grammar with each hole standing for its nonterminal: holes inside a string
literal must be STR (or NUM), holes elsewhere must be VALUE / NUM / MEMBERS, and a MEMBERS hole which may be empty must
not sit next to a comma.  JSON is context free, so a derivation with nonterminal holes is a derivation for every
instance of the holes: the result holds for ALL values, peer chosen ones included -- provided the callee kinds (the
contracts in the SPEC table) hold, which are the assumptions listed in the evidence.

Obligations produced per method and per path: the returned template derives the declared kind; object keys which are
literal are pairwise distinct; every literal chunk is ASCII; every json.dumps call uses the default ensure_ascii."""
import ast
import itertools
import os
import re


class Frag:
    def __init__(self, kind, keys=None, empty=None, why=''):
        self.kind, self.keys, self.empty, self.why = kind, keys, empty, why  # empty: True / False / None (unknown)

    def __repr__(self):
        return f'<{self.kind}{"" if self.keys is None else sorted(self.keys)}{"" if self.empty is None else (" empty" if self.empty else " nonempty")}>'


class Tmpl:
    """concatenation of str chunks and Frags"""

    def __init__(self, parts):
        flat = []
        for p in parts:
            if isinstance(p, Tmpl):
                flat.extend(p.parts)
            else:
                flat.append(p)
        merged = []
        for p in flat:
            if isinstance(p, str) and merged and isinstance(merged[-1], str):
                merged[-1] += p
            elif p != '':
                merged.append(p)
        self.parts = merged

    def __repr__(self):
        return 'T' + repr(self.parts)


class Obj:
    def __init__(self, what='object', fields=None):
        self.what, self.fields = what, fields or {}

    def __repr__(self):
        return f'<obj {self.what}>'


class Failure(Exception):
    pass


class Undecided(Exception):
    pass


# ------------------------------------------------------------------------------------------------- JSON derivation
def _lex(tmpl):
    """template -> tokens: '{' '}' '[' ']' ':' ',' ('str', [parts]) ('num', text) ('lit', text) ('hole', Frag)"""
    toks = []
    in_str = False
    cur = None  # parts of the string literal being read
    esc = False
    for p in tmpl.parts:
        if isinstance(p, Frag):
            if in_str:
                if p.kind not in ('STR', 'NUM'):
                    raise Failure(f'a {p.kind} fragment ({p.why}) is spliced inside a JSON string literal: only escaped-safe text may go between quotes')
                cur.append(p)
            else:
                if p.kind not in ('VALUE', 'NUM', 'MEMBERS'):
                    raise Failure(f'a {p.kind} fragment ({p.why}) is spliced where a JSON value or member is expected')
                toks.append(('hole', p))
            continue
        if not p.isascii():
            raise Failure(f'non-ASCII literal text in a template: {p!r}')
        i = 0
        while i < len(p):
            c = p[i]
            if in_str:
                if esc:
                    esc = False
                elif c == '\\':
                    esc = True
                elif c == '"':
                    in_str = False
                    toks.append(('str', cur))
                    cur = None
                    i += 1
                    continue
                elif ord(c) < 0x20:
                    raise Failure('control character inside a JSON string literal of a template')
                cur.append(c)
                i += 1
                continue
            if c in ' \t':
                i += 1
            elif c in '\r\n':
                raise Failure('line break in the literal text of a template (an event is one line)')
            elif c in '{}[]:,':
                toks.append(c)
                i += 1
            elif c == '"':
                in_str = True
                cur = []
                i += 1
            else:
                m = re.match(r'-?\d+(\.\d+)?([eE][-+]?\d+)?|true|false|null', p[i:])
                if not m:
                    raise Failure(f'unexpected literal text {p[i:i + 12]!r} in a template')
                toks.append(('lit', m.group(0)))
                i += m.end()
    if in_str:
        raise Failure('a template ends inside a string literal')
    return toks


class _P:
    def __init__(self, toks):
        self.t, self.i = toks, 0
        self.notes = []

    def peek(self):
        return self.t[self.i] if self.i < len(self.t) else None

    def take(self):
        x = self.peek()
        self.i += 1
        return x

    def value(self):
        x = self.take()
        if x is None:
            raise Failure('template ends where a JSON value is expected')
        if x == '{':
            return self.obj()
        if x == '[':
            return self.arr()
        if isinstance(x, tuple) and x[0] in ('str', 'lit'):
            return
        if isinstance(x, tuple) and x[0] == 'hole' and x[1].kind in ('VALUE', 'NUM'):
            return
        raise Failure(f'{x!r} where a JSON value is expected')

    def arr(self):
        if self.peek() == ']':
            self.take()
            return
        while True:
            self.value()
            x = self.take()
            if x == ']':
                return
            if x != ',':
                raise Failure(f'{x!r} inside an array where "," or "]" is expected')

    def members(self, closing):
        """members up to (not including) `closing` (a token, or None for end of template); returns literal keys"""
        keys, unknown = [], []
        first = True
        while True:
            x = self.peek()
            if x == closing:
                if not first:
                    raise Failure('a comma is followed by nothing (a member list that may be empty next to a separator)')
                return keys, unknown
            first = False
            x = self.take()
            if isinstance(x, tuple) and x[0] == 'hole' and x[1].kind == 'MEMBERS':
                if x[1].empty is not False:
                    # may be empty: only legal when it is the whole list
                    if keys or unknown or self.peek() != closing:
                        raise Failure(f'a member list which may be empty ({x[1].why}) sits next to other members: an empty one leaves a stray comma')
                    return keys, unknown
                if x[1].keys is None:
                    unknown.append(x[1].why)
                else:
                    keys.extend(sorted(x[1].keys))
            elif isinstance(x, tuple) and x[0] == 'str':
                if any(isinstance(c, Frag) for c in x[1]):
                    unknown.append('computed key')
                else:
                    keys.append(''.join(x[1]))
                if self.take() != ':':
                    raise Failure('a key is not followed by ":"')
                self.value()
            else:
                raise Failure(f'{x!r} where an object member is expected')
            x = self.peek()
            if x == closing:
                return keys, unknown
            if x != ',':
                raise Failure(f'{x!r} between members where "," is expected')
            self.take()
            if self.peek() == closing:
                raise Failure('trailing comma in a member list')

    def obj(self):
        keys, unknown = self.members('}')
        self.take()
        dup = sorted({k for k in keys if keys.count(k) > 1})
        if dup:
            raise Failure(f'duplicate key(s) {dup} in one JSON object')
        if unknown and keys:
            self.notes.append(f'distinctness of the keys {sorted(set(keys))} from the members supplied by {sorted(set(unknown))} is assumed')
        return


def derive(tmpl, goal):
    """raise Failure unless the template derives `goal` ('VALUE' or 'MEMBERS'); returns (keys or None, notes)"""
    toks = _lex(tmpl)
    p = _P(toks)
    if goal == 'VALUE':
        p.value()
        if p.peek() is not None:
            raise Failure(f'text after a complete JSON value: {p.peek()!r}')
        return None, p.notes
    keys, unknown = p.members(None)
    dup = sorted({k for k in keys if keys.count(k) > 1})
    if dup:
        raise Failure(f'duplicate key(s) {dup} in one member list')
    return (None if unknown else set(keys)), p.notes


# ------------------------------------------------------------------------------------------------- abstract interpreter
class Interp:
    def __init__(self, cls_node, spec, module_consts):
        self.cls, self.spec, self.consts = cls_node, spec, module_consts
        self.methods = {n.name: n for n in cls_node.body if isinstance(n, (ast.FunctionDef, ast.AsyncFunctionDef))}
        self.assumptions = set()
        self.depth = 0

    # ---- paths: a path is a dict {name: truthiness} chosen so far; run() restarts with a longer prefix when a new choice appears
    def run_method(self, name, args):
        """-> list of (path description, abstract result) over all paths"""
        results = []
        pending = [()]
        while pending:
            prefix = pending.pop()
            st = {'choices': list(prefix), 'pos': 0, 'new': []}
            try:
                r = self._call_body(self.methods[name], args, st)
            except _Fork as f:
                pending.append(prefix + (True,))
                pending.append(prefix + (False,))
                continue
            results.append((tuple(st['choices']), r))
            if len(results) > 512:
                raise Undecided('too many paths')
        return results

    def _choose(self, st, what):
        if st['pos'] < len(st['choices']):
            c = st['choices'][st['pos']]
            st['pos'] += 1
            return c
        raise _Fork(what)

    def _call_body(self, fn, args, st):
        env = dict(args)
        try:
            self._block(fn.body, env, st)
        except _Return as r:
            return r.value
        return None

    def _block(self, body, env, st):
        for s in body:
            if isinstance(s, ast.Expr):
                if isinstance(s.value, ast.Constant):
                    continue
                self.ev(s.value, env, st)
            elif isinstance(s, ast.Assign) and len(s.targets) == 1 and isinstance(s.targets[0], ast.Name):
                env[s.targets[0].id] = self.ev(s.value, env, st)
            elif isinstance(s, ast.AnnAssign) and isinstance(s.target, ast.Name):
                env[s.target.id] = self.ev(s.value, env, st) if s.value is not None else Obj('unset')
            elif isinstance(s, ast.Return):
                raise _Return(self.ev(s.value, env, st) if s.value is not None else None)
            elif isinstance(s, ast.If):
                if self.truth(s.test, env, st):
                    self._block(s.body, env, st)
                else:
                    self._block(s.orelse, env, st)
            else:
                raise Undecided(f'statement {type(s).__name__} at line {s.lineno} is outside the fragment-typing subset')

    # ---- truthiness with refinement of the tested name
    def truth(self, test, env, st):
        if isinstance(test, ast.Name) and test.id in env:
            v = env[test.id]
            known = self._known_truth(v)
            if known is not None:
                return known
            c = self._choose(st, test.id)
            env[test.id] = self._refine(v, c)
            return c
        if isinstance(test, ast.UnaryOp) and isinstance(test.op, ast.Not):
            return not self.truth(test.operand, env, st)
        if isinstance(test, ast.Compare) and len(test.ops) == 1 and isinstance(test.ops[0], (ast.IsNot, ast.Is)) and isinstance(test.left, ast.Name) and isinstance(test.comparators[0], ast.Constant) and test.comparators[0].value is None:
            v = env.get(test.left.id)
            isnone = v is None
            if isinstance(v, Frag) and v.kind == 'OPTIONAL':
                c = self._choose(st, test.left.id + ' is None')
                env[test.left.id] = None if c else Frag('TRUSTED', why=v.why)
                isnone = c
            return isnone if isinstance(test.ops[0], ast.Is) else not isnone
        # anything else: an opaque condition, both ways
        return self._choose(st, ast.unparse(test)[:40])

    def _known_truth(self, v):
        if v is None:
            return False
        if isinstance(v, str):
            return bool(v)
        if isinstance(v, bytes):
            return bool(v)
        if isinstance(v, Tmpl):
            return True if any(isinstance(p, str) and p for p in v.parts) else None
        if isinstance(v, Frag):
            if v.empty is not None:
                return not v.empty
            return None
        if isinstance(v, dict):
            return bool(v)
        return None

    def _refine(self, v, truth):
        if isinstance(v, Frag):
            if not truth and v.kind in ('STR', 'RAW', 'MEMBERS', 'BYTES', 'TRUSTED', 'OPTIONAL'):
                return '' if v.kind != 'BYTES' else b''
            return Frag(v.kind, v.keys, empty=not truth if truth else True, why=v.why) if truth else v
        return v

    # ---- expressions
    def ev(self, e, env, st):
        if isinstance(e, ast.Constant):
            return e.value
        if isinstance(e, ast.Name):
            if e.id in env:
                return env[e.id]
            if e.id in self.consts:
                return self.consts[e.id]
            return Obj(e.id)
        if isinstance(e, ast.JoinedStr):
            parts = []
            for v in e.values:
                if isinstance(v, ast.Constant):
                    parts.append(v.value)
                else:
                    if v.format_spec is not None or v.conversion not in (-1, 115):
                        raise Undecided('format spec / conversion in an f-string')
                    parts.append(self.as_text(self.ev(v.value, env, st), ast.unparse(v.value)))
            return Tmpl(parts)
        if isinstance(e, ast.IfExp):
            return self.ev(e.body, env, st) if self.truth(e.test, env, st) else self.ev(e.orelse, env, st)
        if isinstance(e, ast.Dict):
            out = {}
            for k, v in zip(e.keys, e.values):
                if not (isinstance(k, ast.Constant) and isinstance(k.value, str)):
                    raise Undecided('dictionary with a computed key')
                if k.value in out:
                    raise Failure(f'dictionary literal with the key {k.value!r} twice')
                out[k.value] = self.ev(v, env, st)
            return out
        if isinstance(e, ast.Attribute):
            base = self.ev(e.value, env, st)
            dotted = ast.unparse(e)
            if dotted in self.spec['attributes']:
                k = self.spec['attributes'][dotted]
                self.assumptions.add(f'{dotted} renders as {k}')
                return Frag(k, why=dotted)
            if isinstance(base, Frag) and base.kind == 'TRUSTED':
                self.assumptions.add(f'{base.why}.* (local configuration, not peer data) renders as text which needs no escaping')
                return Frag('TRUSTED', why=dotted)
            if isinstance(base, Obj) and e.attr in base.fields:
                return base.fields[e.attr]
            return Obj(dotted)
        if isinstance(e, ast.BinOp) and isinstance(e.op, ast.Add):
            a, b = self.ev(e.left, env, st), self.ev(e.right, env, st)
            return Tmpl([self.as_text(a, 'left operand'), self.as_text(b, 'right operand')])
        if isinstance(e, ast.Call):
            return self.call(e, env, st)
        if isinstance(e, ast.Compare) or isinstance(e, ast.BoolOp):
            return Obj('bool')
        raise Undecided(f'expression {type(e).__name__} at line {e.lineno} is outside the fragment-typing subset')

    def as_text(self, v, why):
        """what an f-string hole contributes"""
        if isinstance(v, (str,)):
            return v
        if isinstance(v, bool):
            return 'True' if v else 'False'
        if isinstance(v, int):
            return Frag('NUM', why=why, empty=False)
        if isinstance(v, Tmpl):
            return v
        if isinstance(v, Frag):
            if v.kind == 'TRUSTED':
                return Frag('STR', why=v.why, empty=v.empty)
            if v.kind in ('STR', 'NUM', 'VALUE', 'MEMBERS', 'RAW'):
                return v
            return Frag('RAW', why=f'{why}: {v.kind}')
        if v is None:
            return 'None'
        return Frag('RAW', why=f'str() of {why}')

    def call(self, e, env, st):
        name = ast.unparse(e.func)
        args = [self.ev(a, env, st) for a in e.args]
        kwargs = {k.arg: self.ev(k.value, env, st) for k in e.keywords}
        if name in self.spec['calls']:
            return self.spec['calls'][name](self, e, args, kwargs)
        if name.startswith('self.') and name[5:] in self.methods and name[5:] in self.spec['inline']:
            fn = self.methods[name[5:]]
            params = [a.arg for a in fn.args.args][1:]
            bound = {'self': Obj('self')}
            defaults = fn.args.defaults
            for i, p in enumerate(params):
                if i < len(args):
                    bound[p] = args[i]
                elif p in kwargs:
                    bound[p] = kwargs[p]
                else:
                    d = defaults[i - (len(params) - len(defaults))]
                    bound[p] = self.ev(d, {}, st)
            self.depth += 1
            if self.depth > 12:
                raise Undecided('call depth')
            try:
                return self._call_body(fn, bound, st)
            finally:
                self.depth -= 1
        if name == 'str' and len(args) == 1:
            a = args[0]
            if isinstance(a, (str, Tmpl)):
                return a
            if isinstance(a, Frag) and a.kind in ('STR', 'NUM', 'TRUSTED'):
                return Frag('STR', why=a.why)
            return Frag('RAW', why=f'str({ast.unparse(e.args[0])})')
        if name == 'bytes' and len(args) == 1:
            return Frag('BYTES', why=ast.unparse(e))
        if name == 'isinstance':
            return Obj('bool')
        if name == 'getattr':
            return Frag('BYTES', why=ast.unparse(e)) if len(args) == 3 and isinstance(args[2], bytes) else Obj(ast.unparse(e))
        return Frag('RAW', why=f'result of {name}()') if name.endswith('.decode') else Obj(f'{name}()')


class _Fork(Exception):
    pass


class _Return(Exception):
    def __init__(self, value):
        self.value = value


def module_constants(tree):
    out = {}
    for n in tree.body:
        if isinstance(n, ast.Assign) and len(n.targets) == 1 and isinstance(n.targets[0], ast.Name) and isinstance(n.value, ast.Constant):
            out[n.targets[0].id] = n.value.value
    return out


def load(path, classname):
    tree = ast.parse(open(path).read())
    for n in tree.body:
        if isinstance(n, ast.ClassDef) and n.name == classname:
            return tree, n
    raise LookupError(classname)
