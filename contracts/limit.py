"""C14 — reactor/api/command/limit.py: a selector matches a neighbor iff EVERY term matches"""

import z3
from .common import *

LM = 'reactor/api/command/limit.py'
M = z3.Function('term_matches', I, I, B)  # the regular-expression search of one (escaped) term in the peer name
WILD = ('neighbor *', 'peer *')


def _terms(it, name):
    n = it.ctx.fresh('description!len')
    it.ctx.assume(n >= 0)
    it.ctx.inputs['description!len'] = ('int', n)
    tid = z3.Function('term_id', I, I)
    cache = {}

    def elem(i):
        k = str(i)
        if k not in cache:
            cache[k] = VStr(tid(to_z3(i)), f'term[{i}]')
        return cache[k]

    return VSeq(n, elem, 'description')


def _escape(it, args, kwargs, fr, node):
    # re.escape(term): the same term, quoted -- kept as the same symbolic text so that the pattern template is visible
    return args[0]


def _search(it, args, kwargs, fr, node):
    """re.search(pattern, name): the obligation is on the PATTERN -- the term must be matched as a whole word of the
    peer name, delimited by start/whitespace before and end/whitespace/comma after -- then the verdict is the
    uninterpreted predicate term_matches(term, name)"""
    ctx = it.ctx
    pattern, name = args
    parts = getattr(pattern, 'parts', None)
    ok = parts is not None and len(parts) == 3 and parts[0] == '(^|\\s)' and parts[2] == '($|\\s|,)' and isinstance(parts[1], VStr)
    ctx.oblige('pattern:whole-term', 'post', bool(ok), 'the term is searched as (^|\\s)<escaped term>($|\\s|,): a whole word of the peer name, not a prefix or substring of one')
    term = parts[1] if ok else VStr(ctx.fresh('term?'), 'term?')
    m = M(term.ident, name.ident)
    return VObj(None, {'none!': z3.Not(m), 'bool!': m}, 'match')


contract(
    LM,
    'match_neighbor',
    props=('C14',),
    params={'description': custom(_terms), 'name': str_()},
    callees={'re.escape': _escape, 're.search': _search},
    specfns={
        'matches': VSpecFn(lambda it, term, name: M(term.ident, name.ident)),
    },
    loops={
        0: {
            'index': 'i',
            # every term seen so far is the wildcard or matches the name
            'inv': ["forall(lambda j: description[j].strip() in ('neighbor *', 'peer *') or matches(description[j], name), 0, i)"],
        }
    },
    ensures=[
        # a neighbor is selected iff it matches EVERY term of the selector (the wildcard term matches anything)
        "result == forall(lambda j: description[j].strip() in ('neighbor *', 'peer *') or matches(description[j], name), 0, len(description))",
    ],
    canaries=[
        ('if re.search(pattern, name) is None:\n            return False', 'if re.search(pattern, name) is None:\n            continue'),
        ("($|\\s|,)'", "($|\\s|,|:)'"),
    ],
)
