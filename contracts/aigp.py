"""C03 — attribute/aigp.py: the AIGP TLV walk terminates and only ValueError comes out (RFC 7311)"""

import z3
from .common import *

AG = 'bgp/message/update/attribute/aigp.py'
AIGP = REG.resolve_class('exabgp.bgp.message.update.attribute.aigp:AIGP')
REG.record_classes.add(AIGP)
REG.mark_inline(AG, 'AIGPBase.__init__')


def _havoc_metric(it, fr, tag):
    """`metric` at the loop cut: still unset, or the 11-byte AIGP TLV found by an earlier iteration"""
    nd = it.ctx.fresh(f'metric@{tag}!set', B)
    if it.ctx.branch(nd):
        fr.locs['metric'] = it.ctx.fresh_bytes(f'metric@{tag}', 'memoryview', length=11)
    else:
        fr.locs['metric'] = None


contract(
    AG,
    'AIGPBase.from_packet',
    props=('C03', 'C08', 'C15'),
    params={'cls': const(AIGP), 'data': bytes_(0, 65535, 'memoryview')},
    loops={
        0: {
            'inv': ['0 <= offset and offset <= len(data)'],
            # every TLV is at least its own 3-byte header long: the walk always makes progress
            'decreases': 'len(data) - offset',
            'havoc': _havoc_metric,
        }
    },
    # malformed TLVs are refused with ValueError (which the attribute walk turns into the RFC 7606 action);
    # nothing else -- IndexError, struct.error -- may come out, and the walk cannot loop
    raises=[{'exc': 'ValueError'}],
    ensures=['len(result._packed) == 11'],
    canaries=[
        ('            if tlv_length < 3:\n                raise ValueError', '            if tlv_length < 0:\n                raise ValueError'),
        ('            if len(data) - offset < 3:\n                raise ValueError', '            if len(data) - offset < 2:\n                raise ValueError'),
    ],
)
