"""C20 — application/healthcheck.py: the nested functions of loop() (extracted from the AST; `options` and the
sibling closures are parameters)"""

import z3
from .common import *

HC = 'application/healthcheck.py'
from exabgp.application.healthcheck import States  # noqa: E402

MEMBERS = [States.INIT, States.DISABLED, States.RISING, States.FALLING, States.UP, States.DOWN]


def state_param(members):
    def build(it, name):
        k = it.ctx.fresh(name + '!idx')
        it.ctx.assume(z3.And(k >= 0, k < len(members)))
        it.ctx.inputs[name + '!idx'] = ('int', k)
        for i, m in enumerate(members[:-1]):
            if it.ctx.branch(k == i):
                return m
        return members[-1]

    return custom(build)


def _maybe_str(it, name):
    """an option that is a string, possibly empty / None: truthiness symbolic"""
    v = VStr(it.ctx.fresh(name), name)
    return v


OPTS_ONE = obj(None, disable=custom(lambda it, n: VObj(None, {'none!': it.ctx.fresh('disable.none', B)}, 'disable')), command=str_(), timeout=int_(0), rise=int_(1, None), fall=int_(1, None), debounce=bool_())


def _trigger(it, args, kwargs, fr, node):
    """sibling closure trigger(): executed from its REAL source (inlined) — resolved through the enclosing function"""
    vf = _closure(it, fr, 'trigger')
    return it.call_func(vf, args, kwargs, node)


def _closure(it, fr, name):
    from pyvc.interp import VFunc, Frame

    node = REG.find_node(HC, f'loop.{name}')
    mod = REG.module_for(HC)
    parent = Frame(mod.__dict__, {'options': fr.lookup('options')}, None, REG.contracts[(HC, f'loop.{name}')] if (HC, f'loop.{name}') in REG.contracts else None, HC, 'loop')
    for sib in ('exabgp', 'trigger'):
        if sib != name and sib in fr.locs:
            parent.locs[sib] = fr.locs[sib]
    return VFunc(node, parent, f'loop.{name}', module=HC, contract_key=(HC, f'loop.{name}') if (HC, f'loop.{name}') in REG.contracts else None)


def _vars(it, args, kwargs, fr, node):
    o = args[0]

    def getitem(it2, oo, k):
        return o.fields[k]

    d = VObj(None, {'getitem!': getitem}, 'vars')
    d.fields['get!'] = lambda k, default: o.fields.get(k, default)
    return d


def _vars_get(it, args, kwargs, fr, node):
    """vars(options).get(key, default)"""
    key = args[0]
    default = args[1] if len(args) > 1 else None
    o = fr.lookup('options')
    if not isinstance(key, str):
        raise Unsupported('vars(options).get with a symbolic key')
    return o.fields.get(key, default)


def _exabgp_record(it, args, kwargs, fr, node):
    f = fr
    while f is not None and 'announced' not in f.locs:
        f = f.parent
    f.locs['announced'] = args[0]
    f.locs['n_announce'] = f.locs['n_announce'] + 1
    return None


I_S = {m: i for i, m in enumerate(MEMBERS)}


def _sid(it, m):
    return I_S[m]


contract(
    HC,
    'loop.trigger',
    props=('C20',),
    params={'target': state_param(MEMBERS), 'options': obj(None, rise=int_(1, None), fall=int_(1, None))},
    callees={'vars(options).get': lambda it, a, k, fr, n: VList([]), 'subprocess.call': noop, 'os.environ.copy': lambda it, a, k, fr, n: VDict(), 'open': noop},
    ensures=[
        # the rise/fall shortcut: with rise (fall) <= 1 the intermediate state is skipped
        'implies(target is States.RISING, result is (States.UP if options.rise <= 1 else States.RISING))',
        'implies(target is States.FALLING, result is (States.DOWN if options.fall <= 1 else States.FALLING))',
        'implies(target is not States.RISING and target is not States.FALLING, result is target)',
    ],
    canaries=[('options.rise <= 1', 'options.rise <= 2')],
)

OK_STREAK = 'ok'
contract(
    HC,
    'loop.one',
    props=('C20',),
    params={'checks': int_(), 'state': state_param(MEMBERS), 'options': OPTS_ONE},
    ghost={'ok': int_(0), 'ko': int_(0), 'announced': const(None), 'n_announce': const(0), 'successful_': const(None)},
    # representation invariant linking the counter to the streak of identical results seen so far
    requires=[
        'implies(state is States.RISING, 1 <= checks and checks == ok and ok < options.rise and ko == 0)',
        'implies(state is States.FALLING, 1 <= checks and checks == ko and ko < options.fall and ok == 0)',
        'implies(state is States.UP, ko == 0)',
        'implies(state is States.DOWN, ok == 0)',
        'not (ok > 0 and ko > 0)',
        # the streaks count results since the automaton last left INIT / DISABLED
        'implies(state is States.INIT or state is States.DISABLED, ok == 0 and ko == 0)',
    ],
    callees={
        'os.path.exists': returns_fresh('bool', label='disable_file_exists'),
        'check': returns_fresh('bool', label='check_result'),
        'trigger': _trigger,
        'exabgp': _exabgp_record,
    },
    lets={'ok1': '(ok + 1)', 'ko1': '(ko + 1)', 'state0': 'state'},
    ensures=[
        # result[0] = checks', result[1] = state'
        # the disable file wins
        'implies(disabled, result[1] is States.DISABLED)',
        'implies(not disabled and state0 is States.DISABLED, result[1] is States.INIT)',
        # UP only after `rise` consecutive successes (counting this one), DOWN only after `fall` consecutive failures
        'implies(result[1] is States.UP and state0 is not States.UP, successful and (ok1 >= options.rise or state0 is States.INIT or state0 is States.DOWN and options.rise <= 1))',
        'implies(result[1] is States.UP and state0 is States.RISING, ok1 >= options.rise)',
        'implies(result[1] is States.DOWN and state0 is not States.DOWN, not successful and (ko1 >= options.fall or options.fall <= 1))',
        'implies(result[1] is States.DOWN and state0 is States.FALLING, ko1 >= options.fall)',
        # a single contrary result never changes what is announced when rise and fall exceed one
        'implies(state0 is States.UP and not successful and not disabled and options.fall > 1, result[1] is States.FALLING)',
        'implies(state0 is States.DOWN and successful and not disabled and options.rise > 1, result[1] is States.RISING)',
        # enough consecutive results always complete the transition
        'implies(state0 is States.RISING and successful and not disabled and ok1 >= options.rise, result[1] is States.UP)',
        'implies(state0 is States.FALLING and not successful and not disabled and ko1 >= options.fall, result[1] is States.DOWN)',
        # the counter invariant is re-established for the next iteration (streaks updated with this result)
        'implies(result[1] is States.RISING, 1 <= result[0] and result[0] == (ok1 if successful else 0) and result[0] < options.rise)',
        'implies(result[1] is States.FALLING, 1 <= result[0] and result[0] == (ko1 if not successful else 0) and result[0] < options.fall)',
        # what is announced is the state reached; with --debounce only on a change
        'implies(n_announce == 1, announced is result[1])',
        'n_announce == (1 if (not options.debounce or result[1] is not state0) else 0)',
    ],
    canaries=[
        ('                state = trigger(States.FALLING)\n                checks = 1\n        elif state == States.FALLING:', '                state = trigger(States.FALLING)\n        elif state == States.FALLING:'),
        ('if checks >= options.rise:', 'if checks > options.rise:'),
        ('if checks >= options.fall:', 'if checks >= options.fall - 1:'),
        ('if not options.debounce or state != state_before_iteration:', 'if not options.debounce and state != state_before_iteration:'),
    ],
)


# ------------------------------------------------------------------------------------------------ exabgp(): the lines written

ALL_TARGETS = [States.INIT, States.DISABLED, States.RISING, States.FALLING, States.UP, States.DOWN, States.EXIT, States.END]


def opt_str(it, name):
    """an optional text option: None, or a non-empty string (forks)"""
    nd = it.ctx.fresh(name + '!set', B)
    it.ctx.inputs[name + '!set'] = ('bool', nd)
    if it.ctx.branch(nd):
        v = VStr(it.ctx.fresh(name), name)
        it.ctx.assume(v.ident != 0)
        return v
    return None


def opt_lp(it, name):
    nd = it.ctx.fresh(name + '!set', B)
    if it.ctx.branch(nd):
        v = it.ctx.fresh(name)
        it.ctx.assume(v >= 0)
        return v
    return -1


def _flat(parts):
    out = []
    for p in parts:
        if isinstance(p, VStr) and getattr(p, 'parts', None) is not None:
            out.extend(_flat(p.parts))
        else:
            out.append(p)
    m = []
    for p in out:
        if isinstance(p, str) and m and isinstance(m[-1], str):
            m[-1] += p
        elif not (isinstance(p, str) and p == ''):
            m.append(p)
    return m


def _expected_line(it, fr):
    """RFC-level spec of one healthcheck line, from the property statement: which action, which attributes, per state"""
    L = fr.locs
    o = fr.lookup('options')
    f = o.fields
    target = L['target']
    wod = L['wod!']
    if target is States.UP:
        action = 'announce'
    elif target is States.EXIT or wod:
        action = 'withdraw'
    else:
        action = 'announce'
    parts = ['peer * ', action, ' route ', L['ip'], ' next-hop ', f['next_hop'] if f['next_hop'] is not None else 'self']
    if action == 'announce':
        parts += [' med ', ('metric!',)]
        if not (isinstance(f['local_preference'], int) and f['local_preference'] < 0):
            parts += [' local-preference ', f['local_preference']]
        community = f['community']
        if target in (States.DOWN, States.DISABLED) and f['disabled_community'] is not None:
            community = f['disabled_community']
        if community is not None:
            parts += [' community [ ', community, ' ]']
        if f['extended_community'] is not None:
            parts += [' extended-community [ ', f['extended_community'], ' ]']
        if f['large_community'] is not None:
            parts += [' large-community [ ', f['large_community'], ' ]']
        as_path = f.get(f'{target.value.lower()}_as_path')
        if as_path is None:
            as_path = f['as_path']
        if as_path is not None:
            parts += [' as-path [ ', as_path, ' ]']
    if f['path_id'] is not None:
        parts += [' path-information ', f['path_id']]
    parts += ['\n']
    return action, _flat(parts)


def _write(it, args, kwargs, fr, node):
    ctx = it.ctx
    L = fr.locs
    text = args[0]
    target = L['target']
    L['lines'] = simp(L['lines'] + 1)
    ctx.oblige('line:state', 'post', target in (States.UP, States.DOWN, States.DISABLED, States.EXIT), 'lines are written for UP / DOWN / DISABLED / EXIT only')
    if target not in (States.UP, States.DOWN, States.DISABLED, States.EXIT):
        return None
    got = _flat(text.parts if isinstance(text, VStr) and getattr(text, 'parts', None) is not None else [text])
    action, exp = _expected_line(it, fr)
    ctx.oblige('line:action', 'post', any(isinstance(p, str) and f' {action} route ' in p for p in got) and not any(isinstance(p, str) and (' announce ' in p) != (action == 'announce') and (' withdraw ' in p or ' announce ' in p) for p in got), f'action for {target.value} is {action} (EXIT always withdraws)')
    ok = len(got) == len(exp)
    eqs = []
    if ok:
        for g, e in zip(got, exp):
            if isinstance(e, tuple):  # the running metric
                eqs.append(to_z3(g) == to_z3(simp(L['m0'] + L['delta'].fn(it, L['i_']))) if is_int(g) else False)
            elif isinstance(e, str) or isinstance(g, str):
                ok = ok and isinstance(e, str) and isinstance(g, str) and e == g
            elif isinstance(e, VStr) and isinstance(g, VStr):
                ok = ok and (e is g or z3.eq(e.ident, g.ident))
            elif is_int(e) and is_int(g):
                eqs.append(to_z3(g) == to_z3(e))
            else:
                ok = False
    ctx.oblige('line:template', 'post', simp(z_and(ok, *eqs)) if ok else False, 'the line is exactly: <prefix> <action> route <ip> next-hop <nh> [med, local-preference, communities, as-path for that state] [path-information]', getattr(node, 'lineno', 0))
    if not ok:
        ctx.notes.append(f'template mismatch: got {[p if isinstance(p, str) else "<" + getattr(p, "name", "int") + ">" for p in got]} expected {[p if isinstance(p, str) else "<" + getattr(p, "name", str(p)) + ">" for p in exp]}')
    return None


def _opts_exabgp(variant):
    def build(it, name):
        c = it.ctx
        f = {}
        some = (lambda n: opt_str(it, f'options.{n}'))
        none = (lambda n: None)
        A = variant == 'a'
        f['next_hop'] = (some if A else none)('next_hop')
        f['local_preference'] = opt_lp(it, 'options.local_preference') if A else -1
        f['community'] = (some if A else none)('community')
        f['disabled_community'] = (some if A else none)('disabled_community')
        f['as_path'] = (some if A else none)('as_path')
        f['up_as_path'] = (some if A else none)('up_as_path')
        f['down_as_path'] = None
        f['disabled_as_path'] = None
        f['extended_community'] = (none if A else some)('extended_community')
        f['large_community'] = (none if A else some)('large_community')
        f['path_id'] = (none if A else some)('path_id')
        f['withdraw_on_down'] = c.fresh('options.withdraw_on_down', B)
        c.inputs['options.withdraw_on_down'] = ('bool', f['withdraw_on_down'])
        f['increase'] = c.fresh('options.increase')
        f['up_metric'], f['down_metric'], f['disabled_metric'] = c.fresh('options.up_metric'), c.fresh('options.down_metric'), c.fresh('options.disabled_metric')
        f['ip_dynamic'], f['ip_setup'], f['no_ack'] = c.fresh('options.ip_dynamic', B), c.fresh('options.ip_setup', B), c.fresh('options.no_ack', B)
        f['neighbors'] = None
        n = c.fresh('options.ips!len')
        c.assume(n >= 0)
        c.inputs['options.ips!len'] = ('int', n)
        ipf = z3.Function('ip_at', I, I)
        cache = {}

        def elem(i):
            k = str(i)
            if k not in cache:
                cache[k] = VStr(ipf(to_z3(i)), 'ip')
            return cache[k]

        f['ips'] = VSeq(n, elem, 'options.ips')
        for k in ('ip_ifnames', 'label', 'label_exact_match', 'sudo'):
            f[k] = None
        return VObj(None, f, 'options')

    return custom(build)


def _setup_exabgp(it, fr):
    fr.locs['delta'] = VSpecFn(lambda it2, k: z3.Function('metric_delta', I, I)(to_z3(k)))
    # whether withdraw_on_down is set on this path is fixed up front (the code branches on it per ip)
    w = fr.locs['options'].fields['withdraw_on_down']
    fr.locs['wod!'] = it.ctx.branch(w)
    fr.locs['options'].fields['withdraw_on_down'] = fr.locs['wod!']


for variant in ('a', 'b'):
    contract(
        HC,
        f'loop.exabgp#{variant}',
        props=('C20',),
        params={'target': state_param(ALL_TARGETS), 'options': _opts_exabgp(variant)},
        ghost={'lines': const(0)},
        setup=_setup_exabgp,
        requires=['delta(0) == 0'],
        callees={
            'vars(options).get': _vars_get,
            'setup_ips': noop,
            'remove_ips': noop,
            'sys.stdout.write': _write,
            'sys.stdout.flush': noop,
            'hasattr': lambda it, a, k, fr, n: True,
            'sys.stdout.isatty': returns_fresh('bool', label='isatty'),
            'sys.stdin.readline': noop,
        },
        loops={0: {'entry_lets': {'m0': 'metric'}, 'inv': ['metric == m0 + delta(i_)', 'lines == i_'], 'index': 'i_', 'unfold': ['delta(i_ + 1) == delta(i_) + options.increase'], 'modifies': ['lines']}},
        ensures=[
            # nothing is written for INIT / RISING / FALLING / END; one line per address otherwise
            'lines == (len(options.ips) if target in (States.UP, States.DOWN, States.DISABLED, States.EXIT) else 0)',
        ],
        canaries=[
            ("action = 'announce' if target is States.UP else 'withdraw'", "action = 'announce' if target is not States.EXIT else 'withdraw'"),
            ('metric += options.increase', 'metric += 1'),
            ('if target in (States.END,):', 'if target in (States.END, States.EXIT):'),
        ]
        + ([('if target in (States.DOWN, States.DISABLED):\n                        if options.disabled_community:', 'if target in (States.DOWN,):\n                        if options.disabled_community:')] if variant == 'a' else [('if options.path_id:', 'if not options.path_id:')]),
    )


# ------------------------------------------------------------------------------------------------ exit paths: routes are withdrawn


def _sys_exit(it, args, kwargs, fr, node):
    from pyvc.interp import Raise

    raise Raise(VExc(SystemExit, tuple(args)))


def _exabgp_record2(it, args, kwargs, fr, node):
    f = fr
    while f is not None and 'announced' not in f.locs:
        f = f.parent
    f.locs['announced'] = args[0]
    f.locs['n_announce'] = simp(f.locs['n_announce'] + 1)
    return None


contract(
    HC,
    'loop.sigterm_handler',
    props=('C20',),
    params={'signum': int_(), 'frame': const(None), 'options': obj(None), 'state': state_param(MEMBERS), 'checks': int_()},
    ghost={'announced': const(None), 'n_announce': const(0)},
    callees={'exabgp': _exabgp_record2, 'sys.exit': _sys_exit},
    raises=[{'exc': 'SystemExit'}],
    final=['announced is States.EXIT'],  # on SIGTERM the routes are withdrawn, whatever the state
    cover_raises=True,
    canaries=[('exabgp(States.EXIT)', 'exabgp(States.END)')],
)


def _one_step(it, args, kwargs, fr, node):
    """one(checks, state): any counter, any state of the automaton (its own contract is loop.one)"""
    st = state_param(MEMBERS).value(it, 'state@iter')
    return VTuple([it.ctx.fresh('checks@iter'), st])


def _sleep(it, args, kwargs, fr, node):
    from pyvc.interp import Raise

    nd = it.ctx.fresh('interrupted', B)
    if it.ctx.branch(nd):
        f = fr
        while f is not None and 'interrupted' not in f.locs:
            f = f.parent
        f.locs['interrupted'] = True
        raise Raise(VExc(KeyboardInterrupt, ()))
    return None


contract(
    HC,
    'loop#main',
    props=('C20',),
    segment={'from': 'while True:', 'to': None},
    params={'options': obj(None, fast=int_(0), interval=int_(0)), 'checks': const(0), 'state': const(States.INIT)},
    ghost={'announced': const(None), 'n_announce': const(0), 'interrupted': const(False)},
    callees={'one': _one_step, 'exabgp': _exabgp_record2, 'time.sleep': _sleep},
    loops={0: {'inv': ['not interrupted'], 'modifies': ['announced', 'n_announce']}},
    ensures=[
        # the loop is left either by interval == 0 (END: routes stay) or by an interrupt, which withdraws (EXIT)
        'implies(interrupted, announced is States.EXIT)',
        'implies(not interrupted, announced is States.END and options.interval == 0)',
    ],
    notes=['segment contract: the main loop of loop(); one() is used through an abstract step (any state), its behaviour is the contract of loop.one'],
    canaries=[('except KeyboardInterrupt:\n            exabgp(States.EXIT)', 'except KeyboardInterrupt:\n            exabgp(States.END)')],
)
