LEVELS = {'C04': 'exploration', 'C11': 'exploration', 'C13': 'exploration', 'C01': 'exploration', 'C15': 'exploration'}
NOT_DECIDED = {
    'C12': ['how often the main loop polls the timers (scheduling granularity) is not decided: clauses are stated "at the next call"'],
    'C09': ['route classification prefix of messages() and next-hop grouping of packed_reach_attributes: bounded only (segment contracts abstract them)', 'NLRI encoders by assumed contract here (their own contracts belong to C01/C15)'],
    'C02': ['NLRI / MP / AS_PATH decoders and JSON rendering: bounded only'],
    'C03': ['wall-clock proportionality: only termination, linear iteration bounds and depth are decided; a bounded time guard complements'],
    'C08': ['RFC 7606 class per attribute type: uninterpreted in the deductive part, live class flags in the bounded part'],
    'C19': ['frame scan over all decode-reachable functions not built; Capability.klass kls.ID mutation open'],
    'C07': ['Capabilities objects abstract; ADD-PATH RequirePath.setup, OPEN encode/decode, Capabilities.new bounded only'],
    'C04': ['bounded only: no deductive obligation on the RIB representation invariant yet; watchdog operations not explored'],
    'C17': ['the applies-the-difference half (replace_reload, Reactor.reload, _commit_reload) is bounded only', 'assumed: _link()/validate() do not raise after the commit'],
    'C11': ['bounded only: crash points enumerated, not eliminated by an invariant; transport is a recording stub'],
    'C14': ['acknowledgement order and no-side-effect-on-error clauses are not covered (no obligations, no bounded check)', 'rstrip()/formated() opaque; extract_neighbors bounded only'],
    'C18': ['as_path, _large_community, extended communities, labels/RD, flow and VPLS text parsers: bounded only', 'count/size limits (number of communities, attribute larger than a message): not swept here'],
    'C13': ['bounded only: no deductive obligation on the JSON assemblers or the json() fragments yet'],
    'C01': ['bounded only so far: no deductive obligation on the NLRI / attribute encoders yet'],
    'C15': ['bounded only at the property level: corpus round trips and one-bit variants; leaf encoders shared with C01 are under contract'],
    'C06': ['the kernel delivers the byte stream faithfully (recv callee contract); interference from other asyncio tasks at await is not decided'],
}
