LEVELS = {}
NOT_DECIDED = {
    'C12': ['how often the main loop polls the timers (scheduling granularity) is not decided: clauses are stated "at the next call"'],
    'C09': ['route classification prefix of messages() and next-hop grouping of packed_reach_attributes: bounded only (segment contracts abstract them)', 'NLRI encoders by assumed contract here (their own contracts belong to C01/C15)'],
    'C06': ['the kernel delivers the byte stream faithfully (recv callee contract); interference from other asyncio tasks at await is not decided'],
}
