LEVELS = {}
NOT_DECIDED = {
    'C12': ['how often the main loop polls the timers (scheduling granularity) is not decided: clauses are stated "at the next call"'],
    'C06': ['the kernel delivers the byte stream faithfully (recv callee contract); interference from other asyncio tasks at await is not decided'],
}
