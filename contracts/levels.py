LEVELS = {}
NOT_DECIDED = {
    'C12': ['how often the main loop polls the timers (scheduling granularity) is not decided: clauses are stated "at the next call"'],
}
