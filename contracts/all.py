"""imports every sidecar contract module (registration side effect)"""
from . import timer  # noqa: F401
