"""imports every sidecar contract module (registration side effect)"""
from . import timer, connection, protocol, update, flow, attributes, attr_decoders, negotiated, healthcheck, configuration, processes, limit, textparser, aigp, capabilities, encoders, rte_sweep, neighbor, nlri_decoders, peerloop  # noqa: F401
