"""shared helpers for sidecar contracts"""

from pyvc.contract import *  # noqa: F401,F403
from pyvc.contract import Contract, Registry
from pyvc.values import *  # noqa: F401,F403
from pyvc import interp as _interp
from pyvc.interp import Unsupported, VDict  # noqa: F401

REG = Registry()


def contract(file, qualname, **kw):
    return REG.add(Contract(file, qualname, **kw))


def returns(name):
    """callee spec: returns the ghost/local `name` of the caller frame"""

    def h(it, args, kwargs, fr, node):
        return fr.lookup(name)

    return h


def returns_fresh(kind='int', lo=None, hi=None, label='ret'):
    def h(it, args, kwargs, fr, node):
        import z3

        if kind == 'int':
            v = it.ctx.fresh(label)
            it.ctx.inputs.setdefault(str(v), ('int', v))
            if lo is not None:
                it.ctx.assume(v >= lo)
            if hi is not None:
                it.ctx.assume(v <= hi)
            return v
        if kind == 'bool':
            v = it.ctx.fresh(label, z3.BoolSort())
            it.ctx.inputs.setdefault(str(v), ('bool', v))  # environment choices are part of the counter-model
            return v
        if kind == 'bytes':
            return it.ctx.fresh_bytes(label)
        if kind == 'none':
            return None
        if kind == 'str':
            return VStr(it.ctx.fresh(label), label)
        raise ValueError(kind)

    return h


def noop(it, args, kwargs, fr, node):
    return None


def flags_obj(name='flags'):
    """a str-keyed table of booleans / counters whose content is irrelevant: reads give fresh values, writes are no-ops"""

    def build(it, pname):
        import z3

        memo = {}

        def getitem(it2, o, k):
            key = repr(k) if isinstance(k, str) else None
            if key is not None and key in memo:
                return memo[key]
            v = it2.ctx.fresh(f'{pname}[{k if isinstance(k, str) else "?"}]', z3.BoolSort() if name == 'flags' else z3.IntSort())
            if key is not None:
                memo[key] = v
            return v

        return VObj(None, {'getitem!': getitem, 'setitem!': lambda it2, o, k, v: None}, pname)

    return custom(build)
